#!/usr/bin/env python3
"""Development helper (never used by a registered check): run a property, and append the
violations whose rule matches argv[2] to known_findings.json with the given explanation."""
import json, subprocess, sys
prop, rule, what, repro = sys.argv[1], sys.argv[2], sys.argv[3], sys.argv[4]
out = subprocess.run(["/venv/bin/python", "-m", "opstatic.run", prop, "--json", "--no-evidence"], capture_output=True, text=True, cwd="/verif").stdout
fds = json.loads(out.splitlines()[0])
kf = json.load(open("/verif/known_findings.json"))
n = 0
for fd in fds:
    if fd["rule"] == rule and not fd["known"] and (len(sys.argv) < 6 or sys.argv[5] in fd["construct"] or sys.argv[5] in fd["function"]):
        kf["findings"].append({"property": prop, "rule": rule, "function": fd["function"], "construct": fd["construct"],
                               "status": "open", "what": what, "reproduction": repro})
        n += 1
json.dump(kf, open("/verif/known_findings.json", "w"), indent=1)
print("added", n)
