#!/bin/bash
# Development helper: re-confirm every kept seed against the current /repo HEAD in a scratch worktree:
# the demonstration must pass on the unchanged tree and fail with the patch applied. Usage: seed_recheck.sh [jobs]
jobs=${1:-6}
out=/tmp/seed/recheck; rm -rf $out; mkdir -p $out
one() {
  d=$1; id=$(basename $d); wt=/tmp/wt/rc_$id
  git -C /repo worktree add -q --detach $wt HEAD 2>/dev/null || { echo "$id worktree-failed"; return; }
  demo=$d/demo_repaired_tree.py; [ -f $demo ] || demo=$(ls $d/demo.* | head -n 1)
  run() { case $demo in *.py) (cd $wt && PYTHONPATH=$wt timeout 1500 /venv/bin/python $demo > $2 2>&1);; *.sh) (cd $wt && PYTHONPATH=$wt timeout 1500 bash $demo $wt > $2 2>&1);; esac; echo $?; }
  a=$(run $wt /tmp/seed/recheck/$id.base.log)
  if git -C $wt apply $d/patch.diff 2>/dev/null; then b=$(run $wt /tmp/seed/recheck/$id.patch.log); else b=noapply; fi
  git -C /repo worktree remove --force $wt
  echo "$id base=$a patched=$b"
}
export -f one
ls -d /verif/seeded/*/ | xargs -P $jobs -I{} bash -c 'one {}' | sort > $out/summary.txt
cat $out/summary.txt
