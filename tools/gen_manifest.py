#!/usr/bin/env python3
"""Regenerates /verif/MANIFEST.json from the tables in opstatic/manifest_table.py."""
import json, os, sys
sys.path.insert(0, os.path.dirname(os.path.dirname(os.path.abspath(__file__))))
from opstatic.manifest_table import CHECKS, NOT_APPLICABLE, NOTES

BASE = "cd /repo && /venv/bin/python -m pytest -ra -q -p no:cacheprovider --timeout=900 --continue-on-collection-errors"
m = {
    "version": 1,
    "setup_cmd": "/venv/bin/python -m opstatic.selfcheck",
    "hooks": {
        "guard": "OPEN_PECTUS_VERIF",
        "enable": "none: the checks read /repo's working tree with ast; no instrumentation of Open-Pectus exists",
        "baseline_off_cmd": BASE,
        "source_commits": [],
        "add_only": True,
    },
    "engines": [{
        "name": "opstatic",
        "path": "/verif/opstatic",
        "serves_properties": [c["id"] for c in CHECKS],
        "kind_free_text": "repository-specific static analysis: ast program model, class-hierarchy call resolution, "
                          "statement CFGs with dominance/must-pass/kill queries, constant folding, regex-AST and finite "
                          "abstract interpretation; never imports or runs openpectus",
    }],
    "checks": [],
    "not_applicable": NOT_APPLICABLE,
    "notes": NOTES,
}
for c in CHECKS:
    m["checks"].append({
        "property_id": c["id"],
        "quick_cmd": f"/venv/bin/python -m opstatic.run {c['id']} --tier quick",
        "thorough_cmd": f"/venv/bin/python -m opstatic.run {c['id']} --tier thorough",
        "evidence_file": f"/verif/evidence/{c['id']}.json",
        "replay_cmd_template": f"/venv/bin/python -m opstatic.run {c['id']} --replay {{path}}",
        "engine": "opstatic",
        "level_claimed": {"category": "other", "text": c["level"], "design_ref": c.get("ref", f"DESIGN.md §4 {c['id']}")},
        "level_note": c["note"],
        "technique": c["technique"],
    })
ids = {c["id"] for c in CHECKS} | {n["property_id"] for n in NOT_APPLICABLE}
allids = [json.loads(l)["id"] for l in open(os.path.join(os.path.dirname(__file__), "..", "properties.jsonl"))]
missing = [i for i in allids if i not in ids]
assert not missing, f"properties neither claimed nor not_applicable: {missing}"
dup = [c["id"] for c in CHECKS if c["id"] in {n["property_id"] for n in NOT_APPLICABLE}]
assert not dup, dup
out = os.path.join(os.path.dirname(__file__), "..", "MANIFEST.json")
json.dump(m, open(out, "w"), indent=1)
print("wrote", os.path.abspath(out), len(m["checks"]), "checks,", len(NOT_APPLICABLE), "not applicable")
