#!/bin/bash
# Development helper: run the baseline suite inside a seed worktree (patch applied) and compare with BASELINE.json
id=$1; wt=/tmp/wt/$id; out=/tmp/seed/$id
cd $wt && PYTHONPATH=$wt /venv/bin/python -m pytest -ra -q -p no:cacheprovider --timeout=900 --continue-on-collection-errors --junitxml=$out/suite.xml > $out/suite.log 2>&1
/venv/bin/python - "$out/suite.xml" > $out/suite_mine.txt <<'PY'
import json,sys,xml.etree.ElementTree as ET
base=set(json.load(open('/root/.vp/BASELINE.json'))['stable_pass'])
ok=set()
for tc in ET.parse(sys.argv[1]).iter('testcase'):
    if not any(c.tag in ('failure','error','skipped') for c in tc):
        ok.add(f"{tc.get('classname')}::{tc.get('name')}")
missing=sorted(base-ok)
print("baseline",len(base),"passed-now",len(ok),"baseline tests not passing:",len(missing))
for m in missing: print("  MISSING",m)
PY
