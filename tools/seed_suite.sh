#!/bin/bash
# Development helper: run the baseline suite inside a seed worktree (patch applied) and compare with BASELINE.json.
# The OPC-UA tests start servers on fixed ports and hang/fail when another suite runs them at the same time, so that
# module runs separately under a machine-wide lock (and is retried), the rest of the suite runs without it.
id=$1; wt=/tmp/wt/$id; out=/tmp/seed/$id
cd $wt && PYTHONPATH=$wt /venv/bin/python -m pytest -ra -q -p no:cacheprovider --timeout=900 --continue-on-collection-errors \
  --ignore=openpectus/test/engine/test_opcua_hardware.py --junitxml=$out/suite.xml > $out/suite.log 2>&1
for try in 1 2 3; do
  flock /tmp/opcua.lock env PYTHONPATH=$wt /venv/bin/python -m pytest -q -p no:cacheprovider --timeout=300 \
    openpectus/test/engine/test_opcua_hardware.py --junitxml=$out/suite_opcua.xml > $out/suite_opcua.log 2>&1 && break
done
/venv/bin/python - "$out/suite.xml" "$out/suite_opcua.xml" > $out/suite_mine.txt <<'PY'
import json,sys,xml.etree.ElementTree as ET
base=set(json.load(open('/root/.vp/BASELINE.json'))['stable_pass'])
ok=set()
for f in sys.argv[1:]:
    try: tree=ET.parse(f)
    except Exception: continue
    for tc in tree.iter('testcase'):
        if not any(c.tag in ('failure','error','skipped') for c in tc):
            ok.add(f"{tc.get('classname')}::{tc.get('name')}")
missing=sorted(base-ok)
print("baseline",len(base),"passed-now",len(ok),"baseline tests not passing:",len(missing))
for m in missing: print("  MISSING",m)
PY
