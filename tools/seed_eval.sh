#!/bin/bash
# Development helper: evaluate a seeded change produced by a sub-agent.
# usage: seed_eval.sh <Cxx> <tag>   (worktree /tmp/wt/<Cxx><tag>, deliverables /tmp/seed/<Cxx><tag>)
prop=$1; id=$1$2; wt=/tmp/wt/$id; out=/tmp/seed/$id
demo=$(ls $out/demo.py $out/test_demo.py 2>/dev/null | head -1)
echo "== $id demo=$demo"
cd $wt || exit 2
git diff > $out/patch.check.diff
if ! diff -q $out/patch.check.diff $out/patch.diff >/dev/null; then echo "NOTE: patch.diff differs from worktree diff; using worktree diff"; cp $out/patch.check.diff $out/patch.diff; fi
git diff --stat | tail -1
run_demo() { if [[ $demo == *test_demo.py ]]; then (cd $wt; PYTHONPATH=$wt timeout 600 /venv/bin/python -m pytest -q -p no:cacheprovider $demo >$out/demo_$1.log 2>&1); else (cd $wt; PYTHONPATH=$wt timeout 600 /venv/bin/python $demo >$out/demo_$1.log 2>&1); fi; echo "demo($1) exit=$? : $(tail -1 $out/demo_$1.log | cut -c1-200)"; }
run_demo with_change
git stash -q && run_demo without_change; git stash pop -q
echo "-- checks on /repo with the patch applied"
cd /repo && git apply $out/patch.diff && (cd /verif && for p in $prop ${@:3}; do /venv/bin/python -m opstatic.run $p --no-evidence 2>&1 | grep -v "^    path" | grep -v KNOWN-FINDING | cut -c1-600 | tail -8; echo "[$p exit=${PIPESTATUS[0]}]"; done); git -C /repo checkout -- . ; git -C /repo status --short | head -3
