#!/bin/bash
# Development helper: evaluate a seeded change produced by a sub-agent.
# usage: seed_eval.sh <Cxx> [demo-file]   (worktree /tmp/wt/<Cxx>, deliverables /tmp/seed/<Cxx>)
id=$1; wt=/tmp/wt/$id; out=/tmp/seed/$id
demo=${2:-$(ls $out/demo.py $out/test_demo.py 2>/dev/null | head -1)}
echo "== $id demo=$demo"
cd $wt || exit 2
git diff --stat | tail -1
run_demo() { if [[ $demo == *test_demo.py ]]; then PYTHONPATH=$wt timeout 600 /venv/bin/python -m pytest -q -p no:cacheprovider $demo >/tmp/seed/$id/demo_$1.log 2>&1; else PYTHONPATH=$wt timeout 600 /venv/bin/python $demo >/tmp/seed/$id/demo_$1.log 2>&1; fi; echo "demo($1) exit=$?"; }
run_demo with_change
git stash -q && run_demo without_change; git stash pop -q
echo "-- check on /repo with the patch applied"
cd /repo && git apply $out/patch.diff && (cd /verif && /venv/bin/python -m opstatic.run $id --no-evidence 2>&1 | grep -v "^    path" | cut -c1-700 | tail -12); git -C /repo checkout -- . ; git -C /repo status --short | head -3
