#!/bin/bash
# Development helper: prepare a private worktree and the property text for a seeding sub-agent.
# usage: seed_setup.sh <Cxx> <tag>    -> worktree /tmp/wt/<Cxx><tag>, deliverables dir /tmp/seed/<Cxx><tag>
prop=$1; tag=$2; id=$prop$tag; wt=/tmp/wt/$id; out=/tmp/seed/$id
mkdir -p /tmp/wt $out
[ -d $wt ] || git -C /repo worktree add -q --detach $wt HEAD
grep "\"id\": *\"$prop\"" /verif/properties.jsonl | /venv/bin/python -c "
import json,sys
p=json.loads(sys.stdin.read())
for k in ('added_in_round','source'): p.pop(k,None)
print(json.dumps(p,indent=1,ensure_ascii=False))" > $out/property.json
echo $wt $out
