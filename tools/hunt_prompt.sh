#!/bin/bash
# prints the prompt handed to a defect-hunting sub-agent: usage hunt_prompt.sh <Cxx> <tag> ["already known, look elsewhere: ..."]
id=$1$2; wt=/tmp/wt/$id; out=/tmp/seed/$id
cat <<P
You are helping test a Python project by looking for GENUINE defects in it.

The project is Open-Pectus (a process-control engine that interprets the P-code DSL tick by tick, drives hardware registers, and reports to an aggregator over websockets). You have your OWN private git worktree of it at $wt - work ONLY there. Do NOT read, list or touch /verif, /repo, /root/.claude, /root/.vp or any other /tmp/wt/* or /tmp/seed/* directory; they are out of bounds. Use /venv/bin/python (3.12) to run things, with PYTHONPATH=$wt and cwd $wt. There is no network. Do NOT modify the source under $wt/openpectus (you are looking for defects in the code AS IT IS; scratch files go in $out/).

Here is a semantic property of Open-Pectus that is supposed to hold (JSON, also saved at $out/property.json):

$(cat $out/property.json)

YOUR TASK: find an input, history, schedule or fault sequence under which the UNCHANGED code violates this property - something a unit test with a handful of examples would miss: unusual but legal inputs, boundary values, a request arriving in a particular tick, the same instruction running twice (macro called twice, Alarm body), an operation repeated, two things happening in the same tick, errors at a particular point, non-ASCII text, orderings of operations the authors did not think of. Read the anchored code carefully first, form hypotheses about where the property could fail, then TRY them against the real code with small scripts (openpectus/test/** shows how the tests construct engines/aggregators, e.g. openpectus/test/engine/utility_methods.py has EngineTestRunner; test UODs are in openpectus/test/engine/test_engine.py; an Engine can also be driven directly with engine.tick(time, 0.1)). Spend your effort on trying many different hypotheses rather than on one. $3

For EVERY genuine violation you can reproduce write a standalone demonstration $out/finding_<n>.py (run as: cd $wt && PYTHONPATH=$wt /venv/bin/python $out/finding_<n>.py) that drives the REAL code and prints a one-line "PROPERTY VIOLATED: ..." and exits 1 when the defect shows (it must do so on the unchanged tree), and would print "OK: ..." and exit 0 if the code behaved as the property says. A finding must be a real contradiction of the property text as written (not a style issue, not an unrelated crash, not behaviour outside what the property quantifies over).

DELIVERABLES (in $out/): finding_<n>.py files (zero or more) and notes.md: for each finding - the exact input/history, what the property requires, what the code does instead, the code location (file:function) you believe is responsible and, if you see one, the smallest fix; then the list of hypotheses you tried that did NOT yield a violation (one line each). Your final reply should summarise the same in 10-20 lines.
P
