#!/bin/bash
# prints the prompt handed to a seeding sub-agent: usage seed_prompt.sh <Cxx> <tag> [extra hint]
id=$1$2; wt=/tmp/wt/$id; out=/tmp/seed/$id
cat <<P
You are helping test a verification effort by playing the role of a developer who makes a plausible but subtly wrong change to a Python project.

The project is Open-Pectus (a process-control engine that interprets the P-code DSL tick by tick, drives hardware registers, and reports to an aggregator over websockets). You have your OWN private git worktree of it at $wt — work ONLY there. Do NOT read, list or touch /verif, /repo, /root/.claude, /root/.vp or any other /tmp/wt/* or /tmp/seed/* directory; they are out of bounds (your work must be independent of them). Use /venv/bin/python (3.12) to run things, with PYTHONPATH=$wt and cwd $wt. There is no network.

Here is a semantic property of Open-Pectus that is supposed to hold (JSON, also saved at $out/property.json):

$(cat $out/property.json)

YOUR TASK: make ONE realistic change to the source under $wt/openpectus (non-test code; leave it as uncommitted working-tree modifications, do not commit) that BREAKS this property while the code still imports/compiles and the existing test suite still passes. It should look like something a developer could plausibly write (a refactor, an optimisation, a "simplification", a feature tweak, a bug fix gone slightly wrong) — not an obviously malicious or absurd edit, and not a mere comment/log change. Prefer a change that needs something specific to manifest (a particular interleaving, a crash or fault at a particular point, a multi-step sequence of operations, an unusual input, or two cooperating sites that each look fine alone) rather than one that ordinary use would expose at once. $3

Then write a DEMONSTRATION: $out/demo.py, a small standalone program (run as: cd $wt && PYTHONPATH=$wt /venv/bin/python $out/demo.py) that drives the REAL code (not a re-implementation) and exits 0 printing a one-line "OK: ..." when the property holds and exits 1 printing a one-line "PROPERTY VIOLATED: ..." when it does not. It must FAIL (exit 1) with your change and PASS (exit 0) without it (verify both: use 'git stash' / 'git stash pop' in $wt). Keep its last output line the OK / PROPERTY VIOLATED line. Look at openpectus/test/** for how the tests construct engines/aggregators (e.g. openpectus/test/engine/utility_methods.py has EngineTestRunner; test UODs are in openpectus/test/engine/test_engine.py) and reuse those helpers.

Check the existing tests still pass with your change: at minimum run the test modules related to the files you touched (cd $wt && PYTHONPATH=$wt /venv/bin/python -m pytest -q -p no:cacheprovider -x <modules>), and finally the whole suite once: cd $wt && PYTHONPATH=$wt /venv/bin/python -m pytest -q -p no:cacheprovider --timeout=900 --continue-on-collection-errors 2>&1 | tail -15   (takes 6-15 minutes; note: on the unchanged tree a handful of tests under openpectus/test/engine/integration_tests, and a labjack collection error, already fail — those do not count; run it in the unchanged tree too if unsure). Other test suites may be running on this machine at the same time: the OPC-UA tests (openpectus/test/engine/test_opcua_hardware.py) and a few timing tests can fail from port/CPU contention - re-run such a module alone before concluding anything from it. If a previously-passing test fails because of your change, pick a different change. To check your demo without your change use 'git apply -R <patch>' / 'git apply <patch>' (not 'git stash': its stack is shared between worktrees).

DELIVERABLES (all in $out/):
  - patch.diff : output of 'cd $wt && git diff' (source change only; keep demo.py outside the worktree in $out)
  - demo.py    : as above
  - notes.md   : 10-20 lines: what you changed and why it looks plausible; exactly how it breaks the property; what specific circumstances it needs in order to manifest; which tests you ran and their results.
Leave the change applied (uncommitted) in $wt when you finish. Your final reply should be a 5-10 line summary: files/functions changed, the trigger needed, demo result with/without the change, test results.
P
