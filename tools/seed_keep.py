#!/usr/bin/env python3
"""Development helper: keep a confirmed seeded change under /verif/seeded/<seed id>/."""
import json, os, shutil, sys
prop, tag, seed_id, needs, detected = sys.argv[1:6]
src = f"/tmp/seed/{prop}{tag}"
dst = f"/verif/seeded/{seed_id}"
os.makedirs(dst, exist_ok=True)
shutil.copy(f"{src}/patch.diff", f"{dst}/patch.diff")
demo = [f for f in os.listdir(src) if f in ("demo.py", "test_demo.py")][0]
shutil.copy(f"{src}/{demo}", f"{dst}/{demo}")
if os.path.exists(f"{src}/notes.md"):
    shutil.copy(f"{src}/notes.md", f"{dst}/notes.md")
suite = open(f"{src}/suite_mine.txt").read().strip() if os.path.exists(f"{src}/suite_mine.txt") else "not run"
def first(path):
    return open(path).read().strip().splitlines()[-1:] if os.path.exists(path) else []
meta = {
    "property": prop,
    "seed_id": seed_id,
    "origin": "independent sub-agent given only the property text and a private worktree",
    "needs_to_manifest": needs,
    "what_was_run": {
        "demo_with_change": "exit != 0 (fails) - " + " ".join(first(f"{src}/demo_with_change.log"))[:300],
        "demo_without_change": "exit 0 (passes) - " + " ".join(first(f"{src}/demo_without_change.log"))[:300],
        "baseline_suite_with_change": suite,
        "demo_command": f"cd <tree> && PYTHONPATH=<tree> /venv/bin/python {demo}" if demo == "demo.py" else f"cd <tree> && PYTHONPATH=<tree> /venv/bin/python -m pytest {demo}",
        "check_command": f"git -C /repo apply /verif/seeded/{seed_id}/patch.diff && /venv/bin/python -m opstatic.run {prop}; git -C /repo checkout -- .",
    },
    "detected_by": detected,
}
json.dump(meta, open(f"{dst}/meta.json", "w"), indent=1)
print("kept", dst)
