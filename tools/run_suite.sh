#!/bin/bash
# Development helper: run the repository's baseline suite (guard off - there are no hooks) and compare with BASELINE.json.
out=${1:-/tmp/suite}
cd /repo && /venv/bin/python -m pytest -ra -q -p no:cacheprovider --timeout=900 --continue-on-collection-errors --junitxml=$out.xml > $out.log 2>&1
/venv/bin/python - "$out.xml" <<'PY'
import json,sys,xml.etree.ElementTree as ET
base=set(json.load(open('/root/.vp/BASELINE.json'))['stable_pass'])
t=ET.parse(sys.argv[1])
ok=set()
for tc in t.iter('testcase'):
    name=f"{tc.get('classname')}::{tc.get('name')}"
    if not any(c.tag in ('failure','error','skipped') for c in tc):
        ok.add(name)
missing=sorted(base-ok)
print("baseline",len(base),"passed-now",len(ok),"baseline tests not passing:",len(missing))
for m in missing: print("  MISSING",m)
PY
