"""C21 - Unit-aware comparisons are exact, consistent and symmetric: dispatch table + symmetry by tables.

R21a operator dispatch: in units.compare_values every `case` literal of the `match op` maps to the
     same-named Python comparison of (quantity_a, quantity_b) in that order; '=' and '==' share one
     arm; the default arm raises; the operator set handled equals NodeWithCondition.operators (and the
     keys of the editor's operator descriptions cover it).
R21b symmetry of comparability: are_comparable(a, b) consults get_compatible_unit_names(a) only, so
     the unit -> compatible-units relation must be symmetric (or are_comparable must test both
     directions). The relation is read from the source: literal early returns of
     get_compatible_unit_names keyed by the unit, and otherwise "all units of the unit's quantity" from
     the literal QUANTITY_UNIT_MAP.
R21c both operands get the same normalisation on every path to the match (both converted with
     as_decimal / Quantity or both left as strings).
Decides operator wiring and the symmetry of the tables; exactness of Decimal/pint arithmetic is not decided.
R21d exact operands: no value that reaches the comparison passes through binary floating point - the assignments that
     build the operand locals (and the locals they derive from) contain no float(...) call and no call to a repository
     function annotated `-> float` (Decimal / pint Quantity over Decimal are exact; a float round trip makes values that
     differ beyond ~16 significant digits compare equal, or invert '<').
R21e one conversion for all operators: when the two operands carry *different* units the comparison is made on a pair that was
     converted to one common unit explicitly (`.to(<unit>)` / `.to_base_units()` on both, or magnitudes of such). Comparing two pint
     Quantity objects of different units directly lets every operator choose its own conversion (pint: `==` converts the right operand
     into the left unit, `!=` the other way round, the ordering operators both to root units), each rounded to 28 digits - physically
     equal quantities then satisfy neither `=` nor `!=`, or both `<` and `=` (library behaviour, stated as an assumption).
"""
from __future__ import annotations

import ast

from ..model import AnchorError, norm, walk_no_nested
from ..util import cfg_of, call_attr

EXPLANATION = __doc__
UNITS = "openpectus.lang.exec.units"
PYOP = {ast.Lt: "<", ast.LtE: "<=", ast.Gt: ">", ast.GtE: ">=", ast.Eq: "==", ast.NotEq: "!="}


def _run_main(ctx) -> None:
    prog = ctx.prog
    for r, d in [("R21a", "operator dispatch table"), ("R21b", "comparability relation is symmetric"), ("R21c", "operands normalised alike")]:
        ctx.rule(r, d)
    cv = prog.func(f"{UNITS}:compare_values")
    ctx.analysed(cv)
    matches = [n for n in walk_no_nested(cv.node) if isinstance(n, ast.Match) and norm(n.subject) == cv.node.args.args[0].arg]
    if len(matches) != 1:
        raise AnchorError("compare_values: `match op` not found")
    # the two operand locals, by role: assigned (somewhere) from an expression that mentions the first / second value
    # parameter (directly or through a local derived from it)
    pars = [a.arg for a in cv.node.args.args]
    if len(pars) != 5:
        raise AnchorError("compare_values: signature (op, value_a, unit_a, value_b, unit_b) changed")
    va, vb = pars[1], pars[3]
    in_match0 = {id(x) for x in ast.walk(matches[0])}

    def derived(seed):
        names = {seed}
        changed = True
        while changed:
            changed = False
            for n in walk_no_nested(cv.node):
                if isinstance(n, ast.Assign) and id(n) not in in_match0:   # the normalisation before the match, not the arms
                    tg, vals = n.targets[0], n.value
                    pairs = list(zip(tg.elts, vals.elts)) if isinstance(tg, ast.Tuple) and isinstance(vals, ast.Tuple) and \
                        len(tg.elts) == len(vals.elts) else [(tg, vals)]
                    for t, v in pairs:
                        if isinstance(t, ast.Name) and t.id not in names and any(isinstance(x, ast.Name) and x.id in names for x in ast.walk(v)):
                            names.add(t.id)
                            changed = True
        return names
    da, db = derived(va) - {va}, derived(vb) - {vb}
    cmp_names = [(norm(x.left), norm(x.comparators[0])) for x in ast.walk(matches[0]) if isinstance(x, ast.Compare) and len(x.ops) == 1
                 and isinstance(x.left, ast.Name) and isinstance(x.comparators[0], ast.Name)]
    QA = next((l for l, r in cmp_names if l in da and l not in db), None)
    QB = next((r for l, r in cmp_names if r in db and r not in da), None)
    if QA is None or QB is None:
        swapped = next(((l, r) for l, r in cmp_names if l in db and r in da and l not in da and r not in db), None)
        if swapped:
            QA, QB = swapped[1], swapped[0]    # arms compare (b, a): reported below arm by arm
        else:
            raise AnchorError("compare_values: operand locals of the match arms could not be tied to value_a / value_b")
    handled = {}
    default_raises = False
    for case in matches[0].cases:
        pats = []
        p = case.pattern
        if isinstance(p, ast.MatchValue) and isinstance(p.value, ast.Constant):
            pats = [p.value.value]
        elif isinstance(p, ast.MatchOr):
            pats = [q.value.value for q in p.patterns if isinstance(q, ast.MatchValue) and isinstance(q.value, ast.Constant)]
        elif isinstance(p, ast.MatchAs) and p.pattern is None:
            default_raises = any(isinstance(x, ast.Raise) for x in ast.walk(case))
            continue
        comps = [x for st in case.body for x in ast.walk(st) if isinstance(x, ast.Compare) and len(x.ops) == 1
                 and norm(x.left) == QA and norm(x.comparators[0]) == QB]
        for lit in pats:
            handled[lit] = PYOP.get(type(comps[-1].ops[0])) if comps else None
    want = {"<": "<", "<=": "<=", ">": ">", ">=": ">=", "=": "==", "==": "==", "!=": "!="}
    for lit in sorted(set(want) | set(handled)):
        inst = f"compare_values: case '{lit}' -> quantity_a {want.get(lit, '?')} quantity_b"
        if handled.get(lit) == want.get(lit) and lit in want:
            ctx.ok("R21a", inst)
        else:
            ctx.fail("R21a", cv, matches[0], inst, f"operator '{lit}' is wired to `{handled.get(lit)}` (operands quantity_a, quantity_b): "
                     "the comparison operators are no longer mutually consistent")
    if default_raises:
        ctx.ok("R21a", "compare_values: unknown operator raises")
    else:
        ctx.fail("R21a", cv, matches[0], "compare_values: unknown operator raises", "an unknown operator silently yields a result")
    nwc = prog.cls("openpectus.lang.model.ast:NodeWithCondition")
    ops = nwc.class_attrs.get("operators")
    if not isinstance(ops, ast.List):
        raise AnchorError("NodeWithCondition.operators list not found")
    parser_ops = [e.value for e in ops.elts]
    if set(parser_ops) <= set(handled):
        ctx.ok("R21a", f"every parser operator {parser_ops} is handled by compare_values")
    else:
        ctx.fail("R21a", cv, matches[0], "every parser operator is handled by compare_values", f"unhandled: {sorted(set(parser_ops) - set(handled))}")
    # ---- R21b
    gc = prog.func(f"{UNITS}:get_compatible_unit_names")
    ac = prog.func(f"{UNITS}:are_comparable")
    ctx.analysed(gc)
    ctx.analysed(ac)
    um = prog.module(UNITS)
    qmap = {}
    for st in um.tree.body:
        if isinstance(st, ast.Expr) and isinstance(st.value, ast.Call) and norm(st.value.func) == "QUANTITY_UNIT_MAP.update" \
                and st.value.args and isinstance(st.value.args[0], ast.Dict):
            for k, v in zip(st.value.args[0].keys, st.value.args[0].values):
                if isinstance(k, ast.Constant) and isinstance(v, ast.List):
                    qmap[k.value] = [e.value for e in v.elts if isinstance(e, ast.Constant)]
    if len(qmap) < 10:
        raise AnchorError("QUANTITY_UNIT_MAP literal not found")
    unit_q = {u: q for q, us in qmap.items() for u in us}
    g = cfg_of(gc)
    p0 = gc.node.args.args[0].arg
    literal = {}
    for n in g.nodes:
        if n.kind == "stmt" and isinstance(n.ast, ast.Return) and isinstance(n.ast.value, ast.List):
            vals = n.ast.value.elts
            for c, pol in g.conditions_at(n):
                if not pol:
                    continue
                if isinstance(c, ast.Compare) and norm(c.left) == p0 and isinstance(c.ops[0], ast.In) and isinstance(c.comparators[0], ast.List):
                    for e in c.comparators[0].elts:
                        literal[e.value] = [e.value] if (len(vals) == 1 and norm(vals[0]) == p0) else [x.value for x in vals if isinstance(x, ast.Constant)]
                elif isinstance(c, ast.Compare) and norm(c.left) == p0 and isinstance(c.ops[0], ast.Eq) and isinstance(c.comparators[0], ast.Constant):
                    literal[c.comparators[0].value] = [x.value for x in vals if isinstance(x, ast.Constant)]
    both_dirs = "get_compatible_unit_names(unit_b)" in norm(ac.node) and "get_compatible_unit_names(unit_a)" in norm(ac.node)

    def compat(u):
        if u in literal:
            return set(literal[u])
        return set(qmap.get(unit_q.get(u), []))
    n_pairs = 0
    for u in sorted(unit_q):
        for v in sorted(compat(u)):
            if v == u or v not in unit_q:
                continue
            n_pairs += 1
            if u in compat(v) or both_dirs:
                ctx.ok("R21b", f"comparable({u}, {v}) => comparable({v}, {u})", trivial=u not in literal and v not in literal)
            else:
                ctx.fail("R21b", gc, gc.node, f"get_compatible_unit_names: '{u}' lists '{v}' but '{v}' does not list '{u}'",
                         f"are_comparable('{u}', '{v}') is True but are_comparable('{v}', '{u}') is False: whether two units may be compared "
                         f"depends on their order")
    ctx.extra["unit_pairs_checked"] = n_pairs
    ctx.extra["literal_special_cases"] = literal
    if n_pairs < 20:
        raise AnchorError(f"only {n_pairs} comparable unit pairs derived (floor 20)")
    # ---- R21c
    assigns = [n for n in walk_no_nested(cv.node) if isinstance(n, ast.Assign) and isinstance(n.targets[0], ast.Tuple)
               and [norm(e) for e in n.targets[0].elts] == [QA, QB] and isinstance(n.value, ast.Tuple)]
    bad = None
    import copy as _copy

    class _Sides(ast.NodeTransformer):
        def visit_Name(self, nn):
            if nn.id in da | {va, pars[2]} or nn.id in db | {vb, pars[4]}:
                return ast.Name(id="X", ctx=nn.ctx)
            return nn
    for a in assigns:
        l, r = a.value.elts
        if isinstance(l, ast.Call) and isinstance(r, ast.Call) and norm(l.func) != norm(r.func):
            bad = a
        if isinstance(l, ast.Call) != isinstance(r, ast.Call):
            bad = a
        # the two elements are the same expression of their own side's names (an operand scaled, shifted or rounded on one
        # side only is compared in different units / precisions)
        if norm(_Sides().visit(_copy.deepcopy(l))) != norm(_Sides().visit(_copy.deepcopy(r))):
            bad = a
    in_match = {id(x) for x in ast.walk(matches[0])}
    pa = [n for n in walk_no_nested(cv.node) if isinstance(n, ast.Assign) and norm(n.targets[0]) in (QA, QB)
          and id(n) not in in_match]
    shapes = {}
    for n in pa:
        # shape of the defining expression with every a-side / b-side name replaced by one placeholder
        class _Ph(ast.NodeTransformer):
            def visit_Name(self, nn):
                if nn.id in da | {va, pars[2]} or nn.id in db | {vb, pars[4]}:
                    return ast.Name(id="X", ctx=nn.ctx)
                return nn
        import copy
        shapes.setdefault("a" if norm(n.targets[0]) == QA else "b", []).append(norm(_Ph().visit(copy.deepcopy(n.value))))
    if bad is None and shapes.get("a") == shapes.get("b"):
        ctx.ok("R21c", "compare_values: quantity_a and quantity_b are built by the same expressions")
    else:
        ctx.fail("R21c", cv, (bad or cv.node), "compare_values: quantity_a and quantity_b are built by the same expressions",
                 (f"`{norm(bad)}`: the two operands are not the same expression of their own value and unit (one side is scaled, "
                  "shifted or converted by hand): the comparison is no longer made between the two physical quantities in a common unit"
                  if bad is not None else f"operands are normalised differently: {shapes}"))

    # ---- R21d
    ctx.rule("R21d", "operands never pass through float")
    n_def = 0
    lossy = []
    for n in walk_no_nested(cv.node):
        if not isinstance(n, ast.Assign):
            continue
        tgts = []
        for t in n.targets:
            tgts += [e.id for e in (t.elts if isinstance(t, ast.Tuple) else [t]) if isinstance(e, ast.Name)]
        if not any(t in da | db | {QA, QB} for t in tgts):
            continue
        n_def += 1
        for c in ast.walk(n.value):
            if not isinstance(c, ast.Call):
                continue
            if isinstance(c.func, ast.Name) and c.func.id == "float":
                lossy.append((n, "float(...)"))
            else:
                for callee in ctx.res.resolve_call(c, cv, cha=False):
                    r = callee.node.returns
                    if r is not None and norm(r).split("|")[0].strip() == "float":
                        lossy.append((n, f"{callee.short}() -> float"))
    inst = "compare_values: operand values stay exact (Decimal / Quantity), no float conversion"
    if n_def < 4:
        raise AnchorError(f"compare_values: only {n_def} operand definitions found (floor 4)")
    if lossy:
        n0, what = lossy[0]
        ctx.fail("R21d", cv, n0, inst, f"`{norm(n0)[:90]}` routes an operand through {what}: binary floating point cannot represent "
                 "most decimal values, so values that differ beyond ~16 significant digits compare equal and '<' / '>' can invert "
                 "(e.g. 1 ms < 0.0010000000000000000001 s)")
    else:
        ctx.ok("R21d", inst, {"rule": "R21d", "operand_definitions": n_def})


def _r21e(ctx) -> None:
    from ..util import local_all_defs
    prog = ctx.prog
    ctx.rule("R21e", "operands of different units are converted to one common unit before any operator is applied")
    cv = prog.func(f"{UNITS}:compare_values")
    ctx.analysed(cv)
    # the operand locals of the match arms
    ops = set()
    for n in walk_no_nested(cv.node):
        if isinstance(n, ast.Compare) and len(n.ops) == 1 and isinstance(n.left, ast.Name) and isinstance(n.comparators[0], ast.Name) \
                and type(n.ops[0]) in PYOP:
            ops.add((n.left.id, n.comparators[0].id))
    if not ops:
        raise AnchorError("compare_values: operator arms not found")
    a, b = sorted(ops)[0]
    defs = local_all_defs(cv)

    def quantity_defs(nm):
        out = []
        for d in defs.get(nm, []):
            for x in ast.walk(d):
                if isinstance(x, ast.Call) and isinstance(x.func, ast.Attribute) and x.func.attr == "Quantity":
                    out.append(x)
        return out
    qa, qb = quantity_defs(a), quantity_defs(b)
    inst = "compare_values: Quantity operands of different units are brought to a common unit first"
    if not qa and not qb:
        ctx.ok("R21e", inst + " (no pint Quantity operands)", trivial=True)
        return
    converted = all(any(isinstance(x, ast.Call) and isinstance(x.func, ast.Attribute) and x.func.attr in ("to", "to_base_units", "to_root_units", "m_as", "ito")
                        for d in defs.get(nm, []) for x in ast.walk(d)) for nm in (a, b))
    ua = {norm(q.args[1]) for q in qa if len(q.args) > 1}
    ub = {norm(q.args[1]) for q in qb if len(q.args) > 1}
    if converted or (ua and ua == ub):
        ctx.ok("R21e", inst)
    else:
        ctx.fail("R21e", cv, (qa or qb)[0], inst, f"`{a}` is built in unit {sorted(ua)} and `{b}` in unit {sorted(ub)} and the six operators are applied to the "
                 "Quantity objects directly: each operator converts differently and rounds to 28 digits, so `3 h` vs `180 min` satisfies "
                 "neither `=` nor `!=`; `0 degC` vs `32 degF` satisfies both; `1 L/h` vs `24 L/d` gives `<` and `=` together; `24 L/d` vs "
                 "`1 L/h` has `=` but not `<=`")


def run(ctx) -> None:
    _run_main(ctx)
    _r21e(ctx)
