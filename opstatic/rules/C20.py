"""C20 - A method the analyzer accepts does not fail on names, args or units: two-sided table agreement.

The analysis side (lsp_analysis.build_commands/build_tags + analyzer.py) and the run-time side
(parser, PInterpreter, CommandManager, units.py) are implemented separately; each clause of the
property is reduced to an agreement between the two sides that is visible in the source:
R20a names. Every name published as a system command (the `examples` table iterated by
     InternalCommandsRegistry.get_command_definitions) is an instruction name the parser maps to a
     node class (`instruction_names` in lang/model/ast.py); UOD command names are published only from
     `command_factories` (or from `command_descriptions`, whose only writer is keyed by that map), the
     map `has_command_name`/`create_command` consult; the three `has()` membership tests compare the
     name unmodified.
R20b argument validators. For every published system command the language the analyzer accepts is
     included in the language the run-time accepts: engine commands - the same ArgSpec attribute,
     analyzer matching with RegexNamedArgumentParser.validate (re.search) against
     ArgSpec.validate_w_groups (re.match): L_search(r) <= L_match(r) decided per pattern on the regex
     automata (opstatic.regexlang; patterns obtained by constant evaluation of regex.py); interpreter
     commands - per branch of visit_InterpreterCommandNode the guard of every argument-dependent
     raise is classified (regex constant / int() / membership in a collection) and compared with the
     published ArgSpec; membership in a collection configured at run time can not agree with a static
     pattern. UOD commands - parse and validate apply the same re function to the same pattern,
     serialize/deserialize are inverse, both sides read node.arguments unmodified.
R20c units in conditions. ConditionCheckAnalyzer.analyze_condition is explored over the abstract
     cases (tag unit None/some) x (condition unit None/some) x (are_comparable True/False/raises); in
     every case in which the run-time check `are_comparable(tag unit, condition unit)` of
     units.compare_values fails, every path through the analyzer reaches an ERROR item; both sides
     pass the two units in the same order.
R20d tags. Every run-time tag lookup by a name taken from the method (conditions, Simulate,
     Simulate off) has an analyzer test `not self.tags.has(<same field>)` whose true edge always
     reports an ERROR; the published tag list (uod tags + system tags) is the collection the engine
     resolves names in, and no system tag is added after the merge.
R20e unit table. A unit listed under a quantity as `<prefix>%` is commensurable with `%` only if
     `<prefix>` is declared dimensionless (`ureg.define("<prefix> = 1")`, as the table does for wt and
     vol): otherwise are_comparable says True and the comparison raises (assumes pint's grammar:
     juxtaposition multiplies).
R20f number kinds. The unit registry is created with `non_int_type=decimal.Decimal`: a pint Quantity built from a binary float cannot
     be converted (`float * Decimal` raises TypeError). Every first argument of `ureg.Quantity(x, ..)` in non-test code is therefore
     a Decimal by construction - every definition of x is a call of decimal.Decimal / as_decimal, or x is a parameter that is
     re-bound to decimal.Decimal(..) under an `isinstance(x, float)` test that dominates the call - and not a parameter whose
     annotation admits float. Otherwise `Simulate: FT01 = 5 L/min` on a tag in L/h, which the analyzer accepts (compatible units),
     fails at run time in convert_value_to_unit.
Decides these agreements; pint's arithmetic, UOD-specific parse functions and macro errors are not decided.
"""
from __future__ import annotations

import ast
import re
import re._constants as RC
import re._parser as RP

from ..consteval import eval_expr, const_value
from ..model import AnchorError, norm, walk_no_nested, parent_map
from ..regexlang import difference
from ..util import cfg_of, call_attr, node_calls, local_single_defs, expand_local, enum_members, arg, norm_node

EXPLANATION = __doc__
REG = "openpectus.engine.internal_commands:InternalCommandsRegistry"
PI = "openpectus.lang.exec.pinterpreter:PInterpreter"
AN = "openpectus.lang.exec.analyzer"
UOD = "openpectus.lang.exec.uod"
INT_GRAMMAR = r"^\s*[+-]?[0-9]+(_[0-9]+)*\s*$"     # what int(str) accepts over the alphabet used here
NONE, VAL, UNK = "none", "val", "unk"


# ----------------------------------------------------------------------------------------------------
def _alphabet(*patterns: str) -> list[str]:
    chars = {"5", " ", "x", "#", ".", "-", "+", "_"}

    def walk(items):
        for op, av in items:
            if op is RC.LITERAL or op is RC.NOT_LITERAL:
                chars.add(chr(av))
            elif op is RC.IN:
                for x in av:
                    if x[0] is RC.LITERAL:
                        chars.add(chr(x[1]))
                    elif x[0] is RC.RANGE:
                        chars.add(chr(x[1][0]))
            elif op is RC.SUBPATTERN:
                walk(av[3])
            elif op is RC.BRANCH:
                for b in av[1]:
                    walk(b)
            elif op in (RC.MAX_REPEAT, RC.MIN_REPEAT):
                walk(av[2])
            elif op is RC.ASSERT_NOT or op is RC.ASSERT:
                walk(av[1])
    for p in patterns:
        walk(RP.parse(p))
    chars.discard("\n")
    return sorted(chars)


def _re_mode(f, what: str) -> str:
    """Which re function a validator method applies to its pattern (shapes: see opstatic/matchsite.py)."""
    from ..matchsite import match_site
    return match_site(f, what)["mode"]


def _show(word: str) -> str:
    return repr(word.replace("5", "5").replace("x", "x"))


class Spec:
    def __init__(self, kind: str, regex: str | None, src: str, expr: ast.AST | None = None, module=None):
        self.kind, self.regex, self.src, self.expr, self.module = kind, regex, src, expr, module   # kind: regex noargs nocheck none


def _argspec_of(prog, module, e: ast.AST) -> Spec:
    """ArgSpec.Regex(X) / ArgSpec.NoArgs() / ArgSpec.NoCheck() expression -> Spec."""
    if isinstance(e, ast.Call) and norm(e.func) in ("ArgSpec.NoArgs", "ArgSpec.NoCheck"):
        return Spec("noargs" if norm(e.func).endswith("NoArgs") else "nocheck", "^$" if norm(e.func).endswith("NoArgs") else "", norm(e))
    if isinstance(e, ast.Call) and norm(e.func) == "ArgSpec.Regex":
        a = e.args[0] if e.args else next((k.value for k in e.keywords if k.arg == "regex"), None)
        if a is None:
            raise AnchorError(f"ArgSpec.Regex without pattern: {norm(e)}")
        v = eval_expr(prog, module, a)
        if not isinstance(v, str):
            raise AnchorError(f"pattern of {norm(e)} does not evaluate to a string")
        return Spec("regex", v, norm(a), a, module)
    raise AnchorError(f"unrecognised argument specification `{norm(e)[:60]}`")


# ----------------------------------------------------------------------------------------------------
def _published(ctx):
    """(names in publication order, spec per name) read off InternalCommandsRegistry."""
    prog = ctx.prog
    reg = prog.cls(REG)
    gcd = reg.methods["get_command_definitions"]
    ctx.analysed(gcd)
    loops = [n for n in walk_no_nested(gcd.node) if isinstance(n, ast.For)]
    src = None
    for lp in loops:
        ent = prog.resolve_expr_entity(reg.module, lp.iter)
        if isinstance(ent, tuple) and ent[0] == "const":
            src = (ent[1], ent[2], lp)
    if src is None:
        raise AnchorError("get_command_definitions: the loop over the published example table was not found")
    mod, cname, lp = src
    table = mod.constants[cname]
    if not isinstance(table, ast.List):
        raise AnchorError(f"{mod.name}.{cname} is not a list literal")
    names = []
    for el in table.elts:
        nm = arg(el, 0, "name") if isinstance(el, ast.Call) else None
        if not (isinstance(nm, ast.Constant) and isinstance(nm.value, str)):
            raise AnchorError(f"{cname}: entry without a literal name: {norm(el)[:60]}")
        names.append(nm.value)
    # the definition's name is the example's name
    defs = local_single_defs(gcd)
    for c in walk_no_nested(lp):
        if isinstance(c, ast.Call) and call_attr(c) == "CommandDefinition":
            nv = arg(c, 0, "name")
            if nv is None or norm(expand_local(nv, defs)) != f"{norm(lp.target)}.name":
                raise AnchorError("get_command_definitions: CommandDefinition name is not the example's name")
    # spec table: literal dict in __init__, `others` loop, class specs
    init = reg.methods["__init__"]
    ctx.analysed(init)
    spec: dict[str, Spec] = {}
    ice = enum_members(prog.cls("openpectus.lang.exec.commands:InterpreterCommandEnum"))
    for n in walk_no_nested(init.node):
        tgt = val = None
        if isinstance(n, ast.AnnAssign):
            tgt, val = n.target, n.value
        elif isinstance(n, ast.Assign) and len(n.targets) == 1:
            tgt, val = n.targets[0], n.value
        if tgt is not None and norm(tgt) == "self._command_spec" and isinstance(val, ast.Dict):
            for k, v in zip(val.keys, val.values):
                if isinstance(k, ast.Constant):
                    key = k.value
                elif norm(k).startswith("InterpreterCommandEnum."):
                    key = ice.get(norm(k).split(".")[1])
                else:
                    raise AnchorError(f"_command_spec key {norm(k)} not understood")
                spec[key] = _argspec_of(prog, reg.module, v)
        if isinstance(n, ast.For) and isinstance(n.iter, ast.Name):
            lst = local_single_defs(init).get(n.iter.id)
            for st in n.body:
                if isinstance(st, ast.Assign) and isinstance(st.targets[0], ast.Subscript) \
                        and norm(st.targets[0].value) == "self._command_spec" and isinstance(lst, ast.List):
                    for el in lst.elts:
                        if isinstance(el, ast.Constant):
                            spec[el.value] = _argspec_of(prog, reg.module, st.value)
    if len(spec) < 10:
        raise AnchorError(f"_command_spec: only {len(spec)} entries recovered (floor 10)")
    return names, spec


def _engine_class_specs(ctx) -> dict[str, Spec]:
    prog = ctx.prog
    impl = prog.module("openpectus.engine.internal_commands_impl")
    ece = enum_members(prog.cls("openpectus.engine.models:EngineCommandEnum"))
    base = prog.cls("openpectus.engine.internal_commands:InternalEngineCommand")
    dflt = base.class_attrs.get("argument_validation_spec")
    if dflt is None:
        raise AnchorError("InternalEngineCommand.argument_validation_spec default not found")
    out = {}
    for val in ece.values():
        c = impl.classes.get(f"{val}EngineCommand")
        if c is None:
            continue
        s = None
        for d in c.node.decorator_list:
            if isinstance(d, ast.Call) and call_attr(d) == "command_argument_regex":
                a = d.args[0] if d.args else next((k.value for k in d.keywords if k.arg == "regex"), None)
                v = eval_expr(prog, impl, a)
                s = Spec("regex", v, norm(a), a, impl)
            elif isinstance(d, ast.Call) and call_attr(d) == "command_argument_none":
                s = Spec("noargs", "^$", "command_argument_none()")
            elif isinstance(d, ast.Call) and call_attr(d) == "command_argument":
                s = _argspec_of(prog, impl, d.args[0])
        if s is None:
            s = _argspec_of(prog, base.module, dflt)
        if "validate_arguments" in c.methods:
            s = Spec("custom", None, f"{c.name}.validate_arguments override")
        out[str(val)] = s
    return out


# ----------------------------------------------------------------------------------------------------
class Abs:
    """Abstract evaluation of the unit tests of analyze_condition / are_comparable."""

    def __init__(self, role_of):
        self.role_of = role_of

    def ev(self, e: ast.AST, env: dict):
        if isinstance(e, ast.Constant):
            if e.value is None:
                return NONE
            if isinstance(e.value, bool):
                return e.value
            return VAL
        r = self.role_of(e)
        if r is not None:
            return env.get(r, UNK)
        if isinstance(e, ast.UnaryOp) and isinstance(e.op, ast.Not):
            v = self.truth(self.ev(e.operand, env))
            return UNK if v is UNK else (not v)
        if isinstance(e, ast.BoolOp):
            vals = [self.truth(self.ev(v, env)) for v in e.values]
            if isinstance(e.op, ast.And):
                if any(v is False for v in vals):
                    return False
                return True if all(v is True for v in vals) else UNK
            if any(v is True for v in vals):
                return True
            return False if all(v is False for v in vals) else UNK
        if isinstance(e, ast.Compare) and len(e.ops) == 1:
            l, r2 = self.ev(e.left, env), self.ev(e.comparators[0], env)
            op = e.ops[0]
            if isinstance(op, (ast.Is, ast.IsNot)) and r2 == NONE and l in (NONE, VAL):
                res = l == NONE
                return res if isinstance(op, ast.Is) else (not res)
            if isinstance(op, (ast.Eq, ast.NotEq)) and l in (NONE, VAL) and r2 in (NONE, VAL):
                if l == NONE and r2 == NONE:
                    res = True
                elif l != r2:
                    res = False
                else:
                    return UNK
                return res if isinstance(op, ast.Eq) else (not res)
        return UNK

    @staticmethod
    def truth(v):
        if v is True or v is False:
            return v
        if v == NONE:
            return False
        return UNK


def _explore(g, absx: Abs, env0: dict, on_stmt):
    """All paths of g under the abstract environment; returns [(exit kind, env, flags, trail)]."""
    out = []
    seen = set()
    stack = [(g.entry.id, tuple(sorted(env0.items())), frozenset(), ())]
    while stack:
        nid, envt, flags, trail = stack.pop()
        key = (nid, envt, flags)
        if key in seen:
            continue
        seen.add(key)
        n = g.nodes[nid]
        env = dict(envt)
        if n.kind == "exit":
            out.append(("return", env, flags, trail))
            continue
        if n.kind == "raise":
            out.append(("raise", env, flags, trail))
            continue
        follow = None
        if n.kind == "test":
            v = absx.truth(absx.ev(n.ast, env))
            follow = {"T"} if v is True else {"F"} if v is False else {"T", "F"}
            trail2 = trail + (f"{norm(n.ast)[:70]} -> {'T' if v is True else 'F' if v is False else '?'}",)
        else:
            trail2 = trail
        mode = "normal"
        if n.kind == "stmt":
            r = on_stmt(n, env, flags)
            if r is not None:
                env, flags, mode = r
        for d, l in g.succ[nid]:
            if mode == "exc":
                if l != "exc":
                    continue
            elif l == "exc":
                continue
            if follow is not None and l in ("T", "F") and l not in follow:
                continue
            stack.append((d, tuple(sorted(env.items())), flags, trail2))
        if mode == "exc" and not any(l == "exc" for _, l in g.succ[nid]):
            out.append(("raise", env, flags, trail2))
    return out


def _is_error_item(n) -> bool:
    for c in n.calls():
        if call_attr(c) == "add_item":
            for x in ast.walk(c):
                if isinstance(x, ast.Attribute) and x.attr == "ERROR" and norm(x.value).endswith("AnalyzerItemType"):
                    return True
    return False


# ----------------------------------------------------------------------------------------------------
def _run_main(ctx) -> None:
    prog = ctx.prog
    for r, d in [("R20a", "published names are executable names; membership tests are exact"),
                 ("R20b", "analyzer-side validator language <= run-time validator language"),
                 ("R20c", "units: every run-time incomparable case is an analyzer ERROR on all paths"),
                 ("R20d", "tags: every run-time lookup of a method-supplied tag name is checked by the analyzer; tag sets agree"),
                 ("R20e", "compound percentage units are commensurable with %")]:
        ctx.rule(r, d)
    astm = prog.module("openpectus.lang.model.ast")
    node_cls = astm.classes["Node"]
    inst: dict[str, str] = {}
    for c in astm.classes.values():
        v = c.class_attrs.get("instruction_names")
        if c.is_subclass_of(node_cls) and isinstance(v, ast.List):
            for e in v.elts:
                if isinstance(e, ast.Constant) and e.value:
                    inst[e.value] = c.name
    if len(inst) < 20:
        raise AnchorError(f"only {len(inst)} instruction names recovered from ast.py (floor 20)")
    names, spec = _published(ctx)
    cls_spec = _engine_class_specs(ctx)
    reg = prog.cls(REG)
    gcd = reg.methods["get_command_definitions"]
    # ---- R20a: system names
    for nm in names:
        k = f"published system command '{nm}' is a parser instruction name"
        if nm in inst:
            ctx.ok("R20a", k, {"rule": "R20a", "name": nm, "node_class": inst[nm]})
        else:
            ctx.fail("R20a", gcd, gcd.node, k, f"'{nm}' is published to the analyzer as a valid command but the parser has no node "
                     f"class with that instruction name: the analyzer accepts the line and the interpreter fails it as an invalid "
                     f"instruction / unknown uod command")
    ctx.floor("R20a", 20)
    # uod names
    uodc = prog.cls(f"{UOD}:UnitOperationDefinitionBase")
    cld = uodc.methods["create_lsp_definition"]
    ctx.analysed(cld)
    for lp in [n for n in walk_no_nested(cld.node) if isinstance(n, ast.For)]:
        makes_cmd = any(isinstance(c, ast.Call) and call_attr(c) == "CommandDefinition" for c in ast.walk(lp))
        if not makes_cmd:
            continue
        it = norm(lp.iter)
        k = f"create_lsp_definition: commands published from {it}"
        if it == "self.command_factories.items()":
            ctx.ok("R20a", k)
        elif it == "self.command_descriptions.items()":
            # every writer of command_descriptions is keyed by an iteration over command_factories
            bad = []
            nw = 0
            for f in prog.iter_functions():
                if f.module.name != UOD:
                    continue
                pm = None
                for n in walk_no_nested(f.node):
                    if isinstance(n, ast.Assign) and isinstance(n.targets[0], ast.Subscript) \
                            and norm(n.targets[0].value).endswith(".command_descriptions"):
                        nw += 1
                        pm = pm or parent_map(f.node)
                        cur = pm.get(id(n))
                        okw = False
                        while cur is not None:
                            if isinstance(cur, ast.For) and norm(cur.iter).endswith(".command_factories.items()") \
                                    and isinstance(cur.target, ast.Tuple) and norm(cur.target.elts[0]) == norm(n.targets[0].slice):
                                okw = True
                            cur = pm.get(id(cur))
                        if not okw:
                            bad.append((f, n))
            if nw == 0:
                raise AnchorError("no writer of command_descriptions found")
            if not bad:
                ctx.ok("R20a", k + f" ({nw} writer(s), keyed by command_factories)")
            for f, n in bad:
                ctx.fail("R20a", f, n, f"{f.short}: {norm(n)[:70]}", "command_descriptions entry written under a key that is not a "
                         "command_factories key: the name is published but has_command_name/create_command refuse it")
        else:
            ctx.fail("R20a", cld, lp, k, f"uod commands are published from {it}, not from the factory map the engine executes from")
    for mname in ("has_command_name", "create_command", "get_command_names"):
        m = uodc.methods[mname]
        ctx.analysed(m)
        k = f"UnitOperationDefinitionBase.{mname} consults command_factories"
        if "self.command_factories" in norm(m.node):
            ctx.ok("R20a", k)
        else:
            ctx.fail("R20a", m, m.node, k, "the run-time command lookup no longer uses the map the published names come from")
    for q in ("openpectus.lang.exec.commands:CommandCollection", "openpectus.lang.exec.tags:TagValueCollection",
              "openpectus.lang.exec.tags:TagCollection"):
        c = prog.cls(q)
        m = c.methods["has"]
        ctx.analysed(m)
        p0 = m.params()[1].arg if len(m.params()) > 1 else None
        rets = [n for n in walk_no_nested(m.node) if isinstance(n, ast.Return) and n.value is not None]
        k = f"{c.name}.has tests the name unmodified"
        good = p0 is not None and rets and all(
            isinstance(r.value, ast.Compare) and isinstance(r.value.ops[0], ast.In) and norm(r.value.left) == p0 for r in rets)
        if good:
            ctx.ok("R20a", k)
        else:
            ctx.fail("R20a", m, m.node, k, "membership is tested on a transformed name; the analyzer and the run-time can disagree on "
                     "whether a name is defined")
    # ---- R20b
    argspec = prog.cls("openpectus.lang.exec.argument_specification:ArgSpec")
    rnap = prog.cls(f"{UOD}:RegexNamedArgumentParser")
    rt_mode = _re_mode(argspec.methods["validate_w_groups"], "ArgSpec.validate_w_groups")
    an_mode = _re_mode(rnap.methods["validate"], "RegexNamedArgumentParser.validate")
    parse_mode = _re_mode(rnap.methods["parse"], "RegexNamedArgumentParser.parse")
    for m in (argspec.methods["validate_w_groups"], rnap.methods["validate"], rnap.methods["parse"]):
        ctx.analysed(m)
    ctx.extra["matching"] = {"analyzer": f"re.{an_mode}", "engine ArgSpec": f"re.{rt_mode}", "uod parse": f"re.{parse_mode}"}

    def included(r1: str, m1: str, r2: str, m2: str):
        return difference(r1, r2, _alphabet(r1, r2), mode1=m1, mode2=m2, only="1-2")

    ece = {str(v) for v in enum_members(prog.cls("openpectus.engine.models:EngineCommandEnum")).values()}
    n_b = 0
    for nm in names:
        cls = inst.get(nm)
        if cls != "EngineCommandNode":
            continue
        s = cls_spec.get(nm)
        k = f"engine command '{nm}': analyzer language <= run-time language"
        n_b += 1
        if s is None:
            ctx.fail("R20b", gcd, gcd.node, k, f"'{nm}' is published but there is no {nm}EngineCommand class: create_internal_command raises")
            continue
        if s.kind == "custom":
            raise AnchorError(f"{s.src}: custom run-time validation is not comparable with the published pattern")
        if s.kind == "nocheck":
            ctx.ok("R20b", k + " (no check on either side)")
            continue
        w = included(s.regex, an_mode, s.regex, rt_mode)
        if w is None:
            ctx.ok("R20b", k, {"rule": "R20b", "command": nm, "pattern": s.regex, "analyzer": an_mode, "runtime": rt_mode})
        else:
            ctx.fail("R20b", gcd, gcd.node, k, f"pattern {s.regex!r} ({s.src}): the analyzer (re.{an_mode}) accepts {_show(w[0])} but "
                     f"the engine (re.{rt_mode}) rejects it")
    # the registry publishes the class attribute the command validates with
    rc = reg.methods["_register_commands"]
    ctx.analysed(rc)
    k = "_register_commands publishes cls.argument_validation_spec"
    if any(isinstance(n, ast.Assign) and isinstance(n.targets[0], ast.Subscript) and norm(n.targets[0].value) == "self._command_spec"
           and norm(n.value) == "cls.argument_validation_spec" for n in ast.walk(rc.node)):
        ctx.ok("R20b", k)
    else:
        ctx.fail("R20b", rc, rc.node, k, "the published specification of an engine command is no longer the class's own "
                 "argument_validation_spec")
    va = prog.func("openpectus.engine.internal_commands:InternalEngineCommand.validate_arguments")
    ctx.analysed(va)
    k = "InternalEngineCommand.validate_arguments validates with self.argument_validation_spec"
    if any(isinstance(c, ast.Call) and norm(c.func) == "self.argument_validation_spec.validate_w_groups" for c in ast.walk(va.node)):
        ctx.ok("R20b", k)
    else:
        ctx.fail("R20b", va, va.node, k, "run-time validation does not use the published specification")
    # interpreter commands
    pi = prog.cls(PI)
    vic = pi.methods["visit_InterpreterCommandNode"]
    ctx.analysed(vic)
    ice = enum_members(prog.cls("openpectus.lang.exec.commands:InterpreterCommandEnum"))
    pm = parent_map(vic.node)
    defs = local_single_defs(vic)
    branches: dict[str, ast.If] = {}
    bodies: dict[str, list] = {}
    for n in walk_no_nested(vic.node):
        if not isinstance(n, ast.If):
            continue
        # `if name == X: A else: B` or, phrased the other way round, `if not name == X: B else: A` / `if name != X: B else: A`
        t_, neg = n.test, False
        while isinstance(t_, ast.UnaryOp) and isinstance(t_.op, ast.Not):
            t_, neg = t_.operand, not neg
        if isinstance(t_, ast.Compare) and len(t_.ops) == 1 and isinstance(t_.ops[0], (ast.Eq, ast.NotEq)) \
                and norm_node(t_.left, vic) == "node.instruction_name":
            if isinstance(t_.ops[0], ast.NotEq):
                neg = not neg
            r = norm(t_.comparators[0])
            val = ice.get(r.split(".")[1]) if r.startswith("InterpreterCommandEnum.") else \
                (t_.comparators[0].value if isinstance(t_.comparators[0], ast.Constant) else None)
            if val is not None:
                branches[str(val)] = n
                bodies[str(val)] = n.orelse if neg else n.body
    if len(branches) < 4:
        raise AnchorError(f"visit_InterpreterCommandNode: only {len(branches)} command branches found (floor 4)")
    for nm, br in sorted(branches.items()):
        if nm not in names:
            continue
        pub = spec.get(nm)
        k0 = f"interpreter command '{nm}'"
        if pub is None:
            pub = Spec("none", "", "no specification (validator None)")
        raises = []
        for st in bodies[nm]:
            for x in ast.walk(st):
                if isinstance(x, ast.Raise):
                    raises.append(x)
        if not raises:
            n_b += 1
            ctx.ok("R20b", f"{k0}: run-time never rejects the argument")
            continue
        for rz in raises:
            n_b += 1
            # classify by the innermost enclosing construct inside the branch
            cur = pm.get(id(rz))
            guard = None
            while cur is not None and cur is not br:
                if isinstance(cur, ast.ExceptHandler):
                    guard = ("except", cur, pm.get(id(cur)))
                    break
                if isinstance(cur, ast.If):
                    guard = ("if", cur, None)
                    break
                cur = pm.get(id(cur))
            k = f"{k0}: {norm_node(rz, vic)[:60]}"
            an_regex = pub.regex if pub.kind in ("regex", "noargs") else ""
            if guard is None:
                raise AnchorError(f"{k}: unconditional raise in a command branch")
            if guard[0] == "except":
                h, tr = guard[1], guard[2]
                body_txt = " ".join(norm_node(s, vic) for s in tr.body)
                if "int(node.arguments)" in body_txt and norm(h.type) == "ValueError":
                    w = included(an_regex, an_mode, INT_GRAMMAR, "full") if pub.kind == "regex" else ("", True, False)
                    if w is None:
                        ctx.ok("R20b", k + f" [int(); published {pub.src}]", {"rule": "R20b", "command": nm, "published": an_regex,
                                                                               "runtime": "int()"})
                    else:
                        ctx.fail("R20b", vic, rz, k, f"the published pattern {an_regex!r} accepts {_show(w[0])}, which int() rejects")
                else:
                    raise AnchorError(f"{k}: unrecognised try/except validation shape")
                continue
            test = guard[1].test
            ttxt = norm(test)
            # (1) regex validate_w_groups(...) is None
            m1 = re.fullmatch(r"(\w+) is None", ttxt)
            handled = False
            if m1 and m1.group(1) in defs:
                d = defs[m1.group(1)]
                if isinstance(d, ast.Call) and call_attr(d) in ("validate_w_groups", "validate") and isinstance(d.func, ast.Attribute):
                    sp = expand_local(d.func.value, defs)
                    a0 = arg(d, 0, "argument")
                    if a0 is None or norm_node(a0, vic) != "node.arguments":
                        raise AnchorError(f"{k}: validation of something else than node.arguments")
                    rs = _argspec_of(prog, pi.module, sp)
                    if rs.kind != "regex":
                        raise AnchorError(f"{k}: run-time spec is not a pattern")
                    if pub.kind == "nocheck" or pub.kind == "none":
                        ctx.fail("R20b", vic, rz, k, f"the analyzer performs no argument check for '{nm}' but the run-time requires {rs.src}")
                    else:
                        w = included(an_regex, an_mode, rs.regex, rt_mode)
                        if w is None:
                            ctx.ok("R20b", k + f" [{rs.src}; published {pub.src}]",
                                   {"rule": "R20b", "command": nm, "published": an_regex, "runtime": rs.regex})
                        else:
                            ctx.fail("R20b", vic, rz, k, f"the published pattern {pub.src} accepts {_show(w[0])}, which the run-time "
                                     f"pattern {rs.src} rejects")
                    handled = True
            # (2) membership in a collection
            if not handled:
                mem = [x for x in ast.walk(test) if isinstance(x, ast.Compare) and isinstance(x.ops[0], ast.NotIn)
                       and norm_node(x.left, vic) == "node.arguments"]
                if mem:
                    coll = expand_local(mem[0].comparators[0], defs)
                    ent = prog.resolve_expr_entity(pi.module, coll) if isinstance(coll, (ast.Name, ast.Attribute)) else None
                    if isinstance(ent, tuple) and ent[0] == "const":
                        members = const_value(prog, ent[1], ent[2])
                        if not (isinstance(members, list) and all(isinstance(x, str) for x in members)):
                            raise AnchorError(f"{k}: membership collection is not a constant list of strings")
                        rt = r"^\s*(" + "|".join(re.escape(x) for x in members) + r")\s*$"
                        w = included(an_regex, an_mode, rt, "full") if pub.kind == "regex" else ("", True, False)
                        if w is None:
                            ctx.ok("R20b", k + f" [member of {norm(coll)}; published {pub.src}]")
                        else:
                            ctx.fail("R20b", vic, rz, k, f"the published pattern {pub.src} accepts {_show(w[0])}, not a member of {norm(coll)}")
                    else:
                        static_src = ""
                        if pub.expr is not None:
                            e2 = prog.resolve_expr_entity(pub.module, pub.expr)
                            if isinstance(e2, tuple) and e2[0] == "const":
                                static_src = f" (= {norm(e2[1].constants[e2[2]])[:70]})"
                        ctx.fail("R20b", vic, rz, k, f"the run-time accepts exactly the members of `{norm(coll)}`, a collection configured "
                                 f"per unit operation at run time, while the analyzer validates against the static pattern {pub.src}"
                                 f"{static_src}: a value in the static list that the uod does not register passes analysis and fails "
                                 f"the run")
                    handled = True
            if not handled:
                raise AnchorError(f"{k}: unrecognised argument guard `{ttxt[:70]}`")
    if n_b < 10:
        raise AnchorError(f"R20b: only {n_b} validator instances (floor 10)")
    # uod regex commands
    k = "uod regex commands: parse and validate apply the same re function to self.regex"
    if parse_mode == an_mode:
        ctx.ok("R20b", k)
    else:
        ctx.fail("R20b", rnap.methods["validate"], rnap.methods["validate"].node, k,
                 f"the analyzer validates with re.{an_mode} while the engine parses with re.{parse_mode}")
    ser, des = rnap.methods["serialize"], rnap.methods["deserialize"]
    ctx.analysed(ser)
    ctx.analysed(des)
    sret = [n for n in walk_no_nested(ser.node) if isinstance(n, ast.Return)]
    prefix = None
    if len(sret) == 1 and isinstance(sret[0].value, ast.JoinedStr) and len(sret[0].value.values) == 2 \
            and isinstance(sret[0].value.values[0], ast.Constant) and isinstance(sret[0].value.values[1], ast.FormattedValue) \
            and norm(sret[0].value.values[1].value) == "self.regex":
        prefix = sret[0].value.values[0].value
    if prefix is None:
        raise AnchorError("RegexNamedArgumentParser.serialize: shape not understood")
    dtxt = norm(des.node)
    k = f"deserialize inverts serialize (prefix {prefix!r})"
    if f"serialized.startswith('{prefix}')" in dtxt.replace('"', "'") and f"serialized[{len(prefix)}:]" in dtxt:
        ctx.ok("R20b", k)
    else:
        ctx.fail("R20b", des, des.node, k, "the analyzer does not reconstruct the pattern the engine serialised")
    bc = prog.func("openpectus.lsp.lsp_analysis:build_commands")
    ctx.analysed(bc)
    k = "build_commands: validator = deserialized parser's validate on every published command"
    bpar = bc.node.args.args[0].arg
    ok_bc = False
    bloops = [lp for lp in walk_no_nested(bc.node) if isinstance(lp, ast.For) and norm(lp.iter) == f"{bpar}.commands + {bpar}.system_commands"
              and isinstance(lp.target, ast.Name)]
    if bloops:
        lv = bloops[0].target.id
        # P = RegexNamedArgumentParser.deserialize(<lv>.validator, ..) [if <lv>.validator is not None else None]
        pvars = [n.targets[0].id for n in ast.walk(bloops[0]) if isinstance(n, ast.Assign) and len(n.targets) == 1
                 and isinstance(n.targets[0], ast.Name) and any(
                     isinstance(c, ast.Call) and call_attr(c) == "deserialize" and c.args and norm(c.args[0]) == f"{lv}.validator"
                     for c in ast.walk(n.value))]
        # a local factory whose nested function returns <factory param>.validate(<own param>)
        factories = {}
        for fd in ast.walk(bloops[0]):
            if isinstance(fd, ast.FunctionDef):
                fpars = [a_.arg for a_ in fd.args.args]
                for inner in ast.walk(fd):
                    if isinstance(inner, ast.FunctionDef) and inner is not fd and inner.args.args:
                        ip = inner.args.args[0].arg
                        for r_ in ast.walk(inner):
                            if isinstance(r_, ast.Return) and isinstance(r_.value, ast.Call) and call_attr(r_.value) == "validate" \
                                    and isinstance(r_.value.func.value, ast.Name) and r_.value.func.value.id in fpars \
                                    and [norm(x) for x in r_.value.args] == [ip]:
                                factories[fd.name] = fpars.index(r_.value.func.value.id)
        for c in ast.walk(bloops[0]):
            if isinstance(c, ast.Call) and call_attr(c) == "Command":
                vf = next((kw.value for kw in c.keywords if kw.arg == "validatorFn"), None)
                if isinstance(vf, ast.Call) and isinstance(vf.func, ast.Name) and vf.func.id in factories and pvars:
                    idx = factories[vf.func.id]
                    if idx < len(vf.args) and norm(vf.args[idx]) in pvars:
                        ok_bc = True
    if ok_bc:
        ctx.ok("R20b", k)
    else:
        ctx.fail("R20b", bc, bc.node, k, "build_commands no longer validates with the deserialized pattern for all published commands")
    k = "create_lsp_definition publishes the parser bound to the builder's arg_parse_fn"
    ok_cld = False
    for lp in walk_no_nested(cld.node):
        if isinstance(lp, ast.For) and norm(lp.iter) == "self.command_factories.items()" and isinstance(lp.target, ast.Tuple) \
                and len(lp.target.elts) == 2:
            nv, bv = norm(lp.target.elts[0]), norm(lp.target.elts[1])
            pv = [n.targets[0].id for n in ast.walk(lp) if isinstance(n, ast.Assign) and len(n.targets) == 1 and isinstance(n.targets[0], ast.Name)
                  and isinstance(n.value, ast.Call) and call_attr(n.value) == "get_instance" and [norm(x) for x in n.value.args] == [f"{bv}.arg_parse_fn"]]
            for c in ast.walk(lp):
                if isinstance(c, ast.Call) and call_attr(c) == "CommandDefinition":
                    kws = {kw.arg: norm(kw.value) for kw in c.keywords}
                    if pv and kws.get("validator") == f"{pv[0]}.serialize()" and kws.get("name") == nv:
                        ok_cld = True
    if ok_cld:
        ctx.ok("R20b", k)
    else:
        ctx.fail("R20b", cld, cld.node, k, "the published validator is not the pattern the command parses its argument with")
    # same string on both sides
    for vn in ("visit_EngineCommandNode", "visit_UodCommandNode"):
        v = pi.methods[vn]
        ctx.analysed(v)
        calls = [c for c in ast.walk(v.node) if isinstance(c, ast.Call) and call_attr(c) == "schedule_execution"]
        k = f"{vn}: schedule_execution(arguments=node.arguments)"
        if calls and all(arg(c, 1, "arguments") is not None and norm_node(arg(c, 1, "arguments"), v) == "node.arguments" for c in calls):
            ctx.ok("R20b", k)
        else:
            ctx.fail("R20b", v, v.node, k, "the run-time passes a different argument string than the one the analyzer validated")
    ccn = prog.func(f"{AN}:CommandCheckAnalyzer.check_command_node")
    ctx.analysed(ccn)
    k = "check_command_node validates node.arguments"
    if any(isinstance(c, ast.Call) and call_attr(c) == "validate_args" and c.args and norm_node(c.args[0], ccn) == "node.arguments"
           for c in ast.walk(ccn.node)):
        ctx.ok("R20b", k)
    else:
        ctx.fail("R20b", ccn, ccn.node, k, "the analyzer validates a different string than node.arguments")
    cm = prog.module("openpectus.engine.command_manager")
    flows = 0
    for f in prog.iter_functions():
        if f.module is not cm:
            continue
        d2 = local_single_defs(f)
        for c in walk_no_nested(f.node):
            if isinstance(c, ast.Call) and call_attr(c) in ("validate_arguments", "parse_args") and c.args:
                flows += 1
                src = norm(expand_local(c.args[0], d2))
                k = f"{f.short}: {call_attr(c)}({src})"
                if src.endswith(".arguments"):
                    ctx.ok("R20b", k)
                    ctx.analysed(f)
                else:
                    ctx.fail("R20b", f, c, k, "the command manager validates a transformed argument string")
    if flows < 2:
        raise AnchorError("command_manager: validate_arguments / parse_args call sites not found")

    # ---- R20c
    units = prog.module("openpectus.lang.exec.units")
    arec = units.functions["are_comparable"]
    cv = units.functions["compare_values"]
    ec = pi.methods["_evaluate_condition"]
    ac = prog.func(f"{AN}:ConditionCheckAnalyzer.analyze_condition")
    for f in (arec, cv, ec, ac):
        ctx.analysed(f)
    # run-time: compare_values raises when not are_comparable(unit_a, unit_b)
    gcv = cfg_of(cv)
    tests = [n for n in gcv.nodes if n.kind == "test" and re.fullmatch(r"are_comparable\((\w+), (\w+)\)", norm(n.ast))]
    if not tests:
        raise AnchorError("compare_values: guard `not are_comparable(a, b)` not found")
    mm = re.fullmatch(r"are_comparable\((\w+), (\w+)\)", norm(tests[0].ast))
    cv_params = [p.arg for p in cv.params()]
    rt_a, rt_b = mm.group(1), mm.group(2)
    t_succ = [d for d, l in gcv.succ[tests[0].id] if l == "F"]     # not comparable
    if not t_succ or not isinstance(gcv.nodes[t_succ[0]].ast, ast.Raise):
        raise AnchorError("compare_values: the incomparable branch does not raise")
    # run-time: which expressions reach unit_a / unit_b
    edefs = dict(local_single_defs(ec))
    for n in walk_no_nested(ec.node):   # tuple assignments a, b = x, y
        if isinstance(n, ast.Assign) and len(n.targets) == 1 and isinstance(n.targets[0], ast.Tuple) and isinstance(n.value, ast.Tuple) \
                and len(n.targets[0].elts) == len(n.value.elts):
            for t, v in zip(n.targets[0].elts, n.value.elts):
                if isinstance(t, ast.Name):
                    edefs[t.id] = v
    ccall = [c for c in ast.walk(ec.node) if isinstance(c, ast.Call) and call_attr(c) == "compare_values"]
    if len(ccall) != 1:
        raise AnchorError("_evaluate_condition: compare_values call not found")

    def cv_arg(pname: str) -> ast.AST:
        i = cv_params.index(pname)
        a = arg(ccall[0], i, pname)
        if a is None:
            raise AnchorError(f"_evaluate_condition: argument {pname} of compare_values not found")
        return a

    def role(e: ast.AST, d: dict) -> str | None:
        e = expand_local(e, d)
        if isinstance(e, ast.Attribute) and e.attr == "unit":
            b = expand_local(e.value, d)
            if isinstance(b, ast.Call) and call_attr(b) == "get" and norm(b.func.value).endswith("tags"):
                return "TAG"
        if isinstance(e, ast.Attribute) and e.attr == "tag_unit":
            b = expand_local(e.value, d)
            if norm_node(b, ec) == "node.tag_operator_value":
                return "COND"
        return None

    rt_roles = (role(cv_arg(rt_a), edefs), role(cv_arg(rt_b), edefs))
    if set(rt_roles) != {"TAG", "COND"}:
        raise AnchorError(f"_evaluate_condition: units passed to compare_values not understood ({rt_roles})")
    # abstract outcomes of are_comparable on None-involving cases
    ap = [p.arg for p in arec.params()]
    garc = cfg_of(arec)

    def arc_outcomes(a, b) -> set:
        absx = Abs(lambda e: e.id if isinstance(e, ast.Name) and e.id in ap else None)
        outs = set()
        res = _explore(garc, absx, {ap[0]: a, ap[1]: b}, lambda n, env, fl: (env, fl | {("ret", norm(n.ast.value))}, "normal")
                       if isinstance(n.ast, ast.Return) and n.ast.value is not None else None)
        for kind, env, fl, trail in res:
            for t in fl:
                outs.add({"True": True, "False": False}.get(t[1], UNK))
        return outs

    # every are_comparable call of the analyzer module (methods *and* module-level helpers), by the role of its arguments:
    # `<tag value>.unit` is the tag's unit, `<...>.tag_unit` the unit written in the condition - whatever the locals are called
    def loose_role(e, fn_):
        e2 = expand_local(e, local_single_defs(fn_))
        if isinstance(e2, ast.Attribute) and e2.attr == "unit":
            return "TAG"
        if isinstance(e2, ast.Attribute) and e2.attr == "tag_unit":
            return "COND"
        return None
    swapped_somewhere = False
    for fn_ in list(prog.module(AN).functions.values()) + [m_ for c_ in prog.module(AN).classes.values() for m_ in c_.methods.values()]:
        for c_ in walk_no_nested(fn_.node):
            if isinstance(c_, ast.Call) and call_attr(c_) == "are_comparable" and len(c_.args) == 2:
                rr = (loose_role(c_.args[0], fn_), loose_role(c_.args[1], fn_))
                if set(rr) == {"TAG", "COND"} and rr != rt_roles:
                    swapped_somewhere = True
                    ctx.fail("R20c", fn_, c_, f"{fn_.short}: are_comparable argument order == run-time order",
                             f"the analyzer calls are_comparable{rr} while the run-time calls it with {rt_roles}: the relation is "
                             "order dependent ('%' lists vol%/wt%/mol%, they do not list '%'), so the analyzer accepts a condition in "
                             "'%' on a tag in 'vol%' that the engine then fails with 'Cannot compare values with incompatible units'")
    adefs = local_single_defs(ac)
    gac = cfg_of(ac)
    acalls = [(n, c) for n in gac.nodes if n.kind == "stmt" for c in n.calls() if call_attr(c) == "are_comparable"]
    if len(acalls) != 1 or not isinstance(acalls[0][0].ast, ast.Assign) or not isinstance(acalls[0][0].ast.targets[0], ast.Name):
        if swapped_somewhere:
            # the unit check was moved out of analyze_condition; the violation above is reported, the case analysis below
            # (which needs the call in place) is skipped for this run
            ctx.floor_failures.append("analyze_condition: `x = are_comparable(...)` not found exactly once (unit check moved)")
            acalls = None
        else:
            raise AnchorError("analyze_condition: `x = are_comparable(...)` not found exactly once")
    if acalls is not None:
        cnode, ccall2 = acalls[0]
        cvar = cnode.ast.targets[0].id
        an_roles = (role(ccall2.args[0], adefs), role(ccall2.args[1], adefs))
        k = "are_comparable argument order: analyzer == run-time"
        # map run-time roles onto are_comparable's parameter order
        if an_roles == rt_roles and (rt_a, rt_b) == (cv_params[cv_params.index(rt_a)], cv_params[cv_params.index(rt_b)]):
            ctx.ok("R20c", k + f" {an_roles}")
        else:
            ctx.fail("R20c", ac, ccall2, k, f"the analyzer calls are_comparable{an_roles} while the run-time calls it with {rt_roles}: "
                     "the relation is not symmetric by construction, so the two sides can disagree")

        def arole(e):
            r = role(e, adefs)
            if r is not None:
                return r
            if isinstance(e, ast.Name) and e.id == cvar:
                return "CMP"
            return None

        absx = Abs(arole)
        n_cases = 0
        for tu in (NONE, VAL):
            for cu in (NONE, VAL):
                ra, rb = (tu, cu) if rt_roles == ("TAG", "COND") else (cu, tu)
                if tu == VAL and cu == VAL:
                    cmps = [True, False, "raise"]
                else:
                    o = arc_outcomes(ra, rb)
                    if o == {True}:
                        cmps = [True]
                    elif o == {False}:
                        cmps = [False]
                    else:
                        raise AnchorError(f"are_comparable({ra}, {rb}): abstract outcome {o} not decided")
                for cmpv in cmps:
                    n_cases += 1
                    fails = cmpv is not True
                    case = f"tag unit {tu}, condition unit {cu}, are_comparable -> {cmpv}"
                    if not fails:
                        ctx.ok("R20c", f"case [{case}]: run-time accepts", trivial=True)
                        continue

                    def on_stmt(n, env, flags, cmpv=cmpv):
                        if n is cnode:
                            if cmpv == "raise":
                                return env, flags, "exc"
                            env = dict(env)
                            env["CMP"] = cmpv
                            return env, flags, "normal"
                        if _is_error_item(n):
                            return env, flags | {"ERR"}, "normal"
                        return None
                    res = _explore(gac, absx, {"TAG": tu, "COND": cu}, on_stmt)
                    silent = [r for r in res if r[0] == "return" and "ERR" not in r[2]]
                    if not res:
                        raise AnchorError("analyze_condition: no path explored")
                    if not silent:
                        ctx.ok("R20c", f"case [{case}]: every analyzer path reports an ERROR ({len(res)} paths)",
                               {"rule": "R20c", "case": case, "paths": len(res)})
                    else:
                        ctx.fail("R20c", ac, ac.node, f"case [{case}]", "the run-time comparison fails on incomparable units in this case "
                                 "but the analyzer has a path that reports nothing: " + " ; ".join(silent[0][3][-6:]))
        if n_cases < 6:
            raise AnchorError("R20c: fewer than 6 abstract cases")

    # ---- R20d
    sem = prog.cls(f"{AN}:SemanticCheckAnalyzer")
    sinit = sem.methods["__init__"]
    members = []
    for n in ast.walk(sinit.node):
        if isinstance(n, (ast.Assign, ast.AnnAssign)) and norm(n.targets[0] if isinstance(n, ast.Assign) else n.target) == "self.analyzers" \
                and isinstance(n.value, ast.List):
            for el in n.value.elts:
                if isinstance(el, ast.Call):
                    c = prog.resolve_name(sem.module, norm(el.func))
                    if c is not None and hasattr(c, "methods"):
                        members.append((c, [norm(a) for a in el.args]))
    if len(members) < 5:
        raise AnchorError("SemanticCheckAnalyzer.analyzers list not recovered")
    sites = []
    cond_cls = [c.name for c in astm.classes.values() if c.is_subclass_of(astm.classes["NodeWithCondition"])
                and c.class_attrs.get("instruction_names") is not None and c.name != "NodeWithCondition"
                and isinstance(c.class_attrs.get("instruction_names"), ast.List) and c.class_attrs["instruction_names"].elts]
    for mname, m in pi.methods.items():
        d3 = local_single_defs(m)
        for c in walk_no_nested(m.node):
            key = None
            if isinstance(c, ast.Call) and call_attr(c) == "get" and norm(c.func.value) == "self.context.tags" and c.args:
                key = c.args[0]
            elif isinstance(c, ast.Subscript) and norm(c.value) == "self.context.tags":
                key = c.slice
            if key is None:
                continue
            full = key
            # expand the root name
            parts = []
            cur = key
            while isinstance(cur, ast.Attribute):
                parts.append(cur.attr)
                cur = cur.value
            if isinstance(cur, ast.Name) and cur.id in d3:
                root = norm_node(expand_local(cur, d3), m)
            else:
                root = norm_node(cur, m)
            path = ".".join([root] + list(reversed(parts)))
            if not path.startswith("node."):
                continue
            if mname.startswith("visit_"):
                owners = [mname[len("visit_"):]]
            elif mname == "_evaluate_condition":
                owners = cond_cls
            else:
                raise AnchorError(f"PInterpreter.{mname}: tag lookup by a method-supplied name in an unexpected place")
            for o in owners:
                sites.append((m, c, o, path))
    if len(sites) < 4:
        raise AnchorError(f"only {len(sites)} run-time tag lookups by method-supplied names found (floor 4)")
    for m, c, owner, path in sites:
        ctx.analysed(m)
        k = f"{owner}: run-time lookup tags[{path}] ({m.short}) has an analyzer check"
        found = None
        for acls, cargs in members:
            if "tags" not in cargs:
                continue
            vm = acls.find_method(f"visit_{owner}")
            if vm is None or vm.cls is None or not vm.cls.module.name == AN or vm.cls.name == "AnalyzerVisitorBase":
                continue
            cands = [vm]
            for cc in walk_no_nested(vm.node):
                if isinstance(cc, ast.Call) and isinstance(cc.func, ast.Attribute) and norm(cc.func.value) == "self" \
                        and cc.args and norm_node(cc.args[0], vm) == "node":
                    t = acls.find_method(cc.func.attr)
                    if t is not None:
                        cands.append(t)
            for cf in cands:
                d4 = local_single_defs(cf)
                g = cfg_of(cf)
                for n in g.nodes:
                    if n.kind != "test":
                        continue
                    # (tests are stored without leading negation: `if not self.tags.has(x)` is the test `self.tags.has(x)`
                    # whose F edge is the undefined-name branch)
                    mt = None
                    if isinstance(n.ast, ast.Call) and norm(n.ast.func) == "self.tags.has" and n.ast.args:
                        mt = n.ast.args[0]
                    if mt is None:
                        continue
                    # expand analyzer-side name
                    parts = []
                    cur = mt
                    while isinstance(cur, ast.Attribute):
                        parts.append(cur.attr)
                        cur = cur.value
                    e2 = expand_local(cur, d4) if isinstance(cur, ast.Name) else cur
                    # second-level expansion (condition = node.tag_operator_value; tag_name = condition.tag_name)
                    parts2 = []
                    cur2 = e2
                    while isinstance(cur2, ast.Attribute):
                        parts2.append(cur2.attr)
                        cur2 = cur2.value
                    root2 = norm_node(expand_local(cur2, d4), cf) if isinstance(cur2, ast.Name) else norm_node(cur2, cf)
                    apath = ".".join([root2] + list(reversed(parts2)) + list(reversed(parts)))
                    if apath != path:
                        continue
                    esc = g.search([(n.id, "F")], lambda z: z.kind == "exit", blocked=lambda z: z.kind == "stmt" and _is_error_item(z),
                                   follow_exc=False)
                    found = (cf, n, esc)
                    ctx.analysed(cf)
        if found is None:
            ctx.fail("R20d", m, c, k, f"the interpreter resolves the tag name {path} at run time (an undefined name fails the "
                     f"instruction) but no analyzer of SemanticCheckAnalyzer tests `not self.tags.has({path})` for {owner}")
        elif found[2]:
            ctx.fail("R20d", found[0], found[1].ast, k, "the undefined-tag branch of the analyzer can return without reporting an ERROR")
        else:
            ctx.ok("R20d", k + f" [{found[0].short}]")
    # tag sets
    eng = prog.cls("openpectus.engine.engine:Engine")
    einit = eng.methods["__init__"]
    ctx.analysed(einit)
    ge = cfg_of(einit)
    merge = [n for n in ge.nodes if n.kind == "stmt" and isinstance(n.ast, ast.Assign) and norm(n.ast.targets[0]) == "self._tags"]
    k = "Engine._tags = system tags merged with uod tags; no system tag added afterwards"
    if len(merge) != 1 or norm(merge[0].ast.value) not in ("self._system_tags.merge_with(self.uod.tags)",
                                                             "self.uod.tags.merge_with(self._system_tags)"):
        ctx.fail("R20d", einit, einit.node, k, "the collection the interpreter resolves tag names in is not system tags + uod tags")
    else:
        late = ge.search([merge[0].id], lambda z: z.kind == "stmt" and any(
            call_attr(c) == "add" and norm(c.func.value) == "self._system_tags" for c in z.calls()), follow_exc=False)
        late_elsewhere = [f for f in eng.methods.values() if f.name != "__init__" and any(
            isinstance(c, ast.Call) and call_attr(c) == "add" and isinstance(c.func, ast.Attribute)
            and norm(c.func.value) == "self._system_tags" for c in ast.walk(f.node))]
        if late or late_elsewhere:
            ctx.fail("R20d", einit, merge[0].ast, k, "a system tag is added after the merge: it is published to the analyzer (uod.system_tags) "
                     "but unknown to the interpreter's tag collection")
        else:
            ctx.ok("R20d", k)
    k = "Engine hands its system tags to the uod (uod.system_tags = self._system_tags)"
    if any(n.kind == "stmt" and isinstance(n.ast, ast.Assign) and norm(n.ast.targets[0]) == "self.uod.system_tags"
           and norm(n.ast.value) == "self._system_tags" for n in ge.nodes):
        ctx.ok("R20d", k)
    else:
        ctx.fail("R20d", einit, einit.node, k, "published system tags are not the engine's system tags")
    tag_loops = [norm(lp.iter) for lp in walk_no_nested(cld.node) if isinstance(lp, ast.For)
                 and any(isinstance(c, ast.Call) and call_attr(c) == "TagDefinition" for c in ast.walk(lp))]
    k = f"create_lsp_definition publishes tags from {tag_loops}"
    if set(tag_loops) <= {"self.tags", "self.system_tags or []", "self.system_tags"} and tag_loops:
        ctx.ok("R20d", k)
    else:
        ctx.fail("R20d", cld, cld.node, k, "tags are published from a collection the engine does not resolve names in")
    ictx = prog.func("openpectus.engine.engine:Engine.tags")
    k = "Engine.tags (the interpreter context's collection) returns self._tags"
    if any(isinstance(n, ast.Return) and n.value is not None and norm(n.value) == "self._tags" for n in ast.walk(ictx.node)):
        ctx.ok("R20d", k)
    else:
        ctx.fail("R20d", ictx, ictx.node, k, "the interpreter resolves tag names in another collection than the published one")

    # ---- R20e
    qmap = None
    for st in units.tree.body:
        if isinstance(st, ast.Expr) and isinstance(st.value, ast.Call) and norm(st.value.func) == "QUANTITY_UNIT_MAP.update" \
                and st.value.args and isinstance(st.value.args[0], ast.Dict):
            qmap = st.value.args[0]
    if qmap is None and isinstance(units.constants.get("QUANTITY_UNIT_MAP"), ast.Dict):
        qmap = units.constants["QUANTITY_UNIT_MAP"]
    if qmap is None:
        raise AnchorError("units.QUANTITY_UNIT_MAP literal not found")
    defines = []
    for st in units.tree.body:
        if isinstance(st, ast.Expr) and isinstance(st.value, ast.Call) and norm(st.value.func) == "ureg.define" and st.value.args \
                and isinstance(st.value.args[0], ast.Constant):
            defines.append(st.value.args[0].value)
    dimless = {d.split("=")[0].strip() for d in defines if d.split("=")[1].strip() in ("1", "[]", "dimensionless")}
    whole = {d.split("=")[0].strip() for d in defines}
    n_e = 0
    for kq, vq in zip(qmap.keys, qmap.values):
        if not isinstance(vq, ast.List):
            continue
        us = [e.value for e in vq.elts if isinstance(e, ast.Constant) and isinstance(e.value, str)]
        if "%" not in us:
            continue
        for u in us:
            mpre = re.fullmatch(r"([A-Za-z]+)%", u)
            if not mpre:
                continue
            n_e += 1
            k = f"QUANTITY_UNIT_MAP[{kq.value!r}]: '{u}' is commensurable with '%'"
            if mpre.group(1) in dimless or u in whole:
                ctx.ok("R20e", k)
            else:
                ctx.fail("R20e", None, vq, k, f"'{u}' is listed as comparable with '%' but pint reads it as {mpre.group(1)}*percent and "
                         f"'{mpre.group(1)}' is not declared dimensionless (only {sorted(dimless)} are): are_comparable('%', '{u}') is True, "
                         f"the analyzer accepts the condition, and compare_values raises a conversion error at run time",
                         function="openpectus.lang.exec.units (module)", file=units.relpath)
    if n_e < 2:
        raise AnchorError("R20e: compound percentage units not found")


def _r20f(ctx) -> None:
    from ..util import local_all_defs, cfg_of as _cfg
    from ..cfg import facts_at as _facts
    prog = ctx.prog
    ctx.rule("R20f", "values handed to the Decimal unit registry are Decimals")
    um = prog.module("openpectus.lang.exec.units")
    decl = [n for n in um.tree.body if isinstance(n, ast.Assign) and isinstance(n.value, ast.Call) and "UnitRegistry" in norm(n.value.func)]
    if not decl:
        raise AnchorError("units.py: module-level UnitRegistry(...) not found")
    regname = decl[0].targets[0].id
    is_dec = any(k.arg == "non_int_type" and "Decimal" in norm(k.value) for k in decl[0].value.keywords)
    if not is_dec:
        ctx.ok("R20f", "the unit registry calculates in float: no Decimal/float mixing to exclude", trivial=True)
        return
    n_sites = 0
    for fn in prog.iter_functions():
        if "/test" in fn.module.path or ".test." in fn.module.name:
            continue
        for c in walk_no_nested(fn.node):
            if not (isinstance(c, ast.Call) and isinstance(c.func, ast.Attribute) and c.func.attr == "Quantity"
                    and isinstance(c.func.value, ast.Name) and c.func.value.id == regname and c.args):
                continue
            n_sites += 1
            ctx.analysed(fn)
            x = c.args[0]
            inst = f"{fn.short}: `{norm(c)[:50]}` gets a Decimal"

            def decimal_expr(e):
                return isinstance(e, ast.Call) and (norm(e.func).endswith("Decimal") or (call_attr(e) or getattr(e.func, "id", "")) == "as_decimal")
            ok, why = False, ""
            if decimal_expr(x):
                ok = True
            elif isinstance(x, ast.Name):
                defs = list(local_all_defs(fn).get(x.id, []))
                for st in walk_no_nested(fn.node):      # `a, b = f(x), f(y)`: pair the targets with their values
                    if isinstance(st, ast.Assign) and isinstance(st.targets[0], ast.Tuple) and isinstance(st.value, ast.Tuple) \
                            and len(st.targets[0].elts) == len(st.value.elts):
                        for t_, v_ in zip(st.targets[0].elts, st.value.elts):
                            if isinstance(t_, ast.Name) and t_.id == x.id:
                                defs.append(v_)
                params = {a.arg: a for a in fn.node.args.args}
                if x.id in params:
                    ann = norm(params[x.id].annotation) if params[x.id].annotation is not None else ""
                    g = _cfg(fn)
                    cn = g.node_containing(c)[0]
                    rebinds = [n for n in g.nodes if n.kind == "stmt" and isinstance(n.ast, ast.Assign) and isinstance(n.ast.targets[0], ast.Name)
                               and n.ast.targets[0].id == x.id and decimal_expr(n.ast.value)
                               and any(t == f"isinstance({x.id}, float)" and pol for t, pol in _facts(g, n))]
                    tests = [t for t in g.nodes if t.kind == "test" and norm(t.ast) == f"isinstance({x.id}, float)" and g.dominates(t, cn)]
                    if "float" not in ann and "int" not in ann.replace("non_int", ""):
                        ok = True
                    elif rebinds and tests:
                        ok = True
                    else:
                        why = f"parameter `{x.id}: {ann}` admits float and is not converted before the call"
                elif defs and all(decimal_expr(d) or (isinstance(d, ast.Tuple) and all(decimal_expr(e) for e in d.elts)) for d in defs):
                    ok = True
                else:
                    why = f"`{x.id}` is defined by {[norm(d)[:40] for d in defs][:2]}"
            else:
                why = f"`{norm(x)[:40]}` is not a Decimal by construction"
            if ok:
                ctx.ok("R20f", inst)
            else:
                ctx.fail("R20f", fn, c, inst, f"{why}: the registry is built with non_int_type=Decimal, so a float magnitude raises `unsupported operand "
                         "type(s) for *: 'float' and 'decimal.Decimal'` on conversion - PInterpreter.visit_SimulateNode passes the float "
                         "tag_value_numeric of `Simulate: FT01 = 5 L/min` (tag unit L/h), which the analyzer accepts as compatible")
    if n_sites < 2:
        raise AnchorError(f"R20f: only {n_sites} {regname}.Quantity(...) constructions found (floor 2)")


def run(ctx) -> None:
    _run_main(ctx)
    _r20f(ctx)
