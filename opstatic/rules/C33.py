"""C33 - Push notifications reach exactly the entitled subscribers: sibling agreement of selections.

In WebPushPublisher._get_subscriptions_for_topic:
R33a every selection of user ids (a comprehension over the topic's preferences yielding np.user_id)
     contains the conjunct has_access(<process unit parameter>, set(np.user_roles)).
R33b each selection tests `np.scope == NotificationScope.<M>`; the members are pairwise distinct and
     together cover the enum; the scope-specific conjunct is present (contributors for
     ..CONTRIBUTED_TO, `engine_id in np.process_units` for SPECIFIC_PROCESS_UNITS); the returned
     subscriptions are fetched for exactly the concatenation of these selections, through the
     `IN (...)` query (so a user id occurring twice still yields each subscription once).
R33c candidate preferences come from the topic-filtered query with the function's topic parameter;
     publish_message skips (continue) the subscription whose user is the new contributor before
     _post_webpush on the NEW_CONTRIBUTOR topic, and posts once per subscription.
R33d one row per browser subscription: WebPushRepository.store_subscription looks the (user, endpoint) row up and constructs a new
     WebPushSubscription only when none was found (every row is posted to, so a second row for the same endpoint is a second
     notification).
R33e "runs they contributed to" means the current run: in RecentEngineRepository.store_recent_engine the stored contributors
     are taken over only when the stored run id equals the current run's id (compared before the stored id is overwritten),
     and they are cleared when no run is active - the restore after a reconnect trusts what is stored.
R33f at most once per browser subscription whatever the table holds: in publish_message the post is made only for an endpoint that has
     not been posted to in this call (a seen-set tested before and filled with the post) - store_subscription's look-up-then-insert
     runs in a thread pool, two simultaneous subscribe requests of one browser leave two rows.
Decides the selection structure; database contents are outside.
"""
from __future__ import annotations

import ast

from ..model import AnchorError, norm, walk_no_nested, parent_map
from ..util import cfg_of, call_attr, enum_members, local_single_defs

EXPLANATION = __doc__
CLS = "openpectus.aggregator.webpush_publisher:WebPushPublisher"


def _conj(e: ast.AST) -> list[ast.AST]:
    if isinstance(e, ast.BoolOp) and isinstance(e.op, ast.And):
        return [c for v in e.values for c in _conj(v)]
    return [e]


def run(ctx) -> None:
    _repo_rules(ctx)
    prog = ctx.prog
    f = prog.func(f"{CLS}._get_subscriptions_for_topic")
    ctx.analysed(f)
    for r, d in [("R33a", "every selection checks has_access"), ("R33b", "scopes distinct and exhaustive"),
                 ("R33c", "topic filter and new-contributor exclusion")]:
        ctx.rule(r, d)
    params = [a.arg for a in f.node.args.args]
    if len(params) < 4:
        raise AnchorError("_get_subscriptions_for_topic signature changed")
    topic_p, unit_p = params[1], params[2]
    enum = prog.cls("openpectus.aggregator.models:NotificationScope")
    members = set(enum_members(enum))
    sels = {}
    for n in walk_no_nested(f.node):
        if isinstance(n, ast.Assign) and isinstance(n.value, ast.ListComp) and isinstance(n.targets[0], ast.Name):
            lc = n.value
            if isinstance(lc.elt, ast.Attribute) and lc.elt.attr == "user_id" and len(lc.generators) == 1:
                sels[n.targets[0].id] = (n, lc)
    if len(sels) < 2:
        raise AnchorError("_get_subscriptions_for_topic: user-id selections not recognised")
    scopes = {}
    src_names = set()
    for name, (st, lc) in sels.items():
        gen = lc.generators[0]
        var = norm(gen.target)
        src_names.add(norm(gen.iter))
        conj = [c for i in gen.ifs for c in _conj(i)]
        acc = [c for c in conj if isinstance(c, ast.Call) and call_attr(c) == "has_access" and len(c.args) == 2
               and norm(c.args[0]) == unit_p and f"{var}.user_roles" in norm(c.args[1])]
        inst = f"selection `{name}`: has_access({unit_p}, {var}.user_roles) conjunct"
        if acc:
            ctx.ok("R33a", inst)
        else:
            ctx.fail("R33a", f, st, inst, f"user ids are selected for `{name}` without checking that the subscriber's recorded roles "
                     f"grant access to the process unit: notifications leak to users who may not see the unit")
        sc = [c for c in conj if isinstance(c, ast.Compare) and len(c.ops) == 1 and isinstance(c.ops[0], ast.Eq)
              and norm(c.left) == f"{var}.scope" and norm(c.comparators[0]).startswith("NotificationScope.")]
        if len(sc) != 1:
            ctx.fail("R33b", f, st, f"selection `{name}`: exactly one scope test", "selection is not restricted to one notification scope")
            continue
        member = norm(sc[0].comparators[0]).split(".")[-1]
        scopes.setdefault(member, []).append(name)
        rest = [norm(c) for c in conj if c is not sc[0] and c not in acc]
        inst = f"selection `{name}` ({member}): scope-specific conjunct"
        if member == "PROCESS_UNITS_WITH_RUNS_IVE_CONTRIBUTED_TO":
            ok = any("contributors" in r and f"{var}.user_id" in r for r in rest)
        elif member == "SPECIFIC_PROCESS_UNITS":
            ok = any(r in (f"{unit_p}.engine_id in {var}.process_units",) for r in rest)
        else:
            ok = not rest
        if ok:
            ctx.ok("R33b", inst)
        else:
            ctx.fail("R33b", f, st, inst, f"conjuncts {rest} do not implement the documented meaning of scope {member}")
    for m in sorted(members | set(scopes)):
        inst = f"scope {m} handled by exactly one selection"
        if m in members and len(scopes.get(m, [])) == 1:
            ctx.ok("R33b", inst)
        else:
            ctx.fail("R33b", f, f.node, inst, f"scope {m}: selections {scopes.get(m, [])} (a user could be selected twice, or a "
                     f"scope is never notified)")
    rets = [n for n in walk_no_nested(f.node) if isinstance(n, ast.Return) and n.value is not None]
    if len(rets) == 1 and isinstance(rets[0].value, ast.Call) and call_attr(rets[0].value) == "get_subscriptions":
        names = {x.id for x in ast.walk(rets[0].value.args[0]) if isinstance(x, ast.Name)} if rets[0].value.args else set()
        if names == set(sels):
            ctx.ok("R33b", "returned subscriptions are those of exactly the selected user ids")
        else:
            ctx.fail("R33b", f, rets[0], "returned subscriptions are those of exactly the selected user ids",
                     f"get_subscriptions receives {sorted(names)} but the selections are {sorted(sels)}")
    else:
        raise AnchorError("_get_subscriptions_for_topic: return get_subscriptions(...) not recognised")
    gs = prog.func("openpectus.aggregator.data.repository:WebPushRepository.get_subscriptions")
    ctx.analysed(gs)
    if ".in_(" in norm(gs.node):
        ctx.ok("R33b", "get_subscriptions uses an IN query (duplicates in the id list do not duplicate rows)")
    else:
        ctx.fail("R33b", gs, gs.node, "get_subscriptions uses an IN query", "a user id occurring twice could yield a subscription twice")
    # R33c
    defs = local_single_defs(f)
    src_ok = False
    for s in src_names:
        d = defs.get(s)
        if isinstance(d, ast.Call) and call_attr(d) == "get_notification_preferences_for_topic" and d.args and norm(d.args[0]) == topic_p:
            src_ok = True
    if src_ok and len(src_names) == 1:
        ctx.ok("R33c", "candidate preferences come from get_notification_preferences_for_topic(topic)")
    else:
        ctx.fail("R33c", f, f.node, "candidate preferences come from get_notification_preferences_for_topic(topic)",
                 f"selections iterate {sorted(src_names)}")
    q = prog.func("openpectus.aggregator.data.repository:WebPushRepository.get_notification_preferences_for_topic")
    ctx.analysed(q)
    qp = [a.arg for a in q.node.args.args]
    if f"topics.contains({qp[1]})" in norm(q.node):
        ctx.ok("R33c", "topic query filters on topics.contains(topic)")
    else:
        ctx.fail("R33c", q, q.node, "topic query filters on topics.contains(topic)", "preferences are not filtered by topic")
    pm = prog.func(f"{CLS}.publish_message")
    ctx.analysed(pm)
    g = cfg_of(pm)
    # the subscription list: the local assigned from _get_subscriptions_for_topic(...) (by role)
    subs_assign = [n for n in g.nodes if n.kind == "stmt" and isinstance(n.ast, ast.Assign) and isinstance(n.ast.value, ast.Call)
                   and call_attr(n.ast.value) == "_get_subscriptions_for_topic" and isinstance(n.ast.targets[0], ast.Name)]
    subs_var = subs_assign[0].ast.targets[0].id if subs_assign else None
    loops = [n for n in g.nodes if n.kind == "for" and subs_var is not None and norm(n.ast.iter) == subs_var]
    posts = [n for n in g.nodes if any(call_attr(c) == "_post_webpush" for c in n.calls())]
    if len(loops) != 1 or len(posts) != 1:
        raise AnchorError("publish_message: subscription loop / _post_webpush not recognised")
    lp, post = loops[0], posts[0]
    sub = norm(lp.ast.target)
    tests = [n for n in g.nodes if n.kind == "test" and "contributor_id" in norm(n.ast) and f"{sub}.user_id" in norm(n.ast)]
    if not tests:
        ctx.fail("R33c", pm, lp.ast, "publish_message: new contributor's own subscriptions skipped",
                 "no test compares the notification's contributor with the subscription's user")
    else:
        t = tests[0]
        eq = isinstance(t.ast, ast.Compare) and isinstance(t.ast.ops[0], ast.Eq)
        lab = "T" if eq else "F"
        p = g.search([(t.id, lab)], lambda n: n.id == post.id, blocked=lambda n: n.id == lp.id)
        conds = [norm(c) for c, pol in g.conditions_at(t) if pol]
        on_topic = any("NEW_CONTRIBUTOR" in c for c in conds)
        inst = "publish_message: new contributor's own subscriptions skipped on NEW_CONTRIBUTOR"
        if p is None and on_topic:
            ctx.ok("R33c", inst)
        else:
            ctx.fail("R33c", pm, t.ast, inst, "the contributor a NEW_CONTRIBUTOR notification is about can receive it" if p is not None
                     else "the exclusion is not tied to the NEW_CONTRIBUTOR topic", p)
    if subs_assign:
        ctx.ok("R33c", "publish_message iterates _get_subscriptions_for_topic(topic, process_unit, ...)")
    else:
        ctx.fail("R33c", pm, pm.node, "publish_message iterates _get_subscriptions_for_topic(topic, process_unit, ...)",
                 "subscriptions are not the entitled ones")



def _r33f(ctx) -> None:
    prog = ctx.prog
    ctx.rule("R33f", "publish_message posts to an endpoint at most once per notification")
    pmf = prog.func(f"{CLS}.publish_message")
    g = cfg_of(pmf)
    posts = [n for n in g.nodes if any(call_attr(c) == "_post_webpush" for c in n.calls())]
    if not posts:
        raise AnchorError("publish_message: _post_webpush call not found")
    for pn in posts:
        inst = "publish_message: the post is made only for an endpoint not yet posted to"
        guard = None
        for t, pol in g.conditions_at(pn):
            if isinstance(t, ast.Compare) and len(t.ops) == 1 and isinstance(t.ops[0], (ast.In, ast.NotIn)) and norm(t.left).endswith(".endpoint") \
                    and isinstance(t.comparators[0], ast.Name) and ((isinstance(t.ops[0], ast.In) and not pol) or (isinstance(t.ops[0], ast.NotIn) and pol)):
                guard = t.comparators[0].id
        filled = guard is not None and any(isinstance(c, ast.Call) and call_attr(c) == "add" and norm(c.func.value) == guard
                                           and c.args and norm(c.args[0]).endswith(".endpoint") for c in ast.walk(pmf.node))
        if guard and filled:
            ctx.ok("R33f", inst)
        else:
            ctx.fail("R33f", pmf, pn.ast, inst, "one post per row: two rows for one endpoint (two subscribe requests of the same browser handled "
                     "at the same time - look-up and insert run in different pool threads, there is no unique constraint) are two "
                     "notifications to one subscription, for every later notification")


def _repo_rules(ctx) -> None:
    _r33f(ctx)
    prog = ctx.prog
    ctx.rule("R33d", "store_subscription updates the existing (user, endpoint) row instead of adding a second one")
    ctx.rule("R33e", "stored contributors belong to the stored run only")
    REPO = "openpectus.aggregator.data.repository"
    f = prog.func(f"{REPO}:WebPushRepository.store_subscription")
    ctx.analysed(f)
    pm = parent_map(f.node)
    ctors = [c for c in ast.walk(f.node) if isinstance(c, ast.Call) and norm(c.func) == "WebPushSubscription"]
    if not ctors:
        raise AnchorError("store_subscription: no WebPushSubscription() construction")
    lookups = [c for c in ast.walk(f.node) if isinstance(c, ast.Compare) and norm(c.left) == "WebPushSubscription.endpoint"]
    inst = "store_subscription: a new row is constructed only when no row with this endpoint exists"
    conditional = True
    for c in ctors:
        x, cond = c, False
        while id(x) in pm:
            par = pm[id(x)]
            if isinstance(par, ast.IfExp) and x is not par.test:
                cond = True
            if isinstance(par, ast.If) and x not in [par.test]:
                cond = True
            x = par
        conditional = conditional and cond
    if lookups and conditional:
        ctx.ok("R33d", inst)
    else:
        ctx.fail("R33d", f, ctors[0], inst, "every subscribe request inserts a row" + ("" if lookups else " (no look-up by endpoint)") +
                 ": a repeated request of the same browser (double click, retry) leaves two rows for one subscription and "
                 "publish_message posts every notification to it twice")
    g = prog.func(f"{REPO}:RecentEngineRepository.store_recent_engine")
    ctx.analysed(g)
    gdefs = local_single_defs(g)
    # the RecentEngine local: receiver of `.contributors = ...`
    writes = [st for st in ast.walk(g.node) if isinstance(st, ast.Assign) and len(st.targets) == 1 and isinstance(st.targets[0], ast.Attribute)
              and st.targets[0].attr == "contributors" and isinstance(st.targets[0].value, ast.Name)]
    if not writes:
        raise AnchorError("store_recent_engine: no assignment to <recent engine>.contributors")
    R = writes[0].targets[0].value.id
    id_writes = [st for st in ast.walk(g.node) if isinstance(st, ast.Assign) and norm(st.targets[0]) == f"{R}.run_id"
                 and not (isinstance(st.value, ast.Constant) and st.value.value is None)]
    reads = [x for x in ast.walk(g.node) if isinstance(x, ast.Attribute) and x.attr == "contributors" and isinstance(x.ctx, ast.Load)
             and isinstance(x.value, ast.Name) and x.value.id == R]
    gpm = parent_map(g.node)
    inst = f"store_recent_engine: stored contributors are taken over only for the same run"
    bad = None
    for r in reads:
        x, guarded = r, False
        while id(x) in gpm:
            par = gpm[id(x)]
            if isinstance(par, (ast.IfExp, ast.If)) and x is not par.test:
                from ..util import expand_local
                t = expand_local(par.test, gdefs)
                for cmp_ in ast.walk(t):
                    if isinstance(cmp_, ast.Compare) and len(cmp_.ops) == 1 and isinstance(cmp_.ops[0], (ast.Eq, ast.NotEq)) \
                            and {norm(cmp_.left).split(".")[-1], norm(cmp_.comparators[0]).split(".")[-1]} == {"run_id"} \
                            and f"{R}.run_id" in (norm(cmp_.left), norm(cmp_.comparators[0])):
                        # evaluated before the stored id is overwritten
                        src = par.test
                        src_line = min([n.lineno for n in ast.walk(g.node) if isinstance(n, ast.Assign) and isinstance(n.targets[0], ast.Name)
                                        and isinstance(src, ast.Name) and n.targets[0].id == src.id] or [par.lineno])
                        if all(src_line < w.lineno for w in id_writes):
                            guarded = True
            x = par
        if not guarded:
            bad = r
    if reads and bad is None:
        ctx.ok("R33e", inst)
    elif not reads:
        ctx.ok("R33e", inst + " (the stored contributors are never read back)")
    else:
        ctx.fail("R33e", g, bad, inst, f"`{R}.contributors` of the stored record is merged into the new record whatever run it was stored "
                 "for: the contributors of an earlier run are restored after a reconnect during a later run and its "
                 "'runs I have contributed to' subscribers are notified about a run they never touched")
    inst = "store_recent_engine: the stored contributors are cleared when no run is active"
    clears = [w for w in writes if (isinstance(w.value, (ast.List, ast.Set)) and not getattr(w.value, "elts", [1]))
              or (isinstance(w.value, ast.Call) and norm(w.value.func) in ("list", "set") and not w.value.args)
              or (isinstance(w.value, ast.Constant) and w.value.value is None)]
    gg = cfg_of(g)
    ok_clear = False
    for w in clears:
        for n in gg.nodes_for(w):
            if any(norm(expand_local_safe(t, gdefs)).endswith(".has_run()") and not pol for t, pol in gg.conditions_at(n)):
                ok_clear = True
    if ok_clear:
        ctx.ok("R33e", inst)
    else:
        ctx.fail("R33e", g, g.node, inst, "the record of an engine without a run keeps the contributors of its last run; they are merged "
                 "into the next run's record")


def expand_local_safe(t, defs):
    from ..util import expand_local
    try:
        return expand_local(t, defs)
    except Exception:
        return t
