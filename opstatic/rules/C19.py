"""C19 - Method analysis never crashes and flags undefined names: check-then-use + must-report.

Scope: every method of the analyzer classes in lang/exec/analyzer.py (subclasses of
AnalyzerVisitorBase) and lsp_analysis.lint.
R19a check-then-use: for every branch on `C.has(K)` (C a TagValueCollection / TagCollection /
     CommandCollection - their get() raises on a missing key), no path from the "missing" edge reaches
     `C.get(K)` or `C[K]`.
R19b must-report: every path from that "missing" edge to the function exit passes
     add_item(AnalyzerItem(..., AnalyzerItemType.ERROR, ...)).
R19c no AnalyzerItem(...) call passes both `length=` and `end=` (the constructor raises).
R19d name lookups are guarded: every `C.has(K)` / `C.get(K)` is dominated by a blank-name test of K
     (has/get raise on None/blank) or is a justified entry; every `C.get(K)` is dominated by a
     successful has(K) (or is unreachable from its missing edge, R19a).
R19e lsp_analysis.lint wraps analysis in `except Exception` that still yields a diagnostic list.
R19f totality of the partial operations in analyzer methods: every `max(..)`/`min(..)` without `default=`
     is applied to a collection that is provably non-empty where it is evaluated - a truthiness test of
     the very expression the collection is built from (comprehension without filter) dominates it, or
     the call is the guarded arm of `.. if <collection> else ..`; every load/del `D[K]` of a dictionary
     attribute is dominated by `K in D` (or by `D.get(K)` having returned a value); a subscript with the
     result of `max(D, key=D.get)` on the same D is total.
Decides the lookup discipline for all method texts and tag/command sets; exceptions inside pint
are outside.
"""
from __future__ import annotations

import ast

from ..model import AnchorError, norm, walk_no_nested, parent_map
from ..util import cfg_of, call_attr, local_single_defs, expand_local, canon_text
from ..cfg import facts_at, handler_is_catch_all

EXPLANATION = __doc__
COLLECTIONS = {"openpectus.lang.exec.tags:TagValueCollection", "openpectus.lang.exec.tags:TagCollection",
               "openpectus.lang.exec.commands:CommandCollection"}
# (function short name, call text) -> reason; sites whose key cannot be blank for a reason outside the function
# The reason holds only for the listed sources of the key: the entry applies while every definition of the key local is one of
# them (the node parameter spelled `node`).
JUSTIFIED_BLANK = {
    ("CommandCheckAnalyzer.check_command_node", "self.commands.has(<local>)"):
        ("instruction_name is non-empty for every node class except ErrorInstructionNode, for which the whole non-blank "
         "line is adopted as name (blank lines parse to BlankNode) - confirmed by exhaustive probing of short lines",
         {"node.instruction_name", "node.line"}),
}


def _justified_blank(f, x) -> bool:
    from ..util import local_all_defs, norm_node
    ent = JUSTIFIED_BLANK.get((f.short, canon_text(x, f)))
    if ent is None:
        return False
    key = x.args[0]
    if not isinstance(key, ast.Name):
        return norm_node(key, f) in ent[1]
    defs = local_all_defs(f).get(key.id, [])
    return bool(defs) and all(norm_node(d, f) in ent[1] for d in defs)


def _is_error_report(n) -> bool:
    for c in n.calls():
        if call_attr(c) == "add_item" and c.args and isinstance(c.args[0], ast.Call) and call_attr(c.args[0]) == "AnalyzerItem":
            item = c.args[0]
            ty = item.args[3] if len(item.args) > 3 else None
            for k in item.keywords:
                if k.arg == "type":
                    ty = k.value
            if ty is not None and norm(ty).endswith("AnalyzerItemType.ERROR"):
                return True
    return False


def _has_tests(ctx, f, g):
    """[(test node, missing-edge label, collection text, key text)]"""
    out = []
    for n in g.nodes:
        if n.kind != "test":
            continue
        e = n.ast
        pol = True
        while isinstance(e, ast.UnaryOp) and isinstance(e.op, ast.Not):
            e = e.operand
            pol = not pol
        if isinstance(e, ast.Call) and call_attr(e) == "has" and isinstance(e.func, ast.Attribute) and len(e.args) == 1:
            cs = ctx.res.receiver_classes(e.func.value, f)
            if any(c.qualname in COLLECTIONS for c in cs):
                out.append((n, "F" if pol else "T", norm(e.func.value), norm(e.args[0])))
    return out


def _uses(n, coll: str, key: str) -> bool:
    for x in n.walk():
        if isinstance(x, ast.Call) and call_attr(x) == "get" and isinstance(x.func, ast.Attribute) \
                and norm(x.func.value) == coll and x.args and norm(x.args[0]) == key:
            return True
        if isinstance(x, ast.Subscript) and norm(x.value) == coll and norm(x.slice) == key and isinstance(x.ctx, ast.Load):
            return True
    return False


def run(ctx) -> None:
    prog = ctx.prog
    base = prog.cls("openpectus.lang.exec.analyzer:AnalyzerVisitorBase")
    classes = [base] + base.all_subclasses()
    for r, d in [("R19a", "no get()/[] on the missing edge of has()"), ("R19b", "missing edge always reports an ERROR item"),
                 ("R19c", "AnalyzerItem never gets both length and end"), ("R19d", "lookups guarded by blank test / has"),
                 ("R19e", "lint catches everything"), ("R19f", "max/min and dictionary subscripts are total")]:
        ctx.rule(r, d)
    funcs = [m for c in classes if not c.module.is_test for m in c.methods.values()]
    # module-level helpers of the analyzer modules are part of the analysis code too (a partial operation moved into a
    # helper is still evaluated for every method text)
    seen_mods = []
    for c in classes:
        if not c.module.is_test and c.module not in seen_mods:
            seen_mods.append(c.module)
            funcs += list(c.module.functions.values())
    n_has = 0
    for f in funcs:
        g = cfg_of(f)
        tests = _has_tests(ctx, f, g)
        defs = local_single_defs(f)
        if tests:
            ctx.analysed(f)
        for (t, lab, coll, key) in tests:
            n_has += 1
            inst = f"{f.short}: missing edge of {coll}.has({key})"
            p = g.search([(t.id, lab)], lambda x: _uses(x, coll, key))
            if p is not None:
                ctx.fail("R19a", f, p[-1].ast, inst + f" reaches {coll}.get({key})",
                         f"on the branch where {coll}.has({key}) is false a path reaches `{p[-1].text()[:70]}`, which raises "
                         f"ValueError for a missing name: analysis of the whole method crashes instead of reporting the line", [t] + p)
            else:
                ctx.ok("R19a", inst)
            p = g.search([(t.id, lab)], lambda x: x.id == g.exit.id, blocked=_is_error_report, follow_exc=False)
            if p is not None:
                ctx.fail("R19b", f, t.ast, inst + " reports an error",
                         "a path from the undefined-name branch reaches the end of the function without add_item(AnalyzerItem(.. "
                         "AnalyzerItemType.ERROR ..)): the undefined name is silently accepted", [t] + p)
            else:
                ctx.ok("R19b", inst + " reports an error")
        # R19d: every has/get/[] on a collection
        for n in g.nodes:
            for x in n.walk():
                if not (isinstance(x, ast.Call) and call_attr(x) in ("has", "get") and isinstance(x.func, ast.Attribute) and len(x.args) >= 1):
                    continue
                cs = ctx.res.receiver_classes(x.func.value, f)
                if not any(c.qualname in COLLECTIONS for c in cs):
                    continue
                ctx.analysed(f)
                key = norm(x.args[0])
                coll = norm(x.func.value)
                facts = facts_at(g, n, defs)
                blank_guard = any((a in (f"{key} == ''", f"{key}.strip() == ''", f"{key} is None") and not pol) or
                                  (a == key and pol) or (a == f"{coll}.has({key})" and pol) for a, pol in facts)
                inst = f"{f.short}: {norm(x)} key not blank"
                if blank_guard:
                    ctx.ok("R19d", inst)
                elif _justified_blank(f, x):
                    ctx.ok("R19d", inst + " (justified)", trivial=True)
                else:
                    ctx.fail("R19d", f, x, inst, f"{coll}.{call_attr(x)}({key}) raises ValueError for a None/blank name and no "
                             "blank-name test dominates it")
                if call_attr(x) == "get":
                    has_true = any(a == f"{coll}.has({key})" and pol for a, pol in facts)
                    guarded_elsewhere = any(c2 == coll and k2 == key for (_, _, c2, k2) in tests)
                    inst = f"{f.short}: {norm(x)} after successful has()"
                    if has_true or guarded_elsewhere:
                        ctx.ok("R19d", inst)  # reachability from the missing edge is R19a's verdict
                    else:
                        ctx.fail("R19d", f, x, inst, f"{coll}.get({key}) raises for an undefined name and no has({key}) test exists")
        # R19f
        pmap = parent_map(f.node)
        for n in g.nodes:
            for x in n.walk():
                if isinstance(x, ast.Call) and isinstance(x.func, ast.Name) and x.func.id in ("max", "min") and len(x.args) == 1 \
                        and not any(k.arg == "default" for k in x.keywords):
                    ctx.analysed(f)
                    coll = x.args[0]
                    src = expand_local(coll, defs) if isinstance(coll, ast.Name) else coll
                    base_src = src
                    if isinstance(src, (ast.DictComp, ast.ListComp, ast.SetComp, ast.GeneratorExp)) and len(src.generators) == 1 \
                            and not src.generators[0].ifs:
                        base_src = src.generators[0].iter
                    if isinstance(base_src, ast.Call) and isinstance(base_src.func, ast.Attribute) \
                            and base_src.func.attr in ("keys", "values", "items") and not base_src.args:
                        base_src = base_src.func.value
                    facts = facts_at(g, n, defs)
                    want = {norm(coll), norm(base_src)}
                    ok = any((a in want and pol) or any(a in (f"len({w}) > 0", f"len({w}) != 0", f"len({w}) >= 1") and pol for w in want)
                             or any(a == f"len({w}) == 0" and not pol for w in want) for a, pol in facts)
                    par = pmap.get(id(x))
                    if isinstance(par, ast.IfExp) and par.body is x and norm(par.test) in want:
                        ok = True
                    inst = f"{f.short}: {norm(x)[:60]} on a non-empty collection"
                    if ok:
                        ctx.ok("R19f", inst, {"rule": "R19f", "site": inst, "collection": norm(base_src)})
                    else:
                        ctx.fail("R19f", f, x, inst, f"`{norm(x)[:50]}` raises ValueError when `{norm(base_src)[:70]}` is empty and nothing "
                                 "that dominates the call tests that expression for emptiness: analysis of the whole method crashes")
                if isinstance(x, ast.Subscript) and isinstance(x.ctx, (ast.Load, ast.Del)) and not isinstance(x.slice, ast.Slice) \
                        and isinstance(x.value, (ast.Name, ast.Attribute)) and f.name != "__init__":
                    d, kx = norm(x.value), norm(x.slice)
                    is_attr_dict = isinstance(x.value, ast.Attribute) and norm(x.value.value) == "self" and f.cls is not None and \
                        any("dict" in norm(c.inst_attr_ann.get(x.value.attr)) for c in f.cls.mro()
                            if c.inst_attr_ann.get(x.value.attr) is not None)
                    kdef = expand_local(x.slice, defs) if isinstance(x.slice, ast.Name) else None
                    if isinstance(kdef, ast.IfExp):
                        kdef = kdef.body
                    from_max = isinstance(kdef, ast.Call) and isinstance(kdef.func, ast.Name) and kdef.func.id in ("max", "min") \
                        and kdef.args and norm(kdef.args[0]) == d
                    if not (is_attr_dict or from_max):
                        continue
                    ctx.analysed(f)
                    inst = f"{f.short}: {norm(x)} key present"
                    facts = facts_at(g, n, defs)
                    getdef = [nm for nm, dv in defs.items() if isinstance(dv, ast.Call) and call_attr(dv) == "get"
                              and isinstance(dv.func, ast.Attribute) and norm(dv.func.value) == d and dv.args and norm(dv.args[0]) == kx]
                    ok = from_max or any((a == f"{kx} in {d}" and pol) or (a == f"{kx} not in {d}" and not pol) for a, pol in facts) \
                        or any((a == f"{nm} is None" and not pol) or (a == f"{nm} is not None" and pol) or (a == nm and pol)
                               for nm in getdef for a, pol in facts)
                    if ok:
                        ctx.ok("R19f", inst)
                    else:
                        ctx.fail("R19f", f, x, inst, f"`{norm(x)}` raises KeyError unless `{kx} in {d}`, which nothing that dominates it "
                                 "establishes")
        # R19c
        for c in walk_no_nested(f.node):
            if isinstance(c, ast.Call) and call_attr(c) == "AnalyzerItem":
                kws = {k.arg for k in c.keywords}
                inst = f"{f.short}: AnalyzerItem({norm(c.args[0]) if c.args else ''}, ...)"
                if "length" in kws and "end" in kws or len(c.args) > 7:
                    ctx.fail("R19c", f, c, inst, "AnalyzerItem given both length and end: the constructor raises ValueError")
                else:
                    ctx.ok("R19c", inst, trivial=True)
    ctx.extra["has_tests"] = n_has
    ctx.floor("R19a", 4)
    ctx.floor("R19c", 25)
    ctx.floor("R19f", 8)
    # ---- R19e
    lint = prog.func("openpectus.lsp.lsp_analysis:lint")
    ctx.analysed(lint)
    g = cfg_of(lint)
    an = [n for n in g.nodes if any(call_attr(c) in ("analyze", "create_analysis_input", "parse_method") for c in n.calls())]
    if not an:
        raise AnchorError("lsp_analysis.lint: analysis calls not found")
    for n in an:
        hs = [g.nodes[d] for d, l in g.succ[n.id] if l == "exc" and g.nodes[d].kind == "except"]
        inst = f"lint: {n.text()[:70]} inside catch-all"
        if any(handler_is_catch_all(h.ast) for h in hs):
            reraises = any(g.search([h.id], lambda x: x.id == g.raise_exit.id) is not None for h in hs if handler_is_catch_all(h.ast))
            if reraises:
                ctx.fail("R19e", lint, n.ast, inst, "catch-all handler re-raises")
            else:
                ctx.ok("R19e", inst)
        else:
            ctx.fail("R19e", lint, n.ast, inst, "an exception of the analysis would escape lint and the editor loses all diagnostics")
