"""C19 - Method analysis never crashes and flags undefined names: check-then-use + must-report.

Scope: every method of the analyzer classes in lang/exec/analyzer.py (subclasses of
AnalyzerVisitorBase) and lsp_analysis.lint.
R19a check-then-use: for every branch on `C.has(K)` (C a TagValueCollection / TagCollection /
     CommandCollection - their get() raises on a missing key), no path from the "missing" edge reaches
     `C.get(K)` or `C[K]`.
R19b must-report: every path from that "missing" edge to the function exit passes
     add_item(AnalyzerItem(..., AnalyzerItemType.ERROR, ...)).
R19c no AnalyzerItem(...) call passes both `length=` and `end=` (the constructor raises).
R19d name lookups are guarded: every `C.has(K)` / `C.get(K)` is dominated by a blank-name test of K
     (has/get raise on None/blank) or is a justified entry; every `C.get(K)` is dominated by a
     successful has(K) (or is unreachable from its missing edge, R19a).
R19e lsp_analysis.lint wraps analysis in `except Exception` that still yields a diagnostic list.
R19f totality of the partial operations in analyzer methods: every `max(..)`/`min(..)` without `default=`
     is applied to a collection that is provably non-empty where it is evaluated - a truthiness test of
     the very expression the collection is built from (comprehension without filter) dominates it, or
     the call is the guarded arm of `.. if <collection> else ..`; every load/del `D[K]` of a dictionary
     attribute is dominated by `K in D` (or by `D.get(K)` having returned a value); a subscript with the
     result of `max(D, key=D.get)` on the same D is total.
R19g escape audit: for every method of the analyzer classes, the explicit raise / assert sites that can leave it (resolved callees,
     depth 3, handlers on the way honoured; next/max/min without fallback counted) are reduced to (exception type, raising function)
     pairs. Each pair is (i) the business of another rule of this property (collection lookups: R19a/R19d; AnalyzerItem: R19c),
     (ii) an assert whose condition is established by a dominating test in the same function, (iii) an entry of the justified table
     below with its reason, or (iv) a violation: one exception out of one analyzer ends SemanticCheckAnalyzer.analyze, lint() answers
     with a single generic 'Syntax error' on line 0 and every other diagnostic of the document is lost.
R19h the analysis input tolerates name clashes: lsp_analysis.build_commands (and build_tags) merge the uod's own definitions with the
     system definitions. A collection that *raises* on a second definition of a name (CommandCollection(iterable) adds with
     exist_ok=False) must not be constructed from that merge: a uod command named `Stop`, `Wait` or `Mark` is accepted by the
     engine and would end every analysis for that engine with one generic diagnostic.
Decides the lookup discipline for all method texts and tag/command sets; exceptions inside pint
are outside.
"""
from __future__ import annotations

import ast

from ..model import AnchorError, norm, walk_no_nested, parent_map
from ..util import cfg_of, call_attr, local_single_defs, expand_local, canon_text
from ..cfg import facts_at, handler_is_catch_all

EXPLANATION = __doc__
COLLECTIONS = {"openpectus.lang.exec.tags:TagValueCollection", "openpectus.lang.exec.tags:TagCollection",
               "openpectus.lang.exec.commands:CommandCollection"}
# (function short name, call text) -> reason; sites whose key cannot be blank for a reason outside the function
# The reason holds only for the listed sources of the key: the entry applies while every definition of the key local is one of
# them (the node parameter spelled `node`).
JUSTIFIED_BLANK = {
    ("CommandCheckAnalyzer.check_command_node", "self.commands.has(<local>)"):
        ("instruction_name is non-empty for every node class except ErrorInstructionNode, for which the whole non-blank "
         "line is adopted as name (blank lines parse to BlankNode) - confirmed by exhaustive probing of short lines",
         {"node.instruction_name", "node.line"}),
}


# (exception type, raising function) -> reason it cannot leave an analyzer
JUSTIFIED_ESCAPES = {
    ("TypeError", "NodeVisitorGeneric.visit"):
        "raised for a node class without visit_<Class> method or a visitor that is not a generator: every node class has a visitor in "
        "NodeVisitorGeneric (C02 R02a) and the analyzers override with generator methods only",
    ("AssertionError", "MacroNode._find_call_path_to"):
        "`assert self.children is not None`: NodeWithChildren.__init__ assigns a list and nothing assigns None",
}
# pairs that can only arise for a unit that is *in* the unit table: justified under the checked premise that are_comparable asks
# get_unit_quantity_name(unit) (ValueError for a unit outside the table, caught at the analyzers' call sites) before it calls
# get_compatible_unit_names(unit); the table's own consistency (every pint unit in it has a mapped dimensionality) is C21's business
TABLE_UNIT_ONLY = {("AssertionError", "get_compatible_unit_names"), ("NotImplementedError", "get_compatible_unit_names"),
                   ("Exception", "_get_pint_unit")}
OTHER_RULES = {("ValueError", "CommandCollection.has"): "R19a/R19d", ("ValueError", "CommandCollection.get"): "R19a/R19d",
               ("ValueError", "TagValueCollection.has"): "R19a/R19d", ("ValueError", "TagValueCollection.get"): "R19a/R19d",
               ("ValueError", "TagCollection.has"): "R19a/R19d", ("ValueError", "TagCollection.get"): "R19a/R19d",
               ("ValueError", "AnalyzerItem.__init__"): "R19c"}


def _r19g(ctx, prog, res, classes) -> None:
    from ..effects import Effects
    ctx.rule("R19g", "no explicit raise/assert reachable from an analyzer leaves it")
    eff = Effects(prog, res, partial_builtins=True)
    pairs: dict = {}
    for c in classes:
        for m in c.methods.values():
            for e in eff.escapes(m, 3):
                pairs.setdefault((e.exc, e.site.split(":")[0]), []).append((m, e))
    if len(pairs) < 5:
        raise AnchorError(f"R19g: only {len(pairs)} (exception, function) pairs found for the analyzers (floor 5): the escape audit collapsed")
    for (exc, fn), lst in sorted(pairs.items()):
        inst = f"analyzers: {exc} from {fn}"
        m, e = lst[0]
        if (exc, fn) in OTHER_RULES:
            ctx.ok("R19g", inst + f" (decided by {OTHER_RULES[(exc, fn)]})", trivial=True)
            continue
        if (exc, fn) in JUSTIFIED_ESCAPES:
            ctx.ok("R19g", inst, {"rule": "R19g", "justified": JUSTIFIED_ESCAPES[(exc, fn)]})
            continue
        if (exc, fn) in TABLE_UNIT_ONLY:
            ac = prog.func("openpectus.lang.exec.units:are_comparable")
            ga = cfg_of(ac)
            look = [n for n in ga.nodes if n.ast is not None and any(call_attr(c) == "get_unit_quantity_name" for c in n.calls())]
            comp = [n for n in ga.nodes if n.ast is not None and any(call_attr(c) == "get_compatible_unit_names" for c in n.calls())]
            via_ac = all("are_comparable" in (getattr(ee, "chain", None) or ()) or "are_comparable" in " ".join(getattr(ee, "chain", ()) or ()) for mm, ee in lst)
            if look and comp and all(any(ga.dominates(l, c_) for l in look) for c_ in comp) and via_ac:
                ctx.ok("R19g", inst + " (only for a unit of the unit table: are_comparable looks the unit up first)", trivial=True)
                continue
        if exc == "AssertionError":
            # asserts in the analyzer function itself: discharged by a dominating test of the same condition
            owner = next((mm for mm, ee in lst if mm.short == fn), None)
            if owner is not None:
                g = cfg_of(owner)
                asserts = [n for n in g.nodes if n.kind == "stmt" and isinstance(n.ast, ast.Assert)]
                undischarged = []
                for a in asserts:
                    want = {(t, pol) for t, pol in _atoms_of(a.ast.test)}
                    have = set(facts_at(g, a, local_single_defs(owner)))
                    # `not (A and B)` with A established gives `not B` (the early-return idiom `if A and B: report; return`)
                    for e_, pol_ in g.conditions_at(a):
                        if not pol_ and isinstance(e_, ast.BoolOp) and isinstance(e_.op, ast.And):
                            parts = [_atoms_of(v) for v in e_.values]
                            open_ = [p_ for p_ in parts if not (p_ and all(x in have for x in p_))]
                            if len(open_) == 1 and len(open_[0]) == 1:
                                t_, p_ = open_[0][0]
                                have.add((t_, not p_))
                    have |= {(_flip(t_), True) for t_, p_ in have if not p_ and _flip(t_)} | {(_flip(t_), False) for t_, p_ in have if p_ and _flip(t_)}
                    if not want or not all(w in have for w in want):
                        undischarged.append(a)
                if asserts and not undischarged:
                    ctx.ok("R19g", inst + " (each assert restates a dominating test)", {"rule": "R19g", "asserts": len(asserts)})
                    continue
                if undischarged:
                    ctx.fail("R19g", owner, undischarged[0].ast, inst, f"`{norm(undischarged[0].ast)[:70]}` is not established by a dominating test: "
                             "an AssertionError here ends the whole analysis and the editor loses every other diagnostic")
                    continue
        chain = " > ".join(e.chain) if getattr(e, "chain", None) else m.short
        ctx.fail("R19g", m, m.node, inst, f"a {exc} raised in {fn} can leave {m.short} (chain {chain}; site {e.site}): SemanticCheckAnalyzer.analyze "
                 "stops at the first exception, lint() answers with one generic 'Syntax error' on line 0 and all other diagnostics are lost - "
                 "e.g. a tag whose unit the analysis does not know (`with_measurement_unit('NTU', ...)` in the uod) makes every Watch/Alarm/"
                 "Simulate on it raise ValueError(\"Invalid unit: 'NTU'\")")


def _r19h(ctx, prog) -> None:
    ctx.rule("R19h", "the merged definitions are put into a collection that tolerates duplicate names")
    mod = prog.module("openpectus.lsp.lsp_analysis")
    n = 0
    for fname in ("build_commands", "build_tags"):
        f = mod.functions.get(fname)
        if f is None:
            raise AnchorError(f"lsp_analysis.{fname} missing")
        ctx.analysed(f)
        # does the function iterate a concatenation of two definition lists?
        merges = [lp for lp in walk_no_nested(f.node) if isinstance(lp, ast.For) and isinstance(lp.iter, ast.BinOp) and isinstance(lp.iter.op, ast.Add)]
        merges += [c for c in walk_no_nested(f.node) if isinstance(c, ast.ListComp) and any(
            isinstance(gn.iter, ast.BinOp) and isinstance(gn.iter.op, ast.Add) for gn in c.generators)]
        inst = f"lsp_analysis.{fname}: names defined twice do not raise"
        n += 1
        if not merges:
            ctx.ok("R19h", inst + " (no merge of two definition lists)", trivial=True)
            continue
        bad = None
        for c in walk_no_nested(f.node):
            if not (isinstance(c, ast.Call) and isinstance(c.func, ast.Name) and c.args):
                continue
            try:
                k = prog.cls(f"openpectus.lang.exec.commands:{c.func.id}") if "Command" in c.func.id else prog.cls(f"openpectus.lang.exec.tags:{c.func.id}")
            except Exception:
                continue
            init = k.methods.get("__init__")
            if init is None:
                continue
            # a constructor that adds its items with exist_ok False (positional or keyword constant)
            for a in walk_no_nested(init.node):
                if isinstance(a, ast.Call) and call_attr(a) == "add":
                    flag = next((kw.value for kw in a.keywords if kw.arg == "exist_ok"), a.args[1] if len(a.args) > 1 else None)
                    if isinstance(flag, ast.Constant) and flag.value is False:
                        bad = c
        if bad is None:
            ctx.ok("R19h", inst)
        else:
            ctx.fail("R19h", f, bad, inst, f"`{norm(bad)[:60]}` is built from the uod's definitions concatenated with the system definitions and its "
                     "constructor refuses a name it already has: `with_command(name=\"Stop\", ...)` is accepted by UodBuilder, "
                     "validate_configuration() and Engine(), but every lint for that engine then raises 'A command named Stop already exists' "
                     "and the editor gets a single generic diagnostic")
    if n < 2:
        raise AnchorError("R19h: build_commands / build_tags not both found")


def _flip(t: str):
    """`X is None` <-> `X is not None` (so that not(X is None) discharges `X is not None`)."""
    if t.endswith(" is not None"):
        return t[:-len(" is not None")] + " is None"
    if t.endswith(" is None"):
        return t[:-len(" is None")] + " is not None"
    return None


def _atoms_of(test: ast.AST):
    from ..cfg import atoms
    return list(atoms(test, True))


def _justified_blank(f, x) -> bool:
    from ..util import local_all_defs, norm_node
    ent = JUSTIFIED_BLANK.get((f.short, canon_text(x, f)))
    if ent is None:
        return False
    key = x.args[0]
    if not isinstance(key, ast.Name):
        return norm_node(key, f) in ent[1]
    defs = local_all_defs(f).get(key.id, [])
    return bool(defs) and all(norm_node(d, f) in ent[1] for d in defs)


def _is_error_report(n) -> bool:
    for c in n.calls():
        if call_attr(c) == "add_item" and c.args and isinstance(c.args[0], ast.Call) and call_attr(c.args[0]) == "AnalyzerItem":
            item = c.args[0]
            ty = item.args[3] if len(item.args) > 3 else None
            for k in item.keywords:
                if k.arg == "type":
                    ty = k.value
            if ty is not None and norm(ty).endswith("AnalyzerItemType.ERROR"):
                return True
    return False


def _has_tests(ctx, f, g):
    """[(test node, missing-edge label, collection text, key text)]"""
    out = []
    for n in g.nodes:
        if n.kind != "test":
            continue
        e = n.ast
        pol = True
        while isinstance(e, ast.UnaryOp) and isinstance(e.op, ast.Not):
            e = e.operand
            pol = not pol
        if isinstance(e, ast.Call) and call_attr(e) == "has" and isinstance(e.func, ast.Attribute) and len(e.args) == 1:
            cs = ctx.res.receiver_classes(e.func.value, f)
            if any(c.qualname in COLLECTIONS for c in cs):
                out.append((n, "F" if pol else "T", norm(e.func.value), norm(e.args[0])))
    return out


def _uses(n, coll: str, key: str) -> bool:
    for x in n.walk():
        if isinstance(x, ast.Call) and call_attr(x) == "get" and isinstance(x.func, ast.Attribute) \
                and norm(x.func.value) == coll and x.args and norm(x.args[0]) == key:
            return True
        if isinstance(x, ast.Subscript) and norm(x.value) == coll and norm(x.slice) == key and isinstance(x.ctx, ast.Load):
            return True
    return False


def run(ctx) -> None:
    prog = ctx.prog
    base = prog.cls("openpectus.lang.exec.analyzer:AnalyzerVisitorBase")
    classes = [base] + base.all_subclasses()
    for r, d in [("R19a", "no get()/[] on the missing edge of has()"), ("R19b", "missing edge always reports an ERROR item"),
                 ("R19c", "AnalyzerItem never gets both length and end"), ("R19d", "lookups guarded by blank test / has"),
                 ("R19e", "lint catches everything"), ("R19f", "max/min and dictionary subscripts are total")]:
        ctx.rule(r, d)
    funcs = [m for c in classes if not c.module.is_test for m in c.methods.values()]
    _r19h(ctx, prog)
    _r19g(ctx, prog, ctx.res, [c for c in classes if not c.module.is_test])
    # module-level helpers of the analyzer modules are part of the analysis code too (a partial operation moved into a
    # helper is still evaluated for every method text)
    seen_mods = []
    for c in classes:
        if not c.module.is_test and c.module not in seen_mods:
            seen_mods.append(c.module)
            funcs += list(c.module.functions.values())
    n_has = 0
    for f in funcs:
        g = cfg_of(f)
        tests = _has_tests(ctx, f, g)
        defs = local_single_defs(f)
        if tests:
            ctx.analysed(f)
        for (t, lab, coll, key) in tests:
            n_has += 1
            inst = f"{f.short}: missing edge of {coll}.has({key})"
            p = g.search([(t.id, lab)], lambda x: _uses(x, coll, key))
            if p is not None:
                ctx.fail("R19a", f, p[-1].ast, inst + f" reaches {coll}.get({key})",
                         f"on the branch where {coll}.has({key}) is false a path reaches `{p[-1].text()[:70]}`, which raises "
                         f"ValueError for a missing name: analysis of the whole method crashes instead of reporting the line", [t] + p)
            else:
                ctx.ok("R19a", inst)
            p = g.search([(t.id, lab)], lambda x: x.id == g.exit.id, blocked=_is_error_report, follow_exc=False)
            if p is not None:
                ctx.fail("R19b", f, t.ast, inst + " reports an error",
                         "a path from the undefined-name branch reaches the end of the function without add_item(AnalyzerItem(.. "
                         "AnalyzerItemType.ERROR ..)): the undefined name is silently accepted", [t] + p)
            else:
                ctx.ok("R19b", inst + " reports an error")
        # R19d: every has/get/[] on a collection
        for n in g.nodes:
            for x in n.walk():
                if not (isinstance(x, ast.Call) and call_attr(x) in ("has", "get") and isinstance(x.func, ast.Attribute) and len(x.args) >= 1):
                    continue
                cs = ctx.res.receiver_classes(x.func.value, f)
                if not any(c.qualname in COLLECTIONS for c in cs):
                    continue
                ctx.analysed(f)
                key = norm(x.args[0])
                coll = norm(x.func.value)
                facts = facts_at(g, n, defs)
                blank_guard = any((a in (f"{key} == ''", f"{key}.strip() == ''", f"{key} is None") and not pol) or
                                  (a == key and pol) or (a == f"{coll}.has({key})" and pol) for a, pol in facts)
                inst = f"{f.short}: {norm(x)} key not blank"
                if blank_guard:
                    ctx.ok("R19d", inst)
                elif _justified_blank(f, x):
                    ctx.ok("R19d", inst + " (justified)", trivial=True)
                else:
                    ctx.fail("R19d", f, x, inst, f"{coll}.{call_attr(x)}({key}) raises ValueError for a None/blank name and no "
                             "blank-name test dominates it")
                if call_attr(x) == "get":
                    has_true = any(a == f"{coll}.has({key})" and pol for a, pol in facts)
                    guarded_elsewhere = any(c2 == coll and k2 == key for (_, _, c2, k2) in tests)
                    inst = f"{f.short}: {norm(x)} after successful has()"
                    if has_true or guarded_elsewhere:
                        ctx.ok("R19d", inst)  # reachability from the missing edge is R19a's verdict
                    else:
                        ctx.fail("R19d", f, x, inst, f"{coll}.get({key}) raises for an undefined name and no has({key}) test exists")
        # R19f
        pmap = parent_map(f.node)
        for n in g.nodes:
            for x in n.walk():
                if isinstance(x, ast.Call) and isinstance(x.func, ast.Name) and x.func.id in ("max", "min") and len(x.args) == 1 \
                        and not any(k.arg == "default" for k in x.keywords):
                    ctx.analysed(f)
                    coll = x.args[0]
                    src = expand_local(coll, defs) if isinstance(coll, ast.Name) else coll
                    base_src = src
                    if isinstance(src, (ast.DictComp, ast.ListComp, ast.SetComp, ast.GeneratorExp)) and len(src.generators) == 1 \
                            and not src.generators[0].ifs:
                        base_src = src.generators[0].iter
                    if isinstance(base_src, ast.Call) and isinstance(base_src.func, ast.Attribute) \
                            and base_src.func.attr in ("keys", "values", "items") and not base_src.args:
                        base_src = base_src.func.value
                    facts = facts_at(g, n, defs)
                    want = {norm(coll), norm(base_src)}
                    ok = any((a in want and pol) or any(a in (f"len({w}) > 0", f"len({w}) != 0", f"len({w}) >= 1") and pol for w in want)
                             or any(a == f"len({w}) == 0" and not pol for w in want) for a, pol in facts)
                    par = pmap.get(id(x))
                    if isinstance(par, ast.IfExp) and par.body is x and norm(par.test) in want:
                        ok = True
                    inst = f"{f.short}: {norm(x)[:60]} on a non-empty collection"
                    if ok:
                        ctx.ok("R19f", inst, {"rule": "R19f", "site": inst, "collection": norm(base_src)})
                    else:
                        ctx.fail("R19f", f, x, inst, f"`{norm(x)[:50]}` raises ValueError when `{norm(base_src)[:70]}` is empty and nothing "
                                 "that dominates the call tests that expression for emptiness: analysis of the whole method crashes")
                if isinstance(x, ast.Subscript) and isinstance(x.ctx, (ast.Load, ast.Del)) and not isinstance(x.slice, ast.Slice) \
                        and isinstance(x.value, (ast.Name, ast.Attribute)) and f.name != "__init__":
                    d, kx = norm(x.value), norm(x.slice)
                    is_attr_dict = isinstance(x.value, ast.Attribute) and norm(x.value.value) == "self" and f.cls is not None and \
                        any("dict" in norm(c.inst_attr_ann.get(x.value.attr)) for c in f.cls.mro()
                            if c.inst_attr_ann.get(x.value.attr) is not None)
                    kdef = expand_local(x.slice, defs) if isinstance(x.slice, ast.Name) else None
                    if isinstance(kdef, ast.IfExp):
                        kdef = kdef.body
                    from_max = isinstance(kdef, ast.Call) and isinstance(kdef.func, ast.Name) and kdef.func.id in ("max", "min") \
                        and kdef.args and norm(kdef.args[0]) == d
                    if not (is_attr_dict or from_max):
                        continue
                    ctx.analysed(f)
                    inst = f"{f.short}: {norm(x)} key present"
                    facts = facts_at(g, n, defs)
                    getdef = [nm for nm, dv in defs.items() if isinstance(dv, ast.Call) and call_attr(dv) == "get"
                              and isinstance(dv.func, ast.Attribute) and norm(dv.func.value) == d and dv.args and norm(dv.args[0]) == kx]
                    ok = from_max or any((a == f"{kx} in {d}" and pol) or (a == f"{kx} not in {d}" and not pol) for a, pol in facts) \
                        or any((a == f"{nm} is None" and not pol) or (a == f"{nm} is not None" and pol) or (a == nm and pol)
                               for nm in getdef for a, pol in facts)
                    if ok:
                        ctx.ok("R19f", inst)
                    else:
                        ctx.fail("R19f", f, x, inst, f"`{norm(x)}` raises KeyError unless `{kx} in {d}`, which nothing that dominates it "
                                 "establishes")
        # R19c
        for c in walk_no_nested(f.node):
            if isinstance(c, ast.Call) and call_attr(c) == "AnalyzerItem":
                kws = {k.arg for k in c.keywords}
                inst = f"{f.short}: AnalyzerItem({norm(c.args[0]) if c.args else ''}, ...)"
                if "length" in kws and "end" in kws or len(c.args) > 7:
                    ctx.fail("R19c", f, c, inst, "AnalyzerItem given both length and end: the constructor raises ValueError")
                else:
                    ctx.ok("R19c", inst, trivial=True)
    ctx.extra["has_tests"] = n_has
    ctx.floor("R19a", 4)
    ctx.floor("R19c", 25)
    ctx.floor("R19f", 8)
    # ---- R19e
    lint = prog.func("openpectus.lsp.lsp_analysis:lint")
    ctx.analysed(lint)
    g = cfg_of(lint)
    an = [n for n in g.nodes if any(call_attr(c) in ("analyze", "create_analysis_input", "parse_method") for c in n.calls())]
    if not an:
        raise AnchorError("lsp_analysis.lint: analysis calls not found")
    for n in an:
        hs = [g.nodes[d] for d, l in g.succ[n.id] if l == "exc" and g.nodes[d].kind == "except"]
        inst = f"lint: {n.text()[:70]} inside catch-all"
        if any(handler_is_catch_all(h.ast) for h in hs):
            reraises = any(g.search([h.id], lambda x: x.id == g.raise_exit.id) is not None for h in hs if handler_is_catch_all(h.ast))
            if reraises:
                ctx.fail("R19e", lint, n.ast, inst, "catch-all handler re-raises")
            else:
                ctx.ok("R19e", inst)
        else:
            ctx.fail("R19e", lint, n.ast, inst, "an exception of the analysis would escape lint and the editor loses all diagnostics")
