"""C03 - Thresholds and Wait durations are honoured: two table/orientation clauses.

Timing relations between clocks per tick are numeric and out of static reach. Decided:
R03a duration table agreement: the unit list of REGEX_DURATION / REGEX_DURATION_OPTIONAL (read from the
     RegexNumber(units=[...]) calls) equals the unit set accepted by get_duration_end, whose branches
     fold to the multipliers {s: 1, min: 60, h: 3600} and which returns start + seconds; Wait (in
     visit_InterpreterCommandNode) and Pause/Hold (_run) obtain their end time only through
     get_duration_end(<start>, float(<group number>), <group number_unit>) with the groups of that regex,
     and wait in a loop `while <tick time> < <end time>`.
R03b threshold orientation: in _is_awaiting_threshold the comparison handed to units.compare_values is
     ('<', clock value, clock unit, threshold value, base unit), the clock operand flows from the tags
     returned by base_unit_provider.get_tags(base unit) selected by the Block tag (block tag inside a
     block, scope tag otherwise), the threshold operand from node.threshold, and the function returns
     True exactly when that comparison is true; BaseUnitProvider stores (main, block) in the order
     get_tags' consumers unpack, and the time units are registered with (Scope Time, Block Time).
R03c start of a timed wait: the start operand of get_duration_end is the clock the waiting loop compares against (the tick
     time), read when the instruction is first visited - directly (Pause/Hold), or through an attribute of the node (Wait:
     node.wait_start_time) whose every write in the interpreter has that clock as its only source (helper returns are
     followed) and which the node's reset_runtime_state clears, so a second invocation (macro call, Alarm body) counts anew.
R03d scope pairing: emit_on_scope_activate for a Watch/Alarm is paired with emit_on_scope_end on both ways its handler can end -
     at the end of the body (in the visitor) and when the handler is aborted with its block (_abort_block_interrupts): a scope
     that is never ended stays on top of Scope Time's stack, and every later root-level threshold is compared with the dead
     Watch's timer.
If an anchor is rewritten in a shape the extractor does not recognise the check exits 2, not 1.
Does not decide "no later than the first tick at which ...", the 0.1 s correction, or pauses.
"""
from __future__ import annotations

import ast

from ..model import AnchorError, norm, walk_no_nested
from ..util import cfg_of, call_attr, local_single_defs, expand_local, canon_text, assigned_attrs
from ..cfg import facts_at

EXPLANATION = __doc__


def _fold_int(e):
    if isinstance(e, ast.Constant) and isinstance(e.value, (int, float)):
        return e.value
    if isinstance(e, ast.BinOp) and isinstance(e.op, ast.Mult):
        l, r = _fold_int(e.left), _fold_int(e.right)
        if l is not None and r is not None:
            return l * r
        return l if r is None and isinstance(e.right, ast.Name) else (r if l is None and isinstance(e.left, ast.Name) else None)
    if isinstance(e, ast.Name):
        return None
    return None


def _const(e):
    if isinstance(e, ast.Constant) and isinstance(e.value, (int, float)):
        return e.value
    if isinstance(e, ast.BinOp) and isinstance(e.op, ast.Mult):
        l, r = _const(e.left), _const(e.right)
        if l is not None and r is not None:
            return l * r
    return None


def _multiplier(e, var="time"):
    """value of e / var when e is a product of constants and exactly one occurrence of var."""
    if isinstance(e, ast.Name) and e.id == var:
        return 1
    if isinstance(e, ast.BinOp) and isinstance(e.op, ast.Mult):
        cl, cr = _const(e.left), _const(e.right)
        if cl is not None:
            r = _multiplier(e.right, var)
            return None if r is None else cl * r
        if cr is not None:
            l = _multiplier(e.left, var)
            return None if l is None else l * cr
    return None


def run(ctx) -> None:
    _run_main(ctx)
    _r03d(ctx)


def _run_main(ctx) -> None:
    prog = ctx.prog
    ctx.rule("R03a", "duration regex units == get_duration_end units with multipliers 1/60/3600; all waits use it")
    ctx.rule("R03c", "a timed wait starts counting at the tick time of its first visit")
    ctx.rule("R03b", "threshold comparison orientation and clock selection")
    rx = prog.module("openpectus.lang.exec.regex")
    units_by_const = {}
    for cname in ("REGEX_DURATION", "REGEX_DURATION_OPTIONAL"):
        c = rx.constants.get(cname)
        if not (isinstance(c, ast.Call) and call_attr(c) in ("RegexNumber", "RegexNumberOptional")):
            raise AnchorError(f"{cname} is not a RegexNumber(...) call")
        u = [k.value for k in c.keywords if k.arg == "units"] or c.args[:1]
        if not u or not isinstance(u[0], ast.List) or not all(isinstance(e, ast.Constant) for e in u[0].elts):
            raise AnchorError(f"{cname}: literal unit list not found")
        units_by_const[cname] = [e.value for e in u[0].elts]
        nn = [k.value for k in c.keywords if k.arg == "non_negative"]
        if nn and isinstance(nn[0], ast.Constant) and nn[0].value is True:
            ctx.ok("R03a", f"{cname}: durations are non-negative")
        else:
            ctx.fail("R03a", None, c, f"{cname}: durations are non-negative", "negative durations accepted", function=rx.name, file=rx.relpath)
    gde = prog.func("openpectus.lang.exec.regex:get_duration_end")
    ctx.analysed(gde)
    g = cfg_of(gde)
    params = [a.arg for a in gde.node.args.args]
    if len(params) != 3:
        raise AnchorError("get_duration_end signature changed")
    start_p, time_p, unit_p = params
    accepted = None
    for n in g.nodes:
        if n.kind == "test" and isinstance(n.ast, ast.Compare) and isinstance(n.ast.ops[0], ast.NotIn) and norm(n.ast.left) == unit_p \
                and isinstance(n.ast.comparators[0], (ast.List, ast.Tuple, ast.Set)):
            accepted = [e.value for e in n.ast.comparators[0].elts if isinstance(e, ast.Constant)]
            raises = g.search([(n.id, "T")], lambda x: x.id == g.raise_exit.id) is not None
            if not raises:
                accepted = None
    if accepted is None:
        raise AnchorError("get_duration_end: unit validation `if unit not in [...]: raise` not recognised")
    mult = {}
    sec_var = None
    for n in g.nodes:
        if n.kind == "stmt" and isinstance(n.ast, ast.Assign) and isinstance(n.ast.targets[0], ast.Name):
            m = _multiplier(n.ast.value, time_p)
            if m is None:
                continue
            sec_var = n.ast.targets[0].id
            conds = [(norm(c), pol) for c, pol in g.conditions_at(n)]
            unit = None
            for c, pol in conds:
                if pol and c.startswith(f"{unit_p} == "):
                    unit = c.split("== ")[1].strip("'\"")
            mult[unit] = m
    default = mult.pop(None, None)
    table = {u: mult.get(u, default) for u in accepted}
    want = {"s": 1, "min": 60, "h": 3600}
    inst = "get_duration_end: multipliers s=1, min=60, h=3600"
    if table == want:
        ctx.ok("R03a", inst, {"rule": "R03a", "extracted": table})
    else:
        ctx.fail("R03a", gde, gde.node, inst, f"extracted unit -> seconds table is {table}: a duration in that unit waits the wrong time")
    rets = [n for n in walk_no_nested(gde.node) if isinstance(n, ast.Return) and n.value is not None]
    if len(rets) == 1 and norm(rets[0].value) in (f"{start_p} + {sec_var}", f"{sec_var} + {start_p}"):
        ctx.ok("R03a", "get_duration_end returns start + seconds")
    else:
        ctx.fail("R03a", gde, gde.node, "get_duration_end returns start + seconds", f"returns {[norm(r.value) for r in rets]}")
    for cname, u in units_by_const.items():
        inst = f"{cname} units == units accepted by get_duration_end"
        if sorted(u) == sorted(accepted):
            ctx.ok("R03a", inst)
        else:
            ctx.fail("R03a", gde, gde.node, inst, f"regex accepts {u} but get_duration_end accepts {accepted}")
    # users
    users = [("openpectus.lang.exec.pinterpreter:PInterpreter.visit_InterpreterCommandNode", "REGEX_DURATION"),
             ("openpectus.engine.internal_commands_impl:PauseEngineCommand._run", "REGEX_DURATION_OPTIONAL"),
             ("openpectus.engine.internal_commands_impl:HoldEngineCommand._run", "REGEX_DURATION_OPTIONAL")]
    for q, const in users:
        f = prog.func(q)
        ctx.analysed(f)
        defs = local_single_defs(f)
        calls = [c for c in walk_no_nested(f.node) if isinstance(c, ast.Call) and call_attr(c) == "get_duration_end"]
        if len(calls) != 1:
            raise AnchorError(f"{f.short}: expected one get_duration_end call")
        c = calls[0]
        a_time = norm(expand_local(c.args[1].args[0] if isinstance(c.args[1], ast.Call) and call_attr(c.args[1]) == "float" and c.args[1].args
                                   else c.args[1], defs))
        a_unit = norm(expand_local(c.args[2], defs))
        inst = f"{f.short}: get_duration_end(start, float(group 'number'), group 'number_unit')"
        if "'number'" in a_time.replace('"', "'") and "'number_unit'" in a_unit.replace('"', "'"):
            ctx.ok("R03a", inst)
        else:
            ctx.fail("R03a", f, c, inst, f"duration arguments are `{a_time}`, `{a_unit}`: not the number/unit groups of the duration regex")
        # regex constant in use
        if f.cls is not None and f.name == "_run":
            decos = [norm(d) for d in f.cls.node.decorator_list]
            used = any(const in d for d in decos)
        else:
            used = const in norm(f.node)
        if used:
            ctx.ok("R03a", f"{f.short}: argument parsed with {const}")
        else:
            ctx.fail("R03a", f, f.node, f"{f.short}: argument parsed with {const}", "a different pattern produces the duration groups")
        # waiting loop compares tick time with the end time
        endvar = None
        for n in walk_no_nested(f.node):
            if isinstance(n, (ast.Assign, ast.AnnAssign)) and getattr(n, "value", None) is c:
                endvar = norm(n.targets[0] if isinstance(n, ast.Assign) else n.target)
        loops = [n for n in walk_no_nested(f.node) if isinstance(n, ast.While) and endvar and endvar in norm(n.test)]
        inst = f"{f.short}: waits while tick time < {endvar}"
        good = False
        for lp in loops:
            for x in ast.walk(lp.test):
                if isinstance(x, ast.Compare) and isinstance(x.ops[0], ast.Lt) and "_tick_time" in norm(x.left) and norm(x.comparators[0]) == endvar:
                    good = True
        if good:
            ctx.ok("R03a", inst)
        else:
            ctx.fail("R03a", f, c, inst, "the wait does not last until the computed end time")
        # R03c: the start operand is the tick time of the first visit (the clock the waiting loop compares against)
        clock = None
        for lp in loops:
            for x in ast.walk(lp.test):
                if isinstance(x, ast.Compare) and isinstance(x.ops[0], ast.Lt) and norm(x.comparators[0]) == endvar:
                    clock = canon_text(x.left, f)
        if clock is not None:
            _check_wait_start(ctx, f, c, clock)
    # ---- R03b
    f = prog.func("openpectus.lang.exec.pinterpreter:PInterpreter._is_awaiting_threshold")
    ctx.analysed(f)
    g = cfg_of(f)
    defs = local_single_defs(f)
    cmp_nodes = [n for n in g.nodes if any(call_attr(c) == "compare_values" for c in n.calls())]
    if len(cmp_nodes) != 1:
        raise AnchorError("_is_awaiting_threshold: compare_values call not found")
    c = [x for x in cmp_nodes[0].calls() if call_attr(x) == "compare_values"][0]
    if len(c.args) != 5:
        raise AnchorError("_is_awaiting_threshold: compare_values arity changed")
    op, a_val, a_unit, t_val, t_unit = c.args
    roles = _threshold_roles(f)
    par = f.node.args.args[1].arg

    def unwrap(e):
        e = expand_local(e, defs)
        while isinstance(e, ast.Call) and call_attr(e) == "str" and len(e.args) == 1:
            e = expand_local(e.args[0], defs)
        return e

    def clock_sel(e, attr_kind):
        """('block'|'scope' when in block, 'block'|'scope' otherwise) for `X.<kind> if INBLOCK else Y.<kind>`; None if another shape."""
        e = unwrap(e)
        if not isinstance(e, ast.IfExp):
            return None
        test, flip = e.test, False
        if isinstance(test, ast.UnaryOp) and isinstance(test.op, ast.Not):
            test, flip = test.operand, True
        if not (isinstance(test, ast.Name) and roles.get(test.id) == "inblock"):
            return None

        def role_of(x):
            if attr_kind == "value" and isinstance(x, ast.Call) and call_attr(x) in ("get_value", "as_number", "as_float") \
                    and isinstance(x.func.value, ast.Name):
                return roles.get(x.func.value.id)
            if attr_kind == "unit" and isinstance(x, ast.Attribute) and x.attr == "unit" and isinstance(x.value, ast.Name):
                return roles.get(x.value.id)
            return None
        rb, ro = role_of(e.body), role_of(e.orelse)
        if rb not in ("block", "scope") or ro not in ("block", "scope"):
            return None
        return (ro, rb) if flip else (rb, ro)

    def is_threshold(e):
        e = unwrap(e)
        return isinstance(e, ast.Attribute) and e.attr == "threshold" and isinstance(e.value, ast.Name) and e.value.id == par

    def is_base(e):
        e2 = e
        return isinstance(e2, ast.Name) and roles.get(e2.id) == "base" or (
            isinstance(expand_local(e2, defs), ast.Name) and roles.get(expand_local(e2, defs).id) == "base")

    call_txt = f"compare_values({', '.join(norm(x) for x in c.args)})"
    # operator
    inst = "_is_awaiting_threshold: operator is '<'"
    if not isinstance(op, ast.Constant):
        raise AnchorError("_is_awaiting_threshold: comparison operator is not a literal")
    if op.value == "<":
        ctx.ok("R03b", inst)
    else:
        ctx.fail("R03b", f, c, inst, f"{call_txt}: the wait lasts while clock {op.value} threshold, not while clock < threshold "
                 "(the instruction starts a tick early or late, or never)")
    sel_v, sel_u = clock_sel(a_val, "value"), clock_sel(a_unit, "unit")
    swapped = sel_v is None and is_threshold(a_val) and clock_sel(t_val, "value") is not None
    if swapped:
        ctx.fail("R03b", f, c, "_is_awaiting_threshold: first operand is the clock value (block tag inside a block, scope tag otherwise)",
                 f"{call_txt}: operands swapped - the comparison is threshold < clock")
    elif sel_v is None or sel_u is None:
        raise AnchorError(f"_is_awaiting_threshold: clock operand of {call_txt} is not `<block clock>.get_value() if <in block> else "
                          "<scope clock>.get_value()` over the tags returned by get_tags(base unit) - shape not understood")
    else:
        inst = "_is_awaiting_threshold: first operand is the clock value (block tag inside a block, scope tag otherwise)"
        if sel_v == ("block", "scope"):
            ctx.ok("R03b", inst)
        else:
            ctx.fail("R03b", f, c, inst, f"{call_txt}: inside a block the {sel_v[0]} clock is compared and outside the {sel_v[1]} clock: "
                     "thresholds are measured on the wrong clock")
        inst = "_is_awaiting_threshold: clock unit follows the same selection"
        if sel_u == sel_v:
            ctx.ok("R03b", inst)
        else:
            ctx.fail("R03b", f, c, inst, f"{call_txt}: the clock value is selected as {sel_v} but its unit as {sel_u}")
    # threshold operand
    inst = "_is_awaiting_threshold: second operand is node.threshold"
    tv = unwrap(t_val)
    if swapped:
        pass
    elif is_threshold(t_val):
        ctx.ok("R03b", inst)
    else:
        helper = _helper_behind(f, t_val, prog)
        if helper is not None:
            ctx.analysed(helper)
            bad = _incomplete_memo_key(helper)
            if bad:
                cache, key, missing = bad
                ctx.fail("R03b", helper, helper.node, inst, f"the threshold operand comes from {helper.short}, which memoises its result in "
                         f"self.{cache} under the key `{key}` although the result also depends on {missing}: after `Base:` changes "
                         "(a macro or alarm body run again, a Watch changing Base while a node waits) the node is compared with a "
                         "threshold converted for the old base unit")
            else:
                raise AnchorError(f"_is_awaiting_threshold: threshold operand comes from {helper.short} - conversion helper not understood")
        else:
            raise AnchorError(f"_is_awaiting_threshold: threshold operand `{norm(tv)}` is not {par}.threshold - shape not understood")
    inst = "_is_awaiting_threshold: threshold unit is the base unit"
    if swapped:
        pass
    elif is_base(t_unit):
        ctx.ok("R03b", inst)
    elif clock_sel(t_unit, "unit") is not None or (
            isinstance(expand_local(t_unit, defs), ast.Attribute) and expand_local(t_unit, defs).attr == "unit"
            and isinstance(expand_local(t_unit, defs).value, ast.Name) and roles.get(expand_local(t_unit, defs).value.id) in ("scope", "block")):
        ctx.fail("R03b", f, c, inst, f"{call_txt}: the threshold is interpreted in the clock tag's unit, not in the current base unit")
    elif _helper_behind(f, t_unit, prog) is not None:
        pass   # decided together with the value operand above
    else:
        raise AnchorError(f"_is_awaiting_threshold: threshold unit `{norm(expand_local(t_unit, defs))}` is not the base unit local - shape not understood")
    resvar = None
    if isinstance(cmp_nodes[0].ast, ast.Assign):
        resvar = norm(cmp_nodes[0].ast.targets[0])
    rt = [n for n in g.nodes if n.kind == "stmt" and isinstance(n.ast, ast.Return) and isinstance(n.ast.value, ast.Constant) and n.ast.value.value is True]
    inst = "_is_awaiting_threshold: returns True exactly when clock < threshold"
    if resvar and len(rt) == 1 and (resvar, True) in facts_at(g, rt[0]):
        ctx.ok("R03b", inst)
    else:
        ctx.fail("R03b", f, f.node, inst, "the result of the comparison does not decide the wait")
    inb = [k for k, v in roles.items() if v == "inblock"]
    if inb:
        ctx.ok("R03b", "_is_awaiting_threshold: inside a block <=> Block tag is not None/empty")
    else:
        raise AnchorError("_is_awaiting_threshold: `<in block> = <Block tag>.get_value() not in [None, '']` not found")
    # (the unpack order of get_tags is role-defining: element 0 is the scope clock, element 1 the block clock - see _threshold_roles;
    #  that this matches what BaseUnitProvider stores and what UodBuilder registers is checked next)
    bup = prog.cls("openpectus.lang.exec.base_unit:BaseUnitProvider")
    st = bup.methods.get("set")
    ps = [a.arg for a in st.node.args.args[1:]]
    stores = [n for n in walk_no_nested(st.node) if isinstance(n, ast.Assign) and isinstance(n.value, ast.Tuple)]
    if stores and [norm(e) for e in stores[0].value.elts] == ps[1:3]:
        ctx.ok("R03b", "BaseUnitProvider.set stores (main tag, block tag) in parameter order")
    else:
        ctx.fail("R03b", st, st.node, "BaseUnitProvider.set stores (main tag, block tag) in parameter order", "tuple order differs from parameters")
    ub = prog.func("openpectus.lang.exec.uod:UodBuilder.__init__")
    n_reg = 0
    for cc in walk_no_nested(ub.node):
        if isinstance(cc, ast.Call) and call_attr(cc) == "set" and "base_unit_provider" in norm(cc.func) and len(cc.args) == 3:
            n_reg += 1
            inst = f"UodBuilder: time unit {norm(cc.args[0])} registered with (Scope Time, Block Time)"
            if norm(cc.args[1]).endswith("SCOPE_TIME") and norm(cc.args[2]).endswith("BLOCK_TIME") and isinstance(cc.args[0], ast.Constant) \
                    and cc.args[0].value in accepted:
                ctx.ok("R03b", inst)
            else:
                ctx.fail("R03b", ub, cc, inst, "scope and block clocks swapped or wrong unit")
    if n_reg < 3:
        raise AnchorError("UodBuilder.__init__: registrations of s/min/h not found")


def _threshold_roles(f) -> dict:
    """name -> role in _is_awaiting_threshold: 'base' (current base unit), 'scope'/'block' (clock tag objects; positional from
    get_tags(base): element 0 scope, element 1 block), 'inblock' (Block tag set)."""
    roles: dict[str, str] = {}
    assigns = sorted((n for n in ast.walk(f.node) if isinstance(n, ast.Assign) and len(n.targets) == 1), key=lambda n: (n.lineno, n.col_offset))
    for n in assigns:
        t, v = n.targets[0], n.value
        if isinstance(t, ast.Name):
            txt = norm(v)
            if "SystemTagName.BASE" in txt and txt.endswith(".get_value()"):
                roles[t.id] = "base"
            elif isinstance(v, ast.Name) and v.id in roles:
                roles[t.id] = roles[v.id]
            elif isinstance(v, ast.Compare) and len(v.ops) == 1 and isinstance(v.ops[0], ast.NotIn) and "SystemTagName.BLOCK" in norm(v.left) \
                    and norm(v.left).endswith(".get_value()") and isinstance(v.comparators[0], (ast.List, ast.Tuple)) \
                    and sorted(repr(getattr(e, "value", "?")) for e in v.comparators[0].elts) == sorted([repr(None), repr("")]):
                roles[t.id] = "inblock"
            elif isinstance(v, ast.Subscript) and isinstance(v.slice, ast.Name) and roles.get(v.slice.id) in ("scope-name", "block-name") \
                    and norm(v.value).endswith("tags"):
                roles[t.id] = roles[v.slice.id].split("-")[0]
        elif isinstance(t, ast.Tuple) and len(t.elts) == 2 and all(isinstance(e, ast.Name) for e in t.elts):
            if isinstance(v, ast.Call) and call_attr(v) == "get_tags" and v.args and isinstance(v.args[0], ast.Name) \
                    and roles.get(v.args[0].id) == "base":
                roles[t.elts[0].id], roles[t.elts[1].id] = "scope-name", "block-name"
            elif isinstance(v, ast.Tuple) and len(v.elts) == 2:
                new = []
                for e in v.elts:
                    r = None
                    if isinstance(e, ast.Subscript) and isinstance(e.slice, ast.Name) and roles.get(e.slice.id) in ("scope-name", "block-name") \
                            and norm(e.value).endswith("tags"):
                        r = roles[e.slice.id].split("-")[0]
                    new.append(r)
                for te, r in zip(t.elts, new):
                    if r:
                        roles[te.id] = r
    return roles


def _helper_behind(f, expr, prog):
    """If expr is a local bound (possibly by tuple unpacking) to the result of self.<helper>(...), return that helper."""
    if not isinstance(expr, ast.Name):
        return None
    for n in ast.walk(f.node):
        if isinstance(n, ast.Assign) and len(n.targets) == 1:
            t = n.targets[0]
            names = [e.id for e in t.elts if isinstance(e, ast.Name)] if isinstance(t, ast.Tuple) else ([t.id] if isinstance(t, ast.Name) else [])
            if expr.id in names and isinstance(n.value, ast.Call) and isinstance(n.value.func, ast.Attribute) \
                    and isinstance(n.value.func.value, ast.Name) and n.value.func.value.id == "self" and f.cls is not None:
                return f.cls.find_method(n.value.func.attr)
    return None


def _incomplete_memo_key(fn):
    """(cache attr, key text, missing inputs) if fn returns a value memoised in a dict attribute of self under a key that does not
    mention every parameter the function reads; None otherwise."""
    stores = [n for n in ast.walk(fn.node) if isinstance(n, ast.Assign) and len(n.targets) == 1 and isinstance(n.targets[0], ast.Subscript)
              and isinstance(n.targets[0].value, ast.Attribute) and isinstance(n.targets[0].value.value, ast.Name)
              and n.targets[0].value.value.id == "self"]
    for st in stores:
        cache = st.targets[0].value.attr
        key = st.targets[0].slice
        reads = [n for n in ast.walk(fn.node) if isinstance(n, ast.Call) and call_attr(n) == "get" and norm(n.func.value) == f"self.{cache}"] + \
                [n for n in ast.walk(fn.node) if isinstance(n, ast.Subscript) and isinstance(n.ctx, ast.Load) and norm(n.value) == f"self.{cache}"]
        if not reads:
            continue
        key_names = {x.id for x in ast.walk(key) if isinstance(x, ast.Name)}
        params = [a.arg for a in fn.node.args.args[1:]]
        used = set()
        for n in ast.walk(fn.node):
            if isinstance(n, ast.Name) and n.id in params:
                used.add(n.id)
        # names only used inside logging calls do not influence the result
        logged_only = set()
        for pn in used:
            occ = [n for n in ast.walk(fn.node) if isinstance(n, ast.Name) and n.id == pn]
            inlog = [n for c in ast.walk(fn.node) if isinstance(c, ast.Call) and norm(c.func).split(".")[0] in ("logger", "frontend_logger")
                     for n in ast.walk(c) if isinstance(n, ast.Name) and n.id == pn]
            if occ and len(occ) == len(inlog):
                logged_only.add(pn)
        missing = sorted(used - key_names - logged_only)
        if missing:
            return cache, norm(key), ", ".join(missing)
    return None


def _leaves(ctx, e, f, depth=0):
    """Source expressions of a value: locals expanded, IfExp branches split, helper calls replaced by what they return."""
    e = expand_local(e, local_single_defs(f))
    if isinstance(e, ast.IfExp):
        return _leaves(ctx, e.body, f, depth) + _leaves(ctx, e.orelse, f, depth)
    if isinstance(e, ast.Call) and depth < 3:
        ts = ctx.res.resolve_call(e, f, cha=False)
        if ts:
            out = []
            for t in ts:
                rets = [n.value for n in walk_no_nested(t.node) if isinstance(n, ast.Return) and n.value is not None]
                if not rets:
                    out.append((norm(e), f))
                for r in rets:
                    out += _leaves(ctx, r, t, depth + 1)
            return out
    return [(canon_text(e, f), f)]


def _check_wait_start(ctx, f, call, clock):
    start = call.args[0]
    inst = f"{f.short}: the wait counts from the tick time of its first visit"
    npar = f.node.args.args[1].arg if len(f.node.args.args) > 1 else None
    if isinstance(start, ast.Attribute) and isinstance(start.value, ast.Name) and start.value.id == npar:
        attr = start.attr
        writes = [(t, v, st) for t, v, st in assigned_attrs(f.node) if t.attr == attr]
        if not writes:
            raise AnchorError(f"{f.short}: no write of node.{attr} found")
        bad = []
        for t, v, st in writes:
            if isinstance(v, ast.Constant) and v.value is None:
                continue
            for txt, fn in _leaves(ctx, v, f):
                if txt != clock:
                    bad.append((st, txt, fn))
        if bad:
            st, txt, fn = bad[0]
            ctx.fail("R03c", f, st, inst, f"node.{attr} can be taken from `{txt}` ({fn.short}) instead of the tick time of this visit: when the "
                     "same instruction runs again (macro called twice, Alarm body) the wait is measured from an earlier time and ends early")
        else:
            ctx.ok("R03c", inst, {"rule": "R03c", "start": f"node.{attr}", "clock": clock})
        # the node's own reset clears the start, so a second invocation counts anew
        owners = [c for m in ctx.prog.iter_modules() for c in m.classes.values() if attr in c.inst_attr_vals and "model" in m.name]
        inst2 = f"{attr} is cleared by reset_runtime_state"
        for c in owners:
            rs = c.methods.get("reset_runtime_state")
            if rs is not None and any(t.attr == attr and isinstance(v, ast.Constant) and v.value is None for t, v, st in assigned_attrs(rs.node)):
                ctx.ok("R03c", inst2)
            else:
                ctx.fail("R03c", rs or f, (rs.node if rs else f.node), inst2, "the start time of the previous invocation survives the reset: the next "
                         "invocation of the same Wait ends early")
        if not owners:
            raise AnchorError(f"class owning {attr} not found")
    else:
        txt = canon_text(start, f)
        if txt == clock:
            ctx.ok("R03c", inst, {"rule": "R03c", "start": txt})
        else:
            ctx.fail("R03c", f, call, inst, f"the start operand is `{txt}`, not the clock `{clock}` the waiting loop compares against")


def _r03d(ctx):
    ctx.rule("R03d", "an activated Watch/Alarm scope is ended when its handler is aborted")
    prog = ctx.prog
    pi = prog.cls("openpectus.lang.exec.pinterpreter:PInterpreter")
    ab = pi.methods.get("_abort_block_interrupts")
    if ab is None:
        raise AnchorError("PInterpreter._abort_block_interrupts missing")
    ctx.analysed(ab)
    acts = [v for v in ("visit_WatchNode", "visit_AlarmNode") if any(
        isinstance(c, ast.Call) and call_attr(c) == "emit_on_scope_activate" for c in walk_no_nested(pi.methods[v].node))]
    if not acts:
        raise AnchorError("no visitor emits on_scope_activate")
    g = cfg_of(ab)
    unreg = [n for n in g.nodes if n.ast is not None and any(call_attr(c) == "_unregister_interrupt" for c in n.calls())]
    ends = [n for n in g.nodes if n.ast is not None and any(call_attr(c) == "emit_on_scope_end" for c in n.calls())]
    inst = "_abort_block_interrupts: an aborted handler whose scope was activated emits on_scope_end"
    if unreg and ends and all(any(g.search([u.id], lambda n, e=e: n.id == e.id, follow_exc=False) is not None for e in ends) for u in unreg):
        ctx.ok("R03d", inst)
    else:
        ctx.fail("R03d", ab, (unreg[0].ast if unreg else ab.node), inst, f"{', '.join(acts)} activate a scope, but an interrupt aborted with its block is only "
                 "unregistered: its scope stays on Scope Time's stack for the rest of the run, so a root-level threshold after the block is "
                 "compared with the dead Watch's timer and starts late")
