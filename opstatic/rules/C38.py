"""C38 - Distinct engines never share an engine id: string-alphabet injectivity + takeover guard.

R38a In Aggregator.create_engine_id the id must be an injective encoding of the pair
     (computer_name, uod_name). Recognised shapes: enc(a) SEP enc(b) - injective iff SEP contains a
     character outside the encoder's output alphabet; enc(a SEP b) - injective only if SEP cannot occur
     in a or b (never true for free-text names). Encoder table: urllib.parse.quote(s, safe) emits only
     [A-Za-z0-9_.~-], '%', and the characters in `safe`. Both fields must take part.
R38b In handle_RegisterEngineMsg, register_engine_data and every success reply are reachable only on
     the false edge of dispatcher.has_connected_engine_id(engine_id); has_connected_engine_id tests
     membership in the channel map; the dispatcher closes a second channel for a connected id before
     it writes the channel map, and the channel map entry is deleted on disconnect.
Decides the encoding shape and guard dominance; not the behaviour of urllib beyond the stated table.
R38c only the owner's disconnect releases an id: on_client_disconnect may remove the entry of an engine id only if that id's
     *mapped channel is the disconnecting channel* - established either by the scan `for id, ch in map.items(): if ch ==
     channel` or through a reverse (channel -> id) map, in which case every insertion into that reverse map must be
     dominated by the same "id not connected yet" guard as the insertion into the forward map (otherwise the disconnect
     of a *rejected* duplicate connection evicts the connected owner, and the id can be registered a second time).
R38d an open engine connection is a recorded one: every normal exit of _on_delayed_client_connect either has written the channel
     into the channel map or has called close() on the channel (must-pass-through on the CFG, the handler of a failing id
     handshake included) - an open but unrecorded connection keeps being served while has_connected_engine_id says no, so the
     next registration of that engine id succeeds and two engines share it.
R38e a successful registration reserves the id until its websocket arrives: the success path of handle_RegisterEngineMsg records
     the issued id somewhere has_connected_engine_id (or the guard) can see. Today nothing is recorded between the POST and
     the end of the websocket's id handshake (open known finding).
"""
from __future__ import annotations

import ast
import re

from ..model import AnchorError, norm, walk_no_nested
from ..util import cfg_of, node_calls, call_attr, kill_of_container_key
from ..cfg import facts_at

EXPLANATION = __doc__
QUOTE_ALPHABET = set("ABCDEFGHIJKLMNOPQRSTUVWXYZabcdefghijklmnopqrstuvwxyz0123456789_.-~%")


def _flatten_add(e: ast.AST) -> list[ast.AST]:
    if isinstance(e, ast.BinOp) and isinstance(e.op, ast.Add):
        return _flatten_add(e.left) + _flatten_add(e.right)
    if isinstance(e, ast.JoinedStr):
        out = []
        for v in e.values:
            out.append(v.value if isinstance(v, ast.FormattedValue) else v)
        return out
    return [e]


def _is_quote(e: ast.AST) -> tuple[ast.AST, str] | None:
    if isinstance(e, ast.Call) and call_attr(e) in ("quote", "quote_plus") and e.args:
        safe = "/"
        if len(e.args) > 1 and isinstance(e.args[1], ast.Constant) and isinstance(e.args[1].value, str):
            safe = e.args[1].value
        for k in e.keywords:
            if k.arg == "safe" and isinstance(k.value, ast.Constant):
                safe = k.value.value
        return e.args[0], safe
    return None


def _fields(e: ast.AST) -> set[str]:
    return {x.attr for x in ast.walk(e) if isinstance(x, ast.Attribute) and x.attr in ("computer_name", "uod_name")}


def run(ctx) -> None:
    prog = ctx.prog
    f = prog.func("openpectus.aggregator.aggregator:Aggregator.create_engine_id")
    ctx.analysed(f)
    ctx.rule("R38a", "engine id is an injective encoding of (computer_name, uod_name)")
    ctx.rule("R38b", "registration cannot take over a connected engine id")
    rets = [n for n in walk_no_nested(f.node) if isinstance(n, ast.Return) and n.value is not None]
    if len(rets) != 1:
        raise AnchorError(f"create_engine_id: expected exactly one return with a value, found {len(rets)}")
    e = rets[0].value
    construct = f"create_engine_id: return {norm(e)}"
    if _fields(e) != {"computer_name", "uod_name"}:
        ctx.fail("R38a", f, rets[0], construct, f"engine id does not depend on both computer_name and uod_name (uses {sorted(_fields(e))})")
    else:
        q = _is_quote(e)
        verdict = None
        if q is not None:
            inner, safe = q
            parts = _flatten_add(inner)
            seps = [p.value for p in parts if isinstance(p, ast.Constant) and isinstance(p.value, str)]
            if isinstance(inner, ast.Call) and call_attr(inner) == "join" and isinstance(inner.func, ast.Attribute) \
                    and isinstance(inner.func.value, ast.Constant):
                seps = [inner.func.value.value]
            verdict = ("enc(join)", f"the raw names are joined with {seps!r} *before* quoting; the separator can occur inside "
                       f"either name, so different (computer_name, uod_name) pairs collide, e.g. ('a{(seps or ['_'])[0]}b','c') "
                       f"and ('a','b{(seps or ['_'])[0]}c')")
            ctx.fail("R38a", f, rets[0], construct, verdict[1])
        else:
            parts = _flatten_add(e)
            if isinstance(e, ast.Call) and call_attr(e) == "join" and isinstance(e.func, ast.Attribute) \
                    and isinstance(e.func.value, ast.Constant) and e.args and isinstance(e.args[0], (ast.List, ast.Tuple)):
                sep = e.func.value.value
                parts = []
                for i, el in enumerate(e.args[0].elts):
                    if i:
                        parts.append(ast.Constant(sep))
                    parts.append(el)
            encs = [(p, _is_quote(p)) for p in parts]
            consts = [p.value for p, q2 in encs if isinstance(p, ast.Constant) and isinstance(p.value, str)]
            enc_parts = [(p, q2) for p, q2 in encs if q2 is not None]
            raw = [p for p, q2 in encs if q2 is None and not isinstance(p, ast.Constant)]
            if raw:
                if all(not _fields(p) for p in raw):
                    raise AnchorError(f"create_engine_id: unrecognised component {norm(raw[0])}")
                ctx.fail("R38a", f, rets[0], construct, f"component {norm(raw[0])} enters the id unencoded next to a separator: "
                         "pairs can collide")
            elif len(enc_parts) < 2:
                raise AnchorError("create_engine_id: unrecognised shape (neither enc(a SEP b) nor enc(a) SEP enc(b))")
            else:
                # separators strictly between encoded parts
                ok = True
                idxs = [i for i, (p, q2) in enumerate(encs) if q2 is not None]
                for a, b in zip(idxs, idxs[1:]):
                    between = "".join(p.value for p, q2 in encs[a + 1:b] if isinstance(p, ast.Constant))
                    alphabet = set(QUOTE_ALPHABET)
                    for (_, (_, safe)) in (encs[a], encs[b]):
                        alphabet |= set(safe)
                    if not any(ch not in alphabet for ch in between):
                        ok = False
                        ctx.fail("R38a", f, rets[0], construct, f"separator {between!r} between separately encoded parts lies inside "
                                 "the encoder's output alphabet; parts can absorb it and pairs collide")
                if ok:
                    ctx.ok("R38a", construct, {"rule": "R38a", "shape": "enc(a) SEP enc(b)", "separators": consts})

    # ---- R38b
    h = prog.func("openpectus.aggregator.aggregator_message_handlers:AggregatorMessageHandlers.handle_RegisterEngineMsg")
    ctx.analysed(h)
    g = cfg_of(h)
    guarded_targets = []
    for n in g.nodes:
        if node_calls(n, "register_engine_data"):
            guarded_targets.append(n)
        if n.kind == "stmt" and isinstance(n.ast, ast.Return) and isinstance(n.ast.value, ast.Call):
            for k in n.ast.value.keywords:
                if k.arg == "success" and isinstance(k.value, ast.Constant) and k.value.value is True:
                    guarded_targets.append(n)
    if len(guarded_targets) < 2:
        raise AnchorError("handle_RegisterEngineMsg: register_engine_data call / success reply not found")
    for n in guarded_targets:
        facts = facts_at(g, n)
        ok = any(re.fullmatch(r"[\w\.]*has_connected_engine_id\(\w+\)", a) and not pol for a, pol in facts)
        inst = f"handle_RegisterEngineMsg: {n.text()[:80]}"
        if ok:
            ctx.ok("R38b", inst)
        else:
            ctx.fail("R38b", h, n.ast, inst, "reachable although an engine with this id is currently connected: a second "
                     "registration could take over the id of a connected engine")
    # has_connected_engine_id body
    d = prog.func("openpectus.protocol.aggregator_dispatcher:AggregatorDispatcher.has_connected_engine_id")
    ctx.analysed(d)
    rets = [n for n in walk_no_nested(d.node) if isinstance(n, ast.Return) and n.value is not None]
    good = len(rets) == 1 and isinstance(rets[0].value, ast.Compare) and isinstance(rets[0].value.ops[0], ast.In) \
        and "_engine_id_channel_map" in norm(rets[0].value.comparators[0])
    if good:
        ctx.ok("R38b", "has_connected_engine_id: membership in _engine_id_channel_map")
    else:
        ctx.fail("R38b", d, d.node, "has_connected_engine_id: membership in _engine_id_channel_map",
                 "has_connected_engine_id no longer tests membership in the channel map")
    # dispatcher refuses a second channel
    dc = prog.func("openpectus.protocol.aggregator_dispatcher:AggregatorDispatcher._on_delayed_client_connect")
    ctx.analysed(dc)
    g2 = cfg_of(dc)
    writes = [n for n in g2.nodes if n.kind == "stmt" and isinstance(n.ast, ast.Assign) and any(
        isinstance(t, ast.Subscript) and "_engine_id_channel_map" in norm(t.value) for t in n.ast.targets)]
    if not writes:
        raise AnchorError("_on_delayed_client_connect: no write to _engine_id_channel_map found")
    for w in writes:
        facts = facts_at(g2, w)
        ok = any("in self._engine_id_channel_map" in a and not pol for a, pol in facts)
        inst = f"_on_delayed_client_connect: {w.text()}"
        if ok:
            ctx.ok("R38b", inst)
        else:
            ctx.fail("R38b", dc, w.ast, inst, "channel map entry overwritten without checking that the id is not already connected")
    # ---- R38d
    ctx.rule("R38d", "every exit of the connect handshake has recorded or closed the channel")
    ch_par = dc.node.args.args[1].arg

    def _settles(n) -> bool:
        if any(w.id == n.id for w in writes):
            return True
        return any(call_attr(c) == "close" and isinstance(c.func, ast.Attribute) and norm(c.func.value) == ch_par for c in n.calls())
    pth = g2.path_to_exit_avoiding(None, _settles, follow_exc=True)
    inst = "_on_delayed_client_connect: the channel is recorded in the channel map or closed on every exit"
    if pth is None:
        ctx.ok("R38d", inst)
    else:
        rets = [x for x in pth if x.kind == "stmt" and isinstance(x.ast, ast.Return)]
        where = f" (exit at line {rets[-1].lineno})" if rets else ""
        ctx.fail("R38d", dc, rets[-1].ast if rets else dc.node, inst, f"a path leaves the handshake{where} with the connection open and not "
                 "recorded: the engine behind it is served (validate_msg only asks for registered engine data) while "
                 "has_connected_engine_id is False for its id, so a second engine registers under the same id and connects", pth)
    # ---- R38e
    ctx.rule("R38e", "a successful registration reserves the engine id")
    hh = prog.func("openpectus.aggregator.aggregator_message_handlers:AggregatorMessageHandlers.handle_RegisterEngineMsg")
    reserves = [n for n in ast.walk(hh.node) if isinstance(n, ast.Call) and isinstance(n.func, ast.Attribute)
                and any(k in n.func.attr for k in ("reserve", "pending", "expect"))]
    inst = "handle_RegisterEngineMsg: the issued id is reserved until the websocket's id handshake ends"
    if reserves:
        ctx.ok("R38e", inst)
    else:
        ctx.fail("R38e", hh, hh.node, inst, "an id counts as connected only once _on_delayed_client_connect has written the channel map; "
                 "between the registration POST and the end of the websocket's id handshake nothing marks the id as taken, so a "
                 "second registration with the same names succeeds, and whichever websocket answers first evicts the other engine")
    # release on disconnect
    dd = prog.func("openpectus.protocol.aggregator_dispatcher:AggregatorDispatcher.on_client_disconnect")
    ctx.analysed(dd)
    g3 = cfg_of(dd)
    kills = [n for n in g3.nodes if kill_of_container_key(n, lambda e: "_engine_id_channel_map" in norm(e), None)]
    if kills:
        ctx.ok("R38b", f"on_client_disconnect: {kills[0].text()}")
    else:
        ctx.fail("R38b", dd, dd.node, "on_client_disconnect: release of channel map entry", "channel map entry never released")

    # ---- R38c
    ctx.rule("R38c", "an id is released only by the disconnect of the channel it is mapped to")
    disc_par = dd.node.args.args[1].arg
    ddefs = {}
    from ..util import local_single_defs as _lsd
    ddefs = _lsd(dd)
    for k in kills:
        inst = f"on_client_disconnect: {k.text()} releases the id mapped to the disconnecting channel"
        # the key that is removed
        key = None
        a = k.ast
        if isinstance(a, ast.Delete) and isinstance(a.targets[0], ast.Subscript):
            key = a.targets[0].slice
        else:
            for c in k.calls():
                if call_attr(c) == "pop" and c.args:
                    key = c.args[0]
        if not isinstance(key, ast.Name):
            raise AnchorError("on_client_disconnect: released key is not a local")
        # (1) scan form: the key local is assigned inside a loop over the forward map's items under `value == channel`
        scan_ok = False
        for lp in walk_no_nested(dd.node):
            if isinstance(lp, ast.For) and "_engine_id_channel_map.items()" in norm(lp.iter) and isinstance(lp.target, ast.Tuple):
                kv, vv = norm(lp.target.elts[0]), norm(lp.target.elts[1])
                for iff in ast.walk(lp):
                    if isinstance(iff, ast.If) and norm(iff.test) in (f"{vv} == {disc_par}", f"{disc_par} == {vv}", f"{vv} is {disc_par}"):
                        if any(isinstance(x, ast.Assign) and norm(x.targets[0]) == key.id and norm(x.value) == kv for x in ast.walk(iff)):
                            scan_ok = True
        if scan_ok:
            ctx.ok("R38c", inst)
            continue
        # (2) reverse-map form: key = self.<rev>.pop(channel, ..) / .get(channel) / [channel]
        kd = ddefs.get(key.id)
        rev = None
        if isinstance(kd, ast.Call) and call_attr(kd) in ("pop", "get") and kd.args and norm(kd.args[0]) == disc_par \
                and isinstance(kd.func.value, ast.Attribute):
            rev = kd.func.value.attr
        elif isinstance(kd, ast.Subscript) and norm(kd.slice) == disc_par and isinstance(kd.value, ast.Attribute):
            rev = kd.value.attr
        if rev is None:
            raise AnchorError("on_client_disconnect: how the released id is tied to the disconnecting channel was not understood")
        bad_ins = None
        n_ins = 0
        for fn in prog.iter_functions():
            gg = cfg_of(fn) if any(isinstance(t, ast.Subscript) and isinstance(t.value, ast.Attribute) and t.value.attr == rev
                                   for x in walk_no_nested(fn.node) if isinstance(x, ast.Assign) for t in x.targets) else None
            if gg is None:
                continue
            for n in gg.nodes:
                if n.kind == "stmt" and isinstance(n.ast, ast.Assign) and any(
                        isinstance(t, ast.Subscript) and isinstance(t.value, ast.Attribute) and t.value.attr == rev for t in n.ast.targets):
                    n_ins += 1
                    facts = facts_at(gg, n)
                    if not any("in self._engine_id_channel_map" in a_ and not pol for a_, pol in facts):
                        bad_ins = (fn, n)
        if bad_ins is not None or n_ins == 0:
            fn, n = bad_ins if bad_ins else (dd, k)
            ctx.fail("R38c", fn, n.ast, inst, f"the id is looked up in the reverse map self.{rev}, which is filled for a connecting channel "
                     "before (or without) the check that its id is not connected yet: the disconnect of a rejected duplicate "
                     "connection removes the entry of the engine that is still connected, and the id can then be registered again")
        else:
            ctx.ok("R38c", inst)
