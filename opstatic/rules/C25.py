"""C25 - Composite hardware is transparent: routing agreement and pairing structure of Composite_Hardware.

R25a routing agreement (siblings): read, write, read_batch and write_batch select a register's hardware layer by the
     same expression (<register>.options["hardware"]); in the batch methods that expression is both the membership
     test and the key of the per-call grouping dict, and each group's batch call is made on the key it was grouped under
     (the (key, list) pair comes from one `.items()` iteration).
R25b grouping is per call, complete and order preserving: the grouping dict is a fresh local of the call (never an
     attribute - register-to-layer assignments may differ between batches); every path through the grouping loop body
     adds the register to exactly one group, by `[r]` for a new key or `.append(r)` otherwise (input order within a layer).
R25c read pairing: the values returned by a layer are zipped with the very list that was passed to that layer's
     read_batch, stored under the register, and the result is a comprehension over the *parameter* in input order with
     no filter, one element per requested register.
R25d write pairing: values and registers are paired positionally from the two parameters in signature order; the value
     list handed to a layer is a comprehension over the very register list handed to it (same order), and the arguments of
     the layer's write_batch are in its (values, registers) signature order.
Decides the routing/pairing structure for every assignment of registers to layers; concrete values are value-level.
R25e no elided layer: in the dispatch loop every group is handed to its layer on every path of the loop body (no `continue`
     / conditional skip before the batch call) - a "nothing changed, skip the round trip" cache keyed by the values alone
     drops the second of two writes that carry the same values for different registers of a layer.
R25f a batch parameter that is walked more than once is materialised first: the batch methods accept any Iterable, so a
     parameter with two iteration sites (a `for`, a comprehension, a zip argument) must be rebound to a list/tuple of
     itself before the first - otherwise a one-shot iterable is exhausted by the grouping pass and the result is empty.
(A register occurring twice within ONE batch collapses in the per-call dicts keyed by the register; the property's quantifier
names duplicates across batches and its observable is the layers' register memory, which ends equal - documented in DESIGN
9.3h, not claimed as a violation.)
"""
from __future__ import annotations

import ast

from ..model import AnchorError, norm, walk_no_nested
from ..util import cfg_of, call_attr

EXPLANATION = __doc__
CLS = "openpectus.engine.composite_hardware:Composite_Hardware"


def _hw_key(expr: ast.AST) -> str | None:
    """'<name>' if expr is <name>.options["hardware"] (or ._options / .options.get("hardware"))."""
    if isinstance(expr, ast.Subscript) and isinstance(expr.slice, ast.Constant) and expr.slice.value == "hardware" \
            and isinstance(expr.value, ast.Attribute) and expr.value.attr in ("options", "_options") and isinstance(expr.value.value, ast.Name):
        return expr.value.value.id
    return None


def run(ctx) -> None:
    prog = ctx.prog
    cls = prog.cls(CLS)
    m = {n: cls.find_method(n) for n in ("read", "write", "read_batch", "write_batch")}
    if any(v is None or v.cls is not cls for v in m.values()):
        raise AnchorError("Composite_Hardware read/write/read_batch/write_batch not all defined on the class")
    for f in m.values():
        ctx.analysed(f)
    ctx.rule("R25a", "all four methods route by <register>.options['hardware']; group call on its own key")
    ctx.rule("R25b", "grouping dict is a fresh local; every register joins exactly one group, in order")
    ctx.rule("R25c", "read results zipped with the list passed, returned in parameter order, unfiltered")
    ctx.rule("R25d", "write values paired positionally; value list ranges over the register list passed with it")
    ctx.rule("R25e", "no layer is skipped in the dispatch loop")

    # ---- single-register siblings
    for name in ("read", "write"):
        f = m[name]
        rpar = f.node.args.args[-1].arg
        calls = [c for c in walk_no_nested(f.node) if isinstance(c, ast.Call) and call_attr(c) == name]
        inst = f"Composite_Hardware.{name}: delegates to {rpar}.options['hardware'].{name}"
        ok = False
        for c in calls:
            if isinstance(c.func, ast.Attribute) and _hw_key(c.func.value) == rpar:
                want = [a.arg for a in f.node.args.args[1:]]
                ok = [norm(a) for a in c.args] == want
        if ok:
            ctx.ok("R25a", inst)
        else:
            ctx.fail("R25a", f, f.node, inst, f"{name} does not forward its arguments, in order, to the hardware layer stored "
                     "in the register's options")

    for name in ("read_batch", "write_batch"):
        f = m[name]
        g = cfg_of(f)
        params = [a.arg for a in f.node.args.args[1:]]
        reg_par = params[-1]
        # grouping dict: a local assigned dict()/{} once, subscripted with a hardware key
        dict_locals = {}
        dd_locals = set()
        for n in walk_no_nested(f.node):
            tgt = n.target if isinstance(n, ast.AnnAssign) else (n.targets[0] if isinstance(n, ast.Assign) and len(n.targets) == 1 else None)
            if isinstance(tgt, ast.Name) and n.value is not None and (
                    (isinstance(n.value, ast.Call) and call_attr(n.value) == "dict" and not n.value.args) or
                    (isinstance(n.value, ast.Dict) and not n.value.keys)):
                dict_locals[tgt.id] = n
            if isinstance(tgt, ast.Name) and isinstance(n.value, ast.Call) and call_attr(n.value) == "defaultdict" \
                    and [norm(a) for a in n.value.args] == ["list"]:
                dict_locals[tgt.id] = n
                dd_locals.add(tgt.id)
        loops = [n for n in walk_no_nested(f.node) if isinstance(n, ast.For)]
        grp_loop = None
        for lp in loops:
            src = norm(lp.iter)
            if src == reg_par or (isinstance(lp.iter, ast.Call) and call_attr(lp.iter) == "zip" and [norm(a) for a in lp.iter.args] == params):
                grp_loop = lp
                break
        if grp_loop is None:
            # the grouping may have moved into a helper: it must still be computed afresh for every batch (R25b)
            from ..util import value_leaves
            stale = None
            for lp in loops:
                it = lp.iter
                if isinstance(it, ast.Call) and call_attr(it) == "items" and isinstance(it.func, ast.Attribute) and isinstance(it.func.value, ast.Call):
                    for leaf, lf in value_leaves(ctx.res, it.func.value, f):
                        fresh = (isinstance(leaf, ast.Dict) and not leaf.keys) or (
                            isinstance(leaf, ast.Call) and call_attr(leaf) in ("dict", "defaultdict", "OrderedDict"))
                        if not fresh and not (isinstance(leaf, ast.Constant) and leaf.value is None):
                            stale = (lp, leaf, lf)
            if stale is not None:
                lp, leaf, lf = stale
                ctx.rule("R25b", "grouping per call, complete, order preserving")
                ctx.fail("R25b", f, lp.iter, f"{name}: the per-layer grouping is computed for this batch",
                         f"the grouping handed to the dispatch loop can come from `{norm(leaf)}` ({lf.short}) - a grouping kept from an "
                         "earlier batch: its register order (and membership) is that of the earlier batch while the values follow the "
                         "current one, so values reach the wrong registers of a layer")
                continue
            raise AnchorError(f"{name}: grouping loop over the parameter(s) {params} not found")
        tvars = [norm(t) for t in (grp_loop.target.elts if isinstance(grp_loop.target, ast.Tuple) else [grp_loop.target])]
        rvar = tvars[-1]
        # writes into dicts inside the grouping loop
        G = None
        for n in walk_no_nested(grp_loop):
            if isinstance(n, ast.Assign) and len(n.targets) == 1 and isinstance(n.targets[0], ast.Subscript) \
                    and _hw_key(n.targets[0].slice) == rvar and isinstance(n.targets[0].value, ast.Name):
                G = n.targets[0].value.id
            # G.setdefault(key, []).append(r)  /  G[key].append(r) on a defaultdict(list)
            if isinstance(n, ast.Call) and call_attr(n) == "append" and [norm(x) for x in n.args] == [rvar]:
                tgt = n.func.value
                if isinstance(tgt, ast.Call) and call_attr(tgt) == "setdefault" and isinstance(tgt.func.value, ast.Name) \
                        and tgt.args and _hw_key(tgt.args[0]) == rvar:
                    G = tgt.func.value.id
                elif isinstance(tgt, ast.Subscript) and isinstance(tgt.value, ast.Name) and _hw_key(tgt.slice) == rvar \
                        and tgt.value.id in dd_locals:
                    G = tgt.value.id
        inst = f"{name}: registers grouped by {rvar}.options['hardware'] in a fresh local dict"
        if G is None:
            # maybe grouped into an attribute or by another key
            ctx.fail("R25a", f, grp_loop, inst, "no grouping `<local dict>[<register>.options['hardware']] = [...]` in the loop over "
                     "the requested registers: registers are not routed by the layer read()/write() use")
            continue
        if G not in dict_locals:
            ctx.fail("R25b", f, grp_loop, inst, f"the grouping dict `{G}` is not an empty dict created in this call: groups from an "
                     "earlier batch (another register order / assignment) leak into this one")
        else:
            ctx.ok("R25b", inst)
        # every path through the loop body adds rvar to exactly one group
        lp_node = next(n for n in g.nodes if n.kind == "for" and n.ast is grp_loop)

        def adds(n):
            a = n.ast
            if n.kind != "stmt" or a is None:
                return 0
            k = 0
            if isinstance(a, ast.Assign) and len(a.targets) == 1 and isinstance(a.targets[0], ast.Subscript) \
                    and norm(a.targets[0].value) == G and _hw_key(a.targets[0].slice) == rvar \
                    and isinstance(a.value, ast.List) and [norm(e) for e in a.value.elts] == [rvar]:
                k += 1
            for c in n.calls():
                if call_attr(c) == "append" and isinstance(c.func.value, ast.Subscript) and norm(c.func.value.value) == G \
                        and _hw_key(c.func.value.slice) == rvar and [norm(x) for x in c.args] == [rvar]:
                    k += 1
                if call_attr(c) == "append" and isinstance(c.func.value, ast.Call) and call_attr(c.func.value) == "setdefault" \
                        and norm(c.func.value.func.value) == G and c.func.value.args and _hw_key(c.func.value.args[0]) == rvar \
                        and len(c.func.value.args) == 2 and isinstance(c.func.value.args[1], ast.List) and not c.func.value.args[1].elts \
                        and [norm(x) for x in c.args] == [rvar]:
                    k += 1
            return k
        counts = set()

        def walk(nid, cnt, seen):
            if nid == lp_node.id:
                counts.add(cnt)
                return
            if nid in seen:
                return
            n = g.nodes[nid]
            for d, l in g.succ[nid]:
                if l != "exc":
                    walk(d, cnt + adds(n), seen | {nid})
        for d, l in g.succ[lp_node.id]:
            if l == "loop":
                walk(d, 0, frozenset())
        inst = f"{name}: every register joins exactly one group ([r] or append(r))"
        if counts == {1}:
            ctx.ok("R25b", inst)
        else:
            ctx.fail("R25b", f, grp_loop, inst, f"a path through the grouping loop adds the register to {sorted(counts)} groups "
                     "(not exactly one, by `[r]`/`.append(r)`): registers are dropped, duplicated or reordered within a layer")
        # membership test uses the same key
        tests = [n for n in walk_no_nested(grp_loop) if isinstance(n, ast.Compare) and isinstance(n.ops[0], (ast.In, ast.NotIn))
                 and norm(n.comparators[0]) in (G, f"{G}.keys()")]
        inst = f"{name}: group membership test uses the same key"
        uses_default = G in dd_locals or any(isinstance(c, ast.Call) and call_attr(c) == "setdefault" and norm(c.func.value) == G
                                             for c in walk_no_nested(grp_loop))
        if (tests and all(_hw_key(t.left) == rvar for t in tests)) or (not tests and uses_default):
            ctx.ok("R25a", inst)
        else:
            ctx.fail("R25a", f, grp_loop, inst, "the 'new group or existing group' test does not look the register's hardware up "
                     "in the grouping dict")
        # dispatch loop
        disp = [lp for lp in loops if isinstance(lp.iter, ast.Call) and norm(lp.iter.func) == f"{G}.items" and isinstance(lp.target, ast.Tuple)
                and len(lp.target.elts) == 2]
        if len(disp) != 1:
            ctx.fail("R25a", f, f.node, f"{name}: one dispatch loop over {G}.items()", "dispatch loop over the groups not found")
            continue
        hvar, lvar = norm(disp[0].target.elts[0]), norm(disp[0].target.elts[1])
        bcalls = [c for c in walk_no_nested(disp[0]) if isinstance(c, ast.Call) and call_attr(c) == name]
        inst = f"{name}: each group is sent to its own key ({hvar}.{name})"
        if len(bcalls) == 1 and norm(bcalls[0].func.value) == hvar:
            ctx.ok("R25a", inst)
        else:
            ctx.fail("R25a", f, disp[0], inst, "the batch call is not made on the hardware layer the group was collected for")
            continue
        bc = bcalls[0]
        dn = next(n for n in g.nodes if n.kind == "for" and n.ast is disp[0])
        bn = [n for n in g.nodes if any(c is bc for c in n.calls())]
        inst = f"{name}: every group is handed to its layer on every path of the dispatch loop"
        skip = g.search([(dn.id, "loop")], lambda n: n.id == dn.id, blocked=lambda n: any(n.id == b.id for b in bn), follow_exc=False)
        if skip is not None:
            ctx.fail("R25e", f, disp[0], inst, f"a path through the dispatch loop skips `{norm(bc)[:70]}`: a layer does not receive a "
                     "write (or read) that reading/writing each register on its own layer would perform - e.g. a cache that "
                     "compares only the value list elides a write of the same values to other registers of the layer", skip)
        else:
            ctx.ok("R25e", inst)
        if name == "read_batch":
            inst = "read_batch: layer results zipped with the list that was read, stored per register"
            ok = [norm(a) for a in bc.args] == [lvar]
            res_name = None
            for n in walk_no_nested(disp[0]):
                if isinstance(n, ast.Assign) and isinstance(n.value, ast.Call) and n.value is bc and isinstance(n.targets[0], ast.Name):
                    res_name = n.targets[0].id
            zl = [lp for lp in walk_no_nested(disp[0]) if isinstance(lp, ast.For) and isinstance(lp.iter, ast.Call)
                  and call_attr(lp.iter) == "zip"]
            M = None
            if ok and res_name and len(zl) == 1 and [norm(a) for a in zl[0].iter.args] == [lvar, res_name] \
                    and isinstance(zl[0].target, ast.Tuple) and len(zl[0].target.elts) == 2:
                a, b = norm(zl[0].target.elts[0]), norm(zl[0].target.elts[1])
                for n in walk_no_nested(zl[0]):
                    if isinstance(n, ast.Assign) and isinstance(n.targets[0], ast.Subscript) and norm(n.targets[0].slice) == a \
                            and norm(n.value) == b and isinstance(n.targets[0].value, ast.Name):
                        M = n.targets[0].value.id
            if M is None:
                ctx.fail("R25c", f, disp[0], inst, "the values a layer returns are not paired, position by position, with the "
                         "registers that were passed to it")
            elif M not in dict_locals:
                ctx.fail("R25c", f, disp[0], inst, f"the result map `{M}` is not a fresh local dict of this call")
            else:
                ctx.ok("R25c", inst)
            rets = [n for n in walk_no_nested(f.node) if isinstance(n, ast.Return)]
            inst = "read_batch: returns one value per requested register, in request order"
            okr = False
            if len(rets) == 1 and isinstance(rets[0].value, ast.ListComp) and len(rets[0].value.generators) == 1 and M is not None:
                lc = rets[0].value
                gen = lc.generators[0]
                okr = norm(gen.iter) == reg_par and not gen.ifs and isinstance(lc.elt, ast.Subscript) and norm(lc.elt.value) == M \
                    and norm(lc.elt.slice) == norm(gen.target)
            if okr:
                ctx.ok("R25c", inst)
            else:
                ctx.fail("R25c", f, rets[0] if rets else f.node, inst, "the result is not `[result_map[r] for r in <registers "
                         "parameter>]`: values are returned in another order, filtered, or not per requested register")
        else:
            inst = "write_batch: values and registers paired positionally in signature order"
            vvar = tvars[0] if len(tvars) == 2 else None
            V = None
            for n in walk_no_nested(grp_loop):
                if isinstance(n, ast.Assign) and isinstance(n.targets[0], ast.Subscript) and norm(n.targets[0].slice) == rvar \
                        and vvar is not None and norm(n.value) == vvar and isinstance(n.targets[0].value, ast.Name):
                    V = n.targets[0].value.id
            top = any(isinstance(st, ast.Assign) and isinstance(st.targets[0], ast.Subscript) and norm(st.targets[0].value) == V
                      for st in grp_loop.body) if V else False
            if V is None or not top or V not in dict_locals:
                ctx.fail("R25d", f, grp_loop, inst, "each value is not recorded, unconditionally, under the register it was "
                         "passed with (zip(values, registers) -> map[r] = v in a fresh local dict)")
            else:
                ctx.ok("R25d", inst)
            inst = "write_batch: the value list handed to a layer ranges over the register list handed with it"
            okw = False
            if len(bc.args) == 2 and norm(bc.args[1]) == lvar and V is not None:
                vl = bc.args[0]
                vdef = None
                if isinstance(vl, ast.Name):
                    for n in walk_no_nested(disp[0]):
                        if isinstance(n, ast.Assign) and isinstance(n.targets[0], ast.Name) and n.targets[0].id == vl.id:
                            vdef = n.value
                else:
                    vdef = vl
                if isinstance(vdef, ast.ListComp) and len(vdef.generators) == 1 and not vdef.generators[0].ifs \
                        and norm(vdef.generators[0].iter) == lvar and isinstance(vdef.elt, ast.Subscript) \
                        and norm(vdef.elt.value) == V and norm(vdef.elt.slice) == norm(vdef.generators[0].target):
                    okw = True
            if okw:
                ctx.ok("R25d", inst)
            else:
                ctx.fail("R25d", f, bc, inst, f"`{norm(bc)[:90]}`: the values are not `[value_map[r] for r in <the group's "
                         "registers>]` followed by those registers - a layer receives values in another order than its registers")
    ctx.floor("R25a", 6)

    # ---- R25f / R25g
    ctx.rule("R25f", "a batch parameter iterated more than once is materialised first")
    for name in ("read_batch", "write_batch"):
        f = m[name]
        for a in f.node.args.args[1:]:
            sites = []
            for x in ast.walk(f.node):
                its = []
                if isinstance(x, (ast.For, ast.AsyncFor)):
                    its = [x.iter]
                elif isinstance(x, ast.comprehension):
                    its = [x.iter]
                for it in its:
                    if any(isinstance(y, ast.Name) and y.id == a.arg for y in ast.walk(it)):
                        sites.append(it)
            sites.sort(key=lambda e: (e.lineno, e.col_offset))
            mats = [st for st in f.node.body if isinstance(st, ast.Assign) and len(st.targets) == 1
                    and isinstance(st.targets[0], ast.Name) and st.targets[0].id == a.arg and isinstance(st.value, ast.Call)
                    and isinstance(st.value.func, ast.Name) and st.value.func.id in ("list", "tuple")
                    and [norm(z) for z in st.value.args] == [a.arg]]
            ann = norm(a.annotation) if a.annotation is not None else ""
            sized = ann.startswith(("list", "List", "Sequence", "tuple", "Tuple"))
            inst = f"{name}: parameter `{a.arg}` ({len(sites)} iteration site(s))"
            if len(sites) <= 1 or sized or (mats and mats[0].lineno < sites[0].lineno):
                ctx.ok("R25f", inst, {"rule": "R25f", "annotation": ann, "materialised": bool(mats)})
            else:
                ctx.fail("R25f", f, sites[1], inst, f"`{a.arg}` is declared `{ann or 'untyped'}` and walked {len(sites)} times without "
                         "being turned into a list first: with a generator/filter/map the first pass consumes it, every layer is "
                         "read, and the second pass finds nothing - the caller gets an empty result")
    ctx.floor("R25f", 3)
