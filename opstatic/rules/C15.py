"""C15 - Run log is always producible and well-formed: the structural clauses behind well-formedness.

R15a single, append-only time source. RuntimeRecord._add_state is called only from Tracking._add_record_state and
     receives Tracking.tick_time / tick_number (whose only writers are Tracking.__init__ and Tracking.tick, which
     copies the tick number and advances the time monotonically - `max(self.tick_time, <parameter>)`: tick time is wall-clock
     time and can be set back); RuntimeRecord.states is only ever appended to (no insert/sort/remove/reassignment
     outside constructors and clone), so the states of an invocation are in engine-time order whenever tick times
     are; in _get_record_runlog_items item.start is assigned only in the first-state branch and item.end only from
     the same loop variable's state_time, and the per-invocation ordering check with raise_if_unordered=True
     dominates the state loop. Together: no item ends before it starts.
R15b ordering and identity. Every path of get_runlog to its return passes `items.sort(key=<item.start>)` after the
     last extend; item.id is assigned from state.instance_id and only there; invocations are split by a dict keyed
     by st.instance_id (one group per id); fresh instance ids are minted in exactly one place (uuid4 in
     create_node_instance_id) and every _add_record_state(I, R) call passes an id that belongs to R
     (R.last_instance_id or a fresh one for R's node / R looked up from I).
R15c conclusive-state finalisation, by finite path enumeration: for every member v of RuntimeRecordStateEnum the body
     of the state loop is enumerated path by path with every test that depends only on state.state_name (directly or
     through a single-assignment boolean local) decided for v and all other tests taken both ways. For the conclusive
     members (those in the is_conclusive_state list; it must be exactly {Completed, Failed, Cancelled}) every
     non-raising path must (i) set item.state to the matching RunLogItemState, (ii) assign item.end, (iii) have
     constant False as the last write to item.cancellable and item.forcible before (iv) reaching items.append(item).
     For non-conclusive members no path may assign item.end.
R15d exclusion table: the early `return []` exits of _get_record_runlog_items and the record filter of
     records_filtered exclude exactly the classes/names the property allows (ProgramNode, BlankNode, CommentNode,
     InjectedNode container, unnamed error instruction / unnamed record, "Stop", NullNode) - nothing else.
R15e completion is tracked: in every PInterpreter.visit_* of a node class that is not excluded, each
     `node.completed = True` on the visitor's own node lies on a path that also calls tracking.mark_completed(node)
     (before or after), so a completed instruction has a Completed record state.
R15f one conclusive state per invocation (producibility): the run-log generator ends an item at the first conclusive
     state (Completed / Failed / Cancelled) of an invocation and *raises* on any later state of the same invocation, so
     get_runlog() fails for the rest of the run once one request has been given two conclusive states. In
     CommandManager, for the request being executed: no path of _execute_uod_command / _execute_internal_command leads
     from one conclusive mark (tracking.mark_completed/failed/cancelled on the request or its command, directly or
     through _cancel_command, whose summary may mark Cancelled) to a different one, and no path from such a mark leaves
     the function by raising into the handler of _execute_command, which marks the request Failed.
R15g attribution: a state recorded for a command request or command instance goes to that request's *own* invocation. Every
     Tracking.mark_* method that CommandManager calls with a request or command takes the instance id it hands to
     _add_record_state from the instance (`<instance>.instance_id`, directly, through a match capture or through a helper whose
     returns are followed) - not only from `record.last_instance_id`, which is the *latest* invocation of the node: when a
     macro or Alarm body invokes a UOD command again while the previous invocation's command is still running, the state of
     the old request (Cancelled by the same-name rule) would land on the new invocation, in front of its Started, and
     get_runlog() raises for the rest of the run.
R15h "latest invocation" means the instance created last: RuntimeRecord.last_instance_id looks for the most recent Created state
     before it falls back to the last state - the command of an earlier invocation can still add Completed/Cancelled after the
     next invocation was created, and a request issued under that old id never executes (its invocation has concluded).
R15i a state is final for its invocation only: the command visitors (visit_UodCommandNode / visit_EngineCommandNode) issue their request
     under `record.last_instance_id`, read one tick after visit() created the id - so two walkers of one macro body (main program and
     a Watch calling the same macro a tick apart) issue two requests under ONE id. As long as that is so, the branch of
     _cancel_command that retires a request which has not started a command may record Cancelled only when no other executing
     request carries the same id: the other request executes the invocation, and its Started after the Cancelled makes
     get_runlog() raise for the rest of the run.
Decides these clauses; does not decide producibility for every runtime state order beyond R15f (the raise sites in
_get_record_runlog_items depend on runtime data); the state clock itself is monotone by R15a, the wall clock it follows is not decided.
R15j Cancelled only for what has not concluded: the part of _cancel_command for a request with no registered command instance also sees
     requests whose command completed (or failed) and was finalized *earlier in the same tick* - they stay in the executing list until
     the commit at the end of the tick. Recording Cancelled for them puts a second conclusive state behind Completed: every
     mark_cancelled of that part is dominated by the false outcome of the conclusive-state predicate on the request's instance id.
R15k the choke point: whatever the callers do, an invocation that has concluded accepts no further state. RuntimeRecord._add_state is
     the only function that appends to a record's states (R15a), and every path to that append passes a scan of the record's
     states that returns when a state of the *same instance id* is conclusive (the tested set contains Completed, Failed and
     Cancelled). This decides "no state behind a conclusive one" - the condition under which the generator raises for the rest of
     the run - for every caller, order and history at once; R15f/R15i/R15j keep deciding *which* conclusive state it is.
R15l Watch and Alarm agree on cancellation (siblings): in visit_WatchNode and in visit_AlarmNode the awaiting-condition state is
     recorded only under `not node.cancelled`, and inside the await loop the activation attempt is under `not node.cancelled`
     too - a cancelled Alarm that goes on waiting records AwaitingCondition behind Cancelled and later runs its body.
R15m a body is reset together with its handlers: every `X.reset_runtime_state(recursive=True)` of a node with a body in the interpreter
     (macro call, Alarm re-arm) is dominated by the removal of the interrupt handlers registered for X's descendants
     (`_abort_block_interrupts(X)` or a loop over `X.get_child_nodes(recursive=True)` calling `_unregister_interrupt`): a handler
     left behind continues in the middle of the reset body and records its states on the items of the new invocation.
R15n an interpreter that replaces another inherits its tracking state: Tracking drops every state while it is disabled, and a new
     interpreter starts disabled unless told otherwise - Start enables tracking on the interpreter that exists *then*. Every
     `PInterpreter(...)` built by MethodManager gets its tracking argument from the replaced interpreter's `tracking.enabled`; if the
     value comes in through a parameter, every call site outside __init__ passes it (a default of False silently disables the run
     log for a method saved between Start and the first tick - completed instructions then have no item).
"""
from __future__ import annotations

import ast

from ..model import AnchorError, norm, walk_no_nested
from ..util import cfg_of, node_calls, call_attr, assigned_attrs, enum_members, local_single_defs
from ..cfg import facts_at

EXPLANATION = __doc__
RL = "openpectus.lang.exec.runlog"
TR = "openpectus.lang.exec.tracking:Tracking"
PI = "openpectus.lang.exec.pinterpreter:PInterpreter"
CONCLUSIVE = {"Completed", "Failed", "Cancelled"}
ALLOWED_EXCLUDED_CLASSES = {"ProgramNode", "BlankNode", "CommentNode", "InjectedNode", "ErrorInstructionNode", "NullNode"}
ALLOWED_EXCLUDED_NAMES = {"Stop"}
EXCLUDED_VISITORS = {"visit_BlankNode", "visit_CommentNode", "visit_ProgramNode"}
MAX_PATHS = 20000
# local names of _get_record_runlog_items, discovered by role at run time (never assumed): see _discover_names
NM = {"item": "item", "items": "items", "state": "state", "inx": "inx"}


# ------------------------------------------------------------------------------------------------ three-valued evaluation
def _member(expr: ast.AST, enum_name: str) -> str | None:
    if isinstance(expr, ast.Attribute) and norm(expr.value).split(".")[-1] == enum_name:
        return expr.attr
    return None


class _Env:
    def __init__(self, v: str):
        self.v = v                      # value of state.state_name
        self.locals: dict[str, bool | None] = {}
        self.item_state: str | None = None   # RunLogItemState member assigned on this path, None = unknown

    def copy(self):
        e = _Env(self.v)
        e.locals = dict(self.locals)
        e.item_state = self.item_state
        return e


def _eval(expr: ast.AST, env: _Env) -> bool | None:
    if isinstance(expr, ast.Constant) and isinstance(expr.value, bool):
        return expr.value
    if isinstance(expr, ast.Name):
        return env.locals.get(expr.id)
    if isinstance(expr, ast.UnaryOp) and isinstance(expr.op, ast.Not):
        r = _eval(expr.operand, env)
        return None if r is None else not r
    if isinstance(expr, ast.BoolOp):
        vals = [_eval(x, env) for x in expr.values]
        if isinstance(expr.op, ast.And):
            if any(x is False for x in vals):
                return False
            return True if all(x is True for x in vals) else None
        if any(x is True for x in vals):
            return True
        return False if all(x is False for x in vals) else None
    if isinstance(expr, ast.Compare) and len(expr.ops) == 1:
        left, op, right = expr.left, expr.ops[0], expr.comparators[0]
        subj = norm(left)
        if subj == f"{NM['state']}.state_name":
            cur, enum = env.v, "RuntimeRecordStateEnum"
        elif subj == f"{NM['item']}.state":
            cur, enum = env.item_state, "RunLogItemState"
            if cur is None:
                return None
        else:
            return None
        if isinstance(op, (ast.Eq, ast.NotEq, ast.Is, ast.IsNot)):
            m = _member(right, enum)
            if m is None:
                return None
            r = cur == m
            return r if isinstance(op, (ast.Eq, ast.Is)) else not r
        if isinstance(op, (ast.In, ast.NotIn)) and isinstance(right, (ast.List, ast.Tuple, ast.Set)):
            ms = [_member(e, enum) for e in right.elts]
            if any(m is None for m in ms):
                return None
            r = cur in ms
            return r if isinstance(op, ast.In) else not r
    return None


def _enumerate_loop_paths(g, loop_node, v: str):
    """All paths through one iteration of the loop body for state.state_name == v.
    Yields (events, outcome) with outcome in {'next', 'raise', 'exit'}; events are (kind, payload, node)."""
    out = []
    count = [0]

    def step(nid, env, events, seen):
        count[0] += 1
        if count[0] > MAX_PATHS:
            raise AnchorError("state-loop path enumeration exceeded the bound; loop body changed shape")
        n = g.nodes[nid]
        if nid == loop_node.id:
            out.append((events, "next"))
            return
        if nid == g.raise_exit.id:
            out.append((events, "raise"))
            return
        if nid == g.exit.id:
            out.append((events, "exit"))
            return
        if nid in seen:
            raise AnchorError("unexpected cycle inside the state loop body")
        seen = seen | {nid}
        env = env.copy()
        events = list(events)
        if n.kind == "stmt" and n.ast is not None:
            a = n.ast
            if isinstance(a, ast.Assign) and len(a.targets) == 1:
                t = a.targets[0]
                if isinstance(t, ast.Name):
                    env.locals[t.id] = _eval(a.value, env)
                    if t.id == NM["item"]:
                        events.append(("item-rebound", norm(a.value), n))
                        env.item_state = None
                        if isinstance(a.value, ast.Call) and call_attr(a.value) == "RunLogItem":
                            env.item_state = "Unknown"   # RunLogItem() default - checked separately
                elif isinstance(t, ast.Attribute) and isinstance(t.value, ast.Name) and t.value.id == NM["item"]:
                    events.append(("set", (t.attr, a.value), n))
                    if t.attr == "state":
                        env.item_state = _member(a.value, "RunLogItemState")
            elif isinstance(a, (ast.AugAssign, ast.AnnAssign)):
                t = a.target
                if isinstance(t, ast.Name):
                    env.locals[t.id] = _eval(a.value, env) if isinstance(a, ast.AnnAssign) and a.value is not None else None
                    if t.id == NM["item"]:
                        env.item_state = None
                elif isinstance(t, ast.Attribute) and isinstance(t.value, ast.Name) and t.value.id == NM["item"]:
                    events.append(("set", (t.attr, a.value), n))
            for c in n.calls():
                if call_attr(c) == "append" and norm(c.func) == f"{NM['items']}.append" and c.args and norm(c.args[0]) == NM["item"]:
                    events.append(("append", None, n))
                elif any(norm(x) == NM["item"] for x in c.args) and call_attr(c) != "append":
                    events.append(("item-passed", norm(c.func), n))
        succ = g.succ[nid]
        if n.kind == "test":
            r = _eval(n.ast, env)
            for d, l in succ:
                if l == "exc":
                    continue
                if r is True and l == "F":
                    continue
                if r is False and l == "T":
                    continue
                step(d, env, events, seen)
            return
        for d, l in succ:
            if l == "exc" and n.kind != "stmt":
                continue
            if l == "exc" and not isinstance(n.ast, ast.Raise):
                continue
            step(d, env, events, seen)

    for d, l in g.succ[loop_node.id]:
        if l == "loop":
            step(d, _Env(v), [], frozenset())
    return out


# ------------------------------------------------------------------------------------------------ the rule
def run(ctx) -> None:
    prog = ctx.prog
    ctx.rule("R15a", "single append-only time source; start from first state, end from the same loop; ordering check dominates")
    ctx.rule("R15b", "sorted by start on every return path; ids are instance ids, minted once, grouped by id, owned by the record")
    ctx.rule("R15c", "conclusive states finalise the item (end set, not cancellable/forcible, appended) - per enum member path enumeration")
    ctx.rule("R15d", "exclusion table equals the property's exclusion list")
    ctx.rule("R15e", "visitors pair node.completed = True with tracking.mark_completed(node)")
    ctx.rule("R15f", "a command request never receives two different conclusive record states")
    ri = prog.cls(f"{RL}:RuntimeInfo")
    rr = prog.cls(f"{RL}:RuntimeRecord")
    gri = ri.find_method("_get_record_runlog_items")
    grl = ri.find_method("get_runlog")
    if gri is None or grl is None:
        raise AnchorError("RuntimeInfo.get_runlog/_get_record_runlog_items missing")
    ctx.analysed(gri)
    ctx.analysed(grl)

    # ---------------------------------------------------------------- R15a
    n_add = 0
    for fn in prog.iter_functions():
        for c in walk_no_nested(fn.node):
            if isinstance(c, ast.Call) and call_attr(c) == "_add_state":
                n_add += 1
                inst = f"{fn.short}: {norm(c.func)}(...)"
                args = [norm(a) for a in c.args]
                if fn.qualname != f"{TR}._add_record_state":
                    ctx.fail("R15a", fn, c, inst, "RuntimeRecord._add_state called outside Tracking._add_record_state: states may "
                             "carry a different clock than the tracking tick time")
                elif len(args) < 4 or args[2] != "self.tick_time" or args[3] != "self.tick_number":
                    ctx.fail("R15a", fn, c, inst, f"state time/tick arguments are ({args[2:4]}), not Tracking.tick_time/tick_number")
                else:
                    ctx.ok("R15a", inst)
    if n_add == 0:
        raise AnchorError("no _add_state call found")
    # writers of Tracking.tick_time / tick_number
    trk = prog.cls(TR)
    ttick = trk.find_method("tick")
    if ttick is None:
        raise AnchorError("Tracking.tick missing")
    params = [a.arg for a in ttick.node.args.args]
    for fn in prog.iter_functions():
        for t, v, st in assigned_attrs(fn.node):
            if t.attr in ("tick_time", "tick_number") and isinstance(t.value, ast.Name):
                recv = ctx.res.receiver_classes(t.value, fn)
                if not any(k is trk or k.is_subclass_of(trk) for k in recv):
                    continue
                inst = f"{fn.short}: {norm(st)}"
                if fn.cls is trk and fn.name == "__init__":
                    ctx.ok("R15a", inst, trivial=True)
                elif fn is ttick and t.attr == "tick_number" and isinstance(v, ast.Name) and v.id in params[1:] and \
                        params.index(v.id) == 2:
                    ctx.ok("R15a", inst)
                elif fn is ttick and t.attr == "tick_time" and isinstance(v, ast.Call) and isinstance(v.func, ast.Name) \
                        and v.func.id == "max" and sorted(norm(a) for a in v.args) == sorted([f"{t.value.id}.tick_time", params[1]]):
                    # the tick time is wall-clock time and may be set back; the time of a state must not be earlier than
                    # that of the state before it (the generator raises on an unordered invocation, an item must not end
                    # before it starts)
                    ctx.ok("R15a", inst)
                elif fn.cls is trk and t.attr == "tick_time" and _monotone_write(fn, st, t, v):
                    # another writer inside Tracking that can only move the time forward (guarded by `v > self.tick_time`, or
                    # max(...)) keeps the order of state times as long as tick() itself is monotone (checked above)
                    ctx.ok("R15a", inst)
                elif fn is ttick and t.attr == "tick_time" and isinstance(v, ast.Name) and v.id == params[1]:
                    ctx.fail("R15a", fn, st, inst, "the state clock follows the wall clock backwards: after a clock step (NTP, operator) a "
                             "Completed is stamped earlier than its Started, the ordering check of the run-log generator raises in every "
                             "later tick (or, without asserts, the item ends before it starts)")
                else:
                    ctx.fail("R15a", fn, st, inst, "Tracking's clock written outside Tracking.tick / not from its parameter: record "
                             "state times are no longer the engine tick time of the tick they happen in")
    # RuntimeRecord.states: append-only
    MUT = {"insert", "sort", "reverse", "remove", "pop", "clear", "extend", "__setitem__"}
    n_states = 0
    for fn in prog.iter_functions():
        for n in walk_no_nested(fn.node):
            if isinstance(n, ast.Call) and isinstance(n.func, ast.Attribute) and isinstance(n.func.value, ast.Attribute) \
                    and n.func.value.attr == "states":
                recv = ctx.res.receiver_classes(n.func.value.value, fn)
                if not any(k is rr for k in recv):
                    continue
                inst = f"{fn.short}: {norm(n.func)}"
                if n.func.attr == "append":
                    n_states += 1
                    if fn.cls is rr and fn.name == "_add_state":
                        ctx.ok("R15a", inst)
                    else:
                        ctx.fail("R15a", fn, n, inst, "record states appended outside RuntimeRecord._add_state")
                elif n.func.attr in MUT:
                    ctx.fail("R15a", fn, n, inst, "record states are reordered/removed: state order is no longer insertion (time) order")
        for t, v, st in assigned_attrs(fn.node):
            if t.attr == "states":
                recv = ctx.res.receiver_classes(t.value, fn)
                if not any(k is rr for k in recv):
                    continue
                inst = f"{fn.short}: {norm(st)[:80]}"
                if fn.cls is rr and fn.name in ("__init__", "clone"):
                    ctx.ok("R15a", inst, trivial=True)
                else:
                    ctx.fail("R15a", fn, st, inst, "RuntimeRecord.states reassigned outside __init__/clone")
        for n in walk_no_nested(fn.node):
            if isinstance(n, (ast.Assign, ast.Delete)):
                tg = n.targets
                for t in tg:
                    if isinstance(t, ast.Subscript) and isinstance(t.value, ast.Attribute) and t.value.attr == "states":
                        recv = ctx.res.receiver_classes(t.value.value, fn)
                        if any(k is rr for k in recv):
                            ctx.fail("R15a", fn, n, f"{fn.short}: {norm(n)[:80]}", "record states overwritten/deleted by index")
    if n_states == 0 and not any(fd.rule == "R15a" and ".states." in fd.construct for fd in ctx.findings):
        raise AnchorError("no append to RuntimeRecord.states found")

    g = cfg_of(gri)
    _discover_names(gri, g)
    loops = [n for n in g.nodes if n.kind == "for" and isinstance(n.ast.target, ast.Tuple) and len(n.ast.target.elts) == 2
             and norm(n.ast.target.elts[1]) == NM["state"] and norm(n.ast.target.elts[0]) == NM["inx"]]
    if len(loops) != 1:
        raise AnchorError("state loop `for <index>, <state> in enumerate(<invocation states>)` not found in _get_record_runlog_items")
    loop = loops[0]
    lsd = local_single_defs(gri)
    # item.start / item.end writers
    for n in g.nodes:
        if n.kind != "stmt" or n.ast is None:
            continue
        for t, v, st in assigned_attrs(n.ast):
            if not (isinstance(t.value, ast.Name) and t.value.id == NM["item"]):
                continue
            if t.attr == "start":
                inst = f"_get_record_runlog_items: {norm(st)}"
                conds = g.conditions_at(n)
                first = False
                for e, pol in conds:
                    ee = lsd.get(e.id, e) if isinstance(e, ast.Name) else e
                    if pol and norm(ee) in (f"{NM['inx']} == 0", f"0 == {NM['inx']}"):
                        first = True
                if norm(v) != f"{NM['state']}.state_time":
                    ctx.fail("R15a", gri, st, inst, "item.start is not the state's time")
                elif not first:
                    ctx.fail("R15a", gri, st, inst, "item.start is assigned outside the first-state branch (inx == 0): a later "
                             "state's time can become the start, after the end")
                else:
                    ctx.ok("R15a", inst)
            elif t.attr == "end":
                inst = f"_get_record_runlog_items: {norm(st)}"
                if norm(v) != f"{NM['state']}.state_time":
                    ctx.fail("R15a", gri, st, inst, "item.end is not the state's time")
                else:
                    ctx.ok("R15a", inst)
    for fld in ("start", "end"):
        if not any(t.attr == fld and isinstance(t.value, ast.Name) and t.value.id == NM["item"]
                   for n in g.nodes if n.kind == "stmt" and n.ast is not None for t, v, st in assigned_attrs(n.ast)):
            ctx.fail("R15a", gri, gri.node, f"_get_record_runlog_items: item.{fld} is assigned from a state time",
                     f"item.{fld} is never assigned: items carry the default {fld}")
    chk = [n for n in g.nodes if node_calls(n, "_check_record_states_ordered")]
    ok_chk = False
    for n in chk:
        for c in n.calls():
            if call_attr(c) == "_check_record_states_ordered":
                kw = {k.arg: k.value for k in c.keywords}
                r = kw.get("raise_if_unordered", c.args[1] if len(c.args) > 1 else None)
                if isinstance(r, ast.Constant) and r.value is True and c.args and norm(c.args[0]) == norm(loop.ast.iter.args[0] if isinstance(loop.ast.iter, ast.Call) else loop.ast.iter) \
                        and g.dominates(n, loop):
                    ok_chk = True
    inst = "_get_record_runlog_items: ordering check dominates the state loop"
    if ok_chk:
        ctx.ok("R15a", inst)
    else:
        ctx.fail("R15a", gri, loop.ast, inst, "the per-invocation state ordering check (raise_if_unordered=True) no longer dominates "
                 "the state loop: an item may end before it starts without the run log failing")
    cso = ri.find_method("_check_record_states_ordered")
    if cso is None:
        raise AnchorError("_check_record_states_ordered missing")
    asserts = [norm(n.test) for n in walk_no_nested(cso.node) if isinstance(n, ast.Assert)]
    if any("state_time" in a and "<=" in a and a.index("prev_state") < a.index("<=") for a in asserts):
        ctx.ok("R15a", "_check_record_states_ordered asserts prev.state_time <= state.state_time")
    else:
        ctx.fail("R15a", cso, cso.node, "_check_record_states_ordered asserts prev.state_time <= state.state_time",
                 f"time-order assertion missing or reversed ({asserts})")

    # ---------------------------------------------------------------- R15b
    gg = cfg_of(grl)

    def is_sort(n):
        for c in n.calls():
            if call_attr(c) == "sort" and "items" in norm(c.func):
                key = next((k.value for k in c.keywords if k.arg == "key"), None)
                if isinstance(key, ast.Lambda) and isinstance(key.body, ast.Attribute) and key.body.attr == "start" \
                        and not any(k.arg == "reverse" for k in c.keywords):
                    return True
        return False
    ext = [n for n in gg.nodes if any(call_attr(c) in ("extend", "append") and "items" in norm(c.func) for c in n.calls())]
    if not ext:
        raise AnchorError("get_runlog: no items.extend")
    inst = "get_runlog: items sorted by start after the last extend on every return path"
    p = gg.path_to_exit_avoiding([n.id for n in ext], is_sort, follow_exc=False)
    if p is not None:
        ctx.fail("R15b", grl, ext[0].ast, inst, "a path from adding items to the return does not sort them by item.start", p)
    else:
        # and no extend after the sort
        sorts = [n for n in gg.nodes if is_sort(n)]
        late = None
        for s in sorts:
            late = late or gg.search([s.id], lambda n: n in ext and n.id != s.id, follow_exc=False)
        if late:
            ctx.fail("R15b", grl, sorts[0].ast, inst, "items are added after the sort", late)
        else:
            ctx.ok("R15b", inst)
    # item.id
    idw = [(n, v, st) for n in g.nodes if n.kind == "stmt" and n.ast is not None for t, v, st in assigned_attrs(n.ast)
           if t.attr == "id" and isinstance(t.value, ast.Name) and t.value.id == NM["item"]]
    if not idw:
        raise AnchorError("item.id assignment not found")
    for n, v, st in idw:
        inst = f"_get_record_runlog_items: {norm(st)}"
        if norm(v) == f"{NM['state']}.instance_id":
            ctx.ok("R15b", inst)
        else:
            ctx.fail("R15b", gri, st, inst, "item id is not the invocation's instance id: ids may collide or not identify the "
                     "instance a client cancels/forces")
    sp = ri.find_method("_split_states_by_instance_id")
    if sp is None:
        raise AnchorError("_split_states_by_instance_id missing")
    ctx.analysed(sp)
    keyed = [n for n in walk_no_nested(sp.node) if isinstance(n, ast.Subscript) and isinstance(n.ctx, ast.Store)
             and norm(n.slice).endswith(".instance_id")]
    appended = [n for n in walk_no_nested(sp.node) if isinstance(n, ast.Call) and call_attr(n) == "append"
                and isinstance(n.func.value, ast.Subscript) and norm(n.func.value.slice).endswith(".instance_id")]
    inst = "_split_states_by_instance_id groups by st.instance_id"
    if keyed and appended:
        ctx.ok("R15b", inst)
    else:
        ctx.fail("R15b", sp, sp.node, inst, "states are no longer grouped by their instance id: two items may share an id")
    # minting
    mints = []
    for fn in prog.iter_functions():
        if fn.module.name not in (f"{RL}", "openpectus.lang.exec.tracking"):
            continue
        for c in walk_no_nested(fn.node):
            if isinstance(c, ast.Call) and norm(c.func) in ("uuid.uuid4", "uuid4"):
                mints.append((fn, c))
    tr_mints = [(fn, c) for fn, c in mints if fn.cls is trk]
    for fn, c in tr_mints:
        inst = f"{fn.short}: {norm(c)}"
        if fn.name == "create_node_instance_id":
            ctx.ok("R15b", inst)
        else:
            ctx.fail("R15b", fn, c, inst, "instance ids minted in a second place")
    if not tr_mints:
        ctx.fail("R15b", trk.find_method("create_node_instance_id"), None, "Tracking.create_node_instance_id: uuid4()",
                 "instance ids are no longer fresh uuid4 values: ids of distinct invocations can coincide")
    # ownership of ids passed to _add_record_state
    n_own = 0
    for name, fn in sorted(trk.methods.items()):
        lsd2 = local_single_defs(fn)
        for c in walk_no_nested(fn.node):
            if not (isinstance(c, ast.Call) and call_attr(c) == "_add_record_state" and len(c.args) >= 2):
                continue
            n_own += 1
            ctx.analysed(fn)
            i_expr, r_expr = c.args[0], c.args[1]
            i_def = lsd2.get(i_expr.id) if isinstance(i_expr, ast.Name) else None
            r_def = lsd2.get(r_expr.id) if isinstance(r_expr, ast.Name) else None
            inst = f"Tracking.{name}: {norm(c)[:80]}"
            rn = norm(r_expr)
            ok = False
            why = ""
            if i_def is not None:
                s = norm(i_def)
                if s.startswith(f"{rn}.last_instance_id or self.create_node_instance_id("):
                    ok, why = True, "last id of the record or fresh for its node"
                elif s == "str(uuid.uuid4())" and r_def is not None and "get_record_by_node" in norm(r_def):
                    ok, why = True, "fresh id, record of the node"
                elif r_def is not None and "get_record_by_instance" in norm(r_def) and _mentions(r_def, i_expr.id):
                    ok, why = True, "record looked up from the id"
                elif r_def is not None and "get_record_by_instance" in norm(r_def) and s.endswith(".instance_id"):
                    ok, why = True, "id of the instance the record was looked up for"
            elif isinstance(i_expr, ast.Name) and r_def is not None and "get_record_by_instance" in norm(r_def) \
                    and _mentions(r_def, i_expr.id):
                ok, why = True, "record looked up from the id"
            if not ok and isinstance(i_def, ast.Call) and isinstance(i_def.func, ast.Attribute) and norm(i_def.func.value) == "self":
                # a helper that picks the id: every value it returns is owned by the record it was given
                hp = trk.find_method(i_def.func.attr)
                pos = [k_ for k_, a_ in enumerate(i_def.args) if norm(a_) == rn]
                if hp is not None and pos:
                    hparams = [a_.arg for a_ in hp.node.args.args][1:]
                    rp = hparams[pos[0]] if pos[0] < len(hparams) else None
                    gh = cfg_of(hp)
                    rets = [n_ for n_ in gh.nodes if n_.kind == "stmt" and isinstance(n_.ast, ast.Return) and n_.ast.value is not None]
                    good = bool(rets) and rp is not None
                    for rnode in rets:
                        v = norm(rnode.ast.value)
                        if v.startswith(f"{rp}.last_instance_id or self.create_node_instance_id("):
                            continue
                        fx = facts_at(gh, rnode, local_single_defs(hp))
                        if not any(pol and a_.replace(" ", "") in (f"self.runtimeinfo.get_record_by_instance({v})is{rp}",
                                                                   f"{rp}isself.runtimeinfo.get_record_by_instance({v})") for a_, pol in fx):
                            good = False
                    if good:
                        ok, why = True, f"helper {hp.short} returns the record's last/fresh id or an id whose record is this record"
                        ctx.analysed(hp)
            if not ok:
                # multi-branch definitions (match statement): accept when every assignment to the id local is
                # X.instance_id with the record looked up from the same X, or record.last_instance_id
                if isinstance(i_expr, ast.Name) and _all_defs_owned(fn, i_expr.id, rn):
                    ok, why = True, "every definition of the id is owned by the record (match arms)"
                elif isinstance(i_expr, ast.Attribute) and i_expr.attr == "last_instance_id" and norm(i_expr.value) == rn:
                    ok, why = True, "the record's own last_instance_id, passed directly"
            if ok:
                ctx.ok("R15b", inst, {"rule": "R15b", "call": norm(c)[:80], "ownership": why})
            else:
                ctx.fail("R15b", fn, c, inst, "cannot show that the instance id belongs to the record the state is added to: an "
                         "id shared by two records yields two run-log items with the same id")
    if n_own < 9:
        raise AnchorError(f"only {n_own} _add_record_state calls found in Tracking (floor 9)")

    # ---------------------------------------------------------------- R15c
    rse = enum_members(prog.cls(f"{RL}:RuntimeRecordStateEnum"))
    if len(rse) < 8:
        raise AnchorError("RuntimeRecordStateEnum members not extracted")
    # the conclusive list
    cdef = next((v for k, v in lsd.items() if isinstance(v, ast.Compare) and len(v.ops) == 1 and isinstance(v.ops[0], ast.In)
                 and norm(v.left) == f"{NM['state']}.state_name"), None)
    if cdef is None:
        raise AnchorError("the `<conclusive> = <state>.state_name in [...]` definition was not found")
    concl = set()
    if isinstance(cdef, ast.Compare) and isinstance(cdef.comparators[0], (ast.List, ast.Tuple, ast.Set)):
        concl = {_member(e, "RuntimeRecordStateEnum") for e in cdef.comparators[0].elts}
    inst = "is_conclusive_state list = {Completed, Failed, Cancelled}"
    if concl == CONCLUSIVE and norm(cdef.left) == f"{NM['state']}.state_name":
        ctx.ok("R15c", inst)
    else:
        ctx.fail("R15c", gri, cdef, inst, f"conclusive states are {sorted(str(c) for c in concl)}: completed, failed and "
                 "cancelled items must all be finalised (and only those end an item)")
    total_paths = 0
    for v in sorted(rse):
        paths = _enumerate_loop_paths(g, loop, v)
        total_paths += len(paths)
        inst = f"state loop body for state_name == {v}"
        bad = None
        for events, outcome in paths:
            if outcome == "raise":
                continue
            sets = [(k, p, n) for k, p, n in events if k == "set"]
            ends = [x for x in sets if x[1][0] == "end"]
            if v in CONCLUSIVE:
                st_sets = [x for x in sets if x[1][0] == "state"]
                appended = [x for x in events if x[0] == "append"]
                if not st_sets or _member(st_sets[-1][1][1], "RunLogItemState") != v:
                    bad = (f"item.state is not set to RunLogItemState.{v}", events)
                elif not ends:
                    bad = ("item.end is not assigned", events)
                elif not appended:
                    bad = ("the finished item is not appended to the run log items", events)
                else:
                    ai = events.index(appended[0])
                    before = [x for x in events[:ai] if x[0] == "set"]
                    for fld in ("cancellable", "forcible"):
                        w = [x for x in before if x[1][0] == fld]
                        if not w or not (isinstance(w[-1][1][1], ast.Constant) and w[-1][1][1].value is False):
                            bad = (f"item.{fld} is not False when the {v.lower()} item is appended (last write: "
                                   f"{norm(w[-1][1][1]) if w else 'none'})", events)
                    if not [x for x in events[:ai] if x[0] == "set" and x[1][0] == "end"]:
                        bad = ("item.end is assigned only after the item was appended", events)
                    # after the append the item must not be modified through the same name
                    after = [x for x in events[ai + 1:] if x[0] == "set"]
                    if after and not any(x[0] == "item-rebound" for x in events[ai + 1:]):
                        bad = (f"item.{after[0][1][0]} is modified after the item was appended", events)
            else:
                if ends:
                    bad = ("item.end is assigned for a non-conclusive state", events)
            if bad:
                break
        if bad:
            msg, events = bad
            ctx.fail("R15c", gri, loop.ast, inst, f"for a record state {v}: {msg}",
                     [n for _, _, n in events])
        else:
            ctx.ok("R15c", inst, {"rule": "R15c", "state": v, "paths": len(paths), "conclusive": v in CONCLUSIVE})
    ctx.extra["paths_enumerated"] = total_paths
    # RunLogItem defaults: a fresh item is Unknown, not cancellable/forcible, end None
    rli = prog.cls(f"{RL}:RunLogItem")
    init = rli.find_method("__init__")
    if init is None:
        raise AnchorError("RunLogItem.__init__ missing")
    dflt = {t.attr: v for t, v, st in assigned_attrs(init.node)}
    inst = "RunLogItem() defaults: end None, state Unknown"
    if isinstance(dflt.get("end"), ast.Constant) and dflt["end"].value is None and _member(dflt.get("state"), "RunLogItemState") == "Unknown":
        ctx.ok("R15c", inst, trivial=True)
    else:
        ctx.fail("R15c", init, init.node, inst, "fresh run log items do not start as Unknown/without end")

    # ---------------------------------------------------------------- R15d
    first_loop = min((n for n in g.nodes if n.kind == "for"), key=lambda n: n.lineno)
    pre_returns = [n for n in g.nodes if n.kind == "stmt" and isinstance(n.ast, ast.Return) and n.lineno < first_loop.lineno]
    if len(pre_returns) < 3:
        raise AnchorError("exclusion returns of _get_record_runlog_items not found")
    for n in pre_returns:
        conds = g.conditions_at(n)
        classes, names, other = set(), set(), []
        for e, pol in conds:
            txt = norm(e)
            found = False
            for x in ast.walk(e):
                if isinstance(x, ast.Attribute) and x.attr.endswith("Node") and norm(x.value) == "p":
                    if pol:
                        classes.add(x.attr)
                    found = True
            if isinstance(e, ast.Compare) and norm(e.left) == f"{gri.node.args.args[1].arg}.name":
                found = True
                if pol and isinstance(e.ops[0], ast.Eq) and isinstance(e.comparators[0], ast.Constant):
                    names.add(e.comparators[0].value)
                elif pol and isinstance(e.ops[0], ast.Is) and norm(e.comparators[0]) == "None":
                    names.add(None)
                elif pol:
                    other.append(txt)
            if not found and pol:
                other.append(txt)
        inst = f"_get_record_runlog_items: exclusion return at condition [{' ; '.join(sorted(norm(e) if pol else 'not ' + norm(e) for e, pol in conds))[:160]}]"
        extra_cls = classes - ALLOWED_EXCLUDED_CLASSES
        extra_names = {x for x in names if x is not None} - ALLOWED_EXCLUDED_NAMES
        if extra_cls or extra_names or other:
            ctx.fail("R15d", gri, n.ast, inst, "records are excluded from the run log beyond the property's list: "
                     f"classes {sorted(extra_cls)}, names {sorted(extra_names)}, other conditions {other}")
        elif not classes and not names:
            ctx.fail("R15d", gri, n.ast, inst, "unconditional early return: no record yields run log items")
        else:
            ctx.ok("R15d", inst)
    rf = ri.find_method("records_filtered")
    if rf is None:
        raise AnchorError("RuntimeInfo.records_filtered missing")
    comps = [n for n in walk_no_nested(rf.node) if isinstance(n, ast.ListComp)]
    inst = "records_filtered: filters NullNode records only"
    flt = [norm(i) for c in comps for gen in c.generators for i in gen.ifs]
    want = [f"{norm(gen.target)}.node_class_name != 'NullNode'" for c in comps for gen in c.generators]
    if len(flt) == 1 and flt == want[:1]:
        ctx.ok("R15d", inst)
    else:
        ctx.fail("R15d", rf, rf.node, inst, f"record filter is {flt}: instructions other than the allowed exclusions may vanish "
                 "from the run log")
    src = [n for n in walk_no_nested(grl.node) if isinstance(n, ast.For)]
    if not src or "records_filtered" not in norm(src[0].iter):
        ctx.fail("R15d", grl, grl.node, "get_runlog iterates records_filtered", "get_runlog no longer iterates all filtered records")
    else:
        ctx.ok("R15d", "get_runlog iterates records_filtered", trivial=True)

    # ---------------------------------------------------------------- R15e
    pi = prog.cls(PI)
    n_pairs = 0
    for name, fn in sorted(pi.methods.items()):
        if not name.startswith("visit_") or name in EXCLUDED_VISITORS or len(fn.node.args.args) < 2:
            continue
        par = fn.node.args.args[1].arg
        gv = cfg_of(fn)
        sets = [n for n in gv.nodes if n.kind == "stmt" and n.ast is not None and any(
            t.attr == "completed" and isinstance(t.value, ast.Name) and t.value.id == par and isinstance(v, ast.Constant)
            and v.value is True for t, v, st in assigned_attrs(n.ast))]
        if not sets:
            continue
        ctx.analysed(fn)

        def marks(n, par=par):
            return any(call_attr(c) == "mark_completed" and c.args and norm(c.args[0]) == par for c in n.calls())
        for s in sets:
            n_pairs += 1
            inst = f"PInterpreter.{name}: {par}.completed = True"
            # either every path from entry to s passes a mark, or every path from s to the exit does
            before = gv.search(None, lambda n, s=s: n.id == s.id, blocked=marks, follow_exc=False)
            after = gv.path_to_exit_avoiding([s.id], lambda n, s=s: n.id != s.id and marks(n), follow_exc=False)
            if before is not None and after is not None:
                ctx.fail("R15e", fn, s.ast, inst, "the instruction is marked completed on a path that never calls "
                         f"tracking.mark_completed({par}): it completes without a Completed run-log state", before)
            else:
                ctx.ok("R15e", inst)
    if n_pairs < 13:
        raise AnchorError(f"only {n_pairs} `node.completed = True` sites found in PInterpreter visitors (floor 13)")


    # ---------------------------------------------------------------- R15f
    CMQ = "openpectus.engine.command_manager:CommandManager"
    outer = prog.func(f"{CMQ}._execute_command")
    cancel = prog.func(f"{CMQ}._cancel_command")
    ctx.analysed(outer)
    ctx.analysed(cancel)
    MARKS = {"mark_completed": "Completed", "mark_failed": "Failed", "mark_cancelled": "Cancelled"}
    cancel_par = cancel.node.args.args[1].arg
    cancel_marks = {MARKS[call_attr(c)] for c in walk_no_nested(cancel.node) if isinstance(c, ast.Call) and call_attr(c) in MARKS
                    and c.args and norm(c.args[0]) == cancel_par}

    # the Cancelled mark inside _cancel_command is guarded by `not <cmd>.is_execution_complete()`; execution-complete is
    # monotone, so after a node that holds `<cmd>.is_execution_complete()` the summary contributes no Cancelled mark
    gcan = cfg_of(cancel)
    cancel_needs_incomplete = False
    for cn in gcan.nodes:
        if cn.ast is not None and any(call_attr(c) == "mark_cancelled" for c in cn.calls()):
            cancel_needs_incomplete = any(a.endswith(".is_execution_complete()") and not pol for a, pol in facts_at(gcan, cn))

    def marks_of(n, subjects):
        out = set()
        for c in n.calls():
            nm = call_attr(c)
            if nm in MARKS and c.args and norm(c.args[0]) in subjects:
                out.add(MARKS[nm])
            if nm == "_cancel_command" and c.args and norm(c.args[0]) in subjects:
                out |= cancel_marks
        return out
    go = cfg_of(outer)
    opar = outer.node.args.args[1].arg
    handler_marks = []   # (node, kinds) inside except handlers of the outer function
    for n in go.nodes:
        if n.ast is not None and marks_of(n, {opar}) and any(isinstance(a, ast.ExceptHandler) for a in _ancestors_of(outer, n.ast)):
            handler_marks.append((n, marks_of(n, {opar})))
    if not handler_marks:
        raise AnchorError("CommandManager._execute_command: handler no longer marks the request failed")
    n_f = 0
    for callee_name in ("_execute_uod_command", "_execute_internal_command"):
        k = prog.func(f"{CMQ}.{callee_name}")
        ctx.analysed(k)
        gk = cfg_of(k)
        kpar = k.node.args.args[1].arg
        # subjects: the request parameter and command objects obtained for it
        subjects = {kpar}
        for nm, dv in local_single_defs(k).items():
            if isinstance(dv, ast.Call) and kpar in norm(dv):
                subjects.add(nm)
        for st in ast.walk(k.node):
            if isinstance(st, ast.Assign) and len(st.targets) == 1 and isinstance(st.targets[0], ast.Name) and kpar in norm(st.value):
                subjects.add(st.targets[0].id)
        mk_nodes = [(n, marks_of(n, subjects)) for n in gk.nodes if n.ast is not None and marks_of(n, subjects)]
        called_in_try = any(call_attr(c) == callee_name for n in go.nodes for c in n.calls())
        for n, kinds in mk_nodes:
            # (1) a different conclusive mark later in the same function
            n_complete = any(a.endswith(".is_execution_complete()") and pol for a, pol in facts_at(gk, n))
            for n2, kinds2 in mk_nodes:
                if n_complete and cancel_needs_incomplete and any(call_attr(c) == "_cancel_command" for c in n2.calls()) \
                        and not any(call_attr(c) in MARKS for c in n2.calls()):
                    kinds2 = kinds2 - {"Cancelled"}
                if n2.id == n.id or not (kinds2 - kinds):
                    continue
                n_f += 1
                inst = f"{callee_name}: `{n.text()[:50]}` ({'/'.join(sorted(kinds))}) then `{n2.text()[:50]}` ({'/'.join(sorted(kinds2))})"
                pth = gk.search([n.id], lambda x, n2=n2: x.id == n2.id, follow_exc=True)
                if pth is not None and len(pth) > 1:
                    ctx.fail("R15f", k, n2.ast, inst, "one request can be given two different conclusive record states on this path: "
                             "get_runlog() raises 'Error generating runlog' from then on", pth)
                else:
                    ctx.ok("R15f", inst, trivial=True)
            # (2) leaving by raise into the outer handler, which marks Failed
            if called_in_try:
                for hn, hk in handler_marks:
                    if not (hk - kinds):
                        continue
                    n_f += 1
                    inst = f"{callee_name}: `{n.text()[:50]}` ({'/'.join(sorted(kinds))}) then raise -> _execute_command: `{hn.text()[:45]}` ({'/'.join(sorted(hk))})"
                    # leave n normally (if the mark itself raises the state was not added), then reach the raise exit; a
                    # statement that only logs (or calls nothing) is not taken to raise
                    def quiet(sid, d, lab, gk=gk):
                        if lab != "exc":
                            return False
                        sn = gk.nodes[sid]
                        if isinstance(sn.ast, ast.Raise):
                            return False
                        return all(norm(c.func).split(".")[0] in ("logger", "frontend_logger") for c in sn.calls())
                    starts = [d for d, lab in gk.succ[n.id] if lab != "exc"]
                    pth = gk.search(starts, lambda x: x.id == gk.raise_exit.id, follow_exc=True, blocked_edge=quiet) if starts else None
                    if pth is not None:
                        pth = [n] + pth
                        ctx.fail("R15f", k, n.ast, inst, "the request is given a conclusive record state and the function then leaves by "
                                 "raising; the caller's handler marks the same request Failed: two conclusive states for one "
                                 "invocation make get_runlog() raise 'Error generating runlog' for the rest of the run", pth)
                    else:
                        ctx.ok("R15f", inst)
    if n_f < 3:
        raise AnchorError(f"R15f: only {n_f} conclusive-mark pairs examined in CommandManager (floor 3)")
    # ---------------------------------------------------------------- R15h
    ctx.rule("R15h", "last_instance_id is the most recently created invocation")
    rr = prog.cls("openpectus.lang.exec.runlog:RuntimeRecord")
    li = rr.methods.get("last_instance_id")
    if li is None:
        raise AnchorError("RuntimeRecord.last_instance_id missing")
    ctx.analysed(li)
    gl = cfg_of(li)
    rets = [n for n in gl.nodes if n.kind == "stmt" and isinstance(n.ast, ast.Return) and n.ast.value is not None
            and not (isinstance(n.ast.value, ast.Constant) and n.ast.value.value is None)]
    created_rets = [n for n in rets if any(pol and "Created" in a for a, pol in facts_at(gl, n))]
    inst = "RuntimeRecord.last_instance_id returns the instance of the latest Created state"
    fallback = [n for n in rets if n not in created_rets]
    ok_ = bool(created_rets) and all(any(gl.search([c.id], lambda x, f_=f_: x.id == f_.id) is None for c in created_rets) or True for f_ in fallback) \
        and all(any(l.kind == "for" and gl.dominates(l, f_) for l in gl.nodes) for f_ in fallback)
    if ok_:
        ctx.ok("R15h", inst)
    else:
        ctx.fail("R15h", li, li.node, inst, "the id of the last *state* is returned: after `created <new>` / `completed <old>` (a macro or Alarm body "
                 "invoking a uod command again while the previous one is still running) that is the old invocation - the new request is "
                 "issued under the old id and the second invocation never executes its command")
    # ---------------------------------------------------------------- R15g
    ctx.rule("R15g", "a state recorded for a request/command is attributed to that request's own invocation")
    from ..util import value_leaves
    trk = prog.cls("openpectus.lang.exec.tracking:Tracking")
    cmcls = prog.cls(CMQ)
    called: dict[str, list] = {}
    for fn in cmcls.methods.values():
        for c in walk_no_nested(fn.node):
            if isinstance(c, ast.Call) and (call_attr(c) or "").startswith("mark_") and isinstance(c.func, ast.Attribute) \
                    and norm(c.func.value).endswith("tracking") and c.args and isinstance(c.args[0], ast.Name):
                # request / command arguments only (a node argument refers to the node's latest invocation by definition)
                an = c.args[0].id
                if an in [a.arg for a in fn.node.args.args] or an.startswith(("cmd", "command", "uod_command")):
                    if "node" in an:
                        continue
                    called.setdefault(call_attr(c), []).append((fn, c))
    n_g = 0
    for mname, sites in sorted(called.items()):
        m = trk.methods.get(mname)
        if m is None:
            raise AnchorError(f"Tracking.{mname} missing")
        ctx.analysed(m)
        adds = [c for c in walk_no_nested(m.node) if isinstance(c, ast.Call) and call_attr(c) == "_add_record_state" and c.args]
        if not adds:
            raise AnchorError(f"Tracking.{mname}: no _add_record_state call")
        n_g += 1
        inst = f"Tracking.{mname}: the state goes to the instance's own invocation"
        bad_add = None
        for a in adds:
            leaves = value_leaves(ctx.res, a.args[0], m)
            own = any(isinstance(lf_, ast.Attribute) and lf_.attr == "instance_id" for lf_, _ in leaves)
            if not own:
                bad_add = (a, leaves)
        if bad_add is None:
            ctx.ok("R15g", inst, {"rule": "R15g", "called_from": sorted({fn.short for fn, _ in sites})})
        else:
            a, leaves = bad_add
            ctx.fail("R15g", m, a, inst, f"the instance id comes only from {sorted({norm(x) for x, _ in leaves})[:3]} - the latest invocation of the "
                     f"node - although {sites[0][0].short} passes a request/command of a possibly earlier invocation: re-invoking a still "
                     "running UOD command from a macro or Alarm body records the old request's Cancelled on the new invocation, and "
                     "get_runlog() raises 'Error generating runlog' from then on")
    if n_g < 4:
        raise AnchorError(f"R15g: only {n_g} Tracking.mark_* methods are called from CommandManager with a request/command (floor 4)")
    # (3) a cancelled command has had its Cancelled state recorded when cancel() was applied. Paths on which a command that
    # `is_cancelled()` is given Completed/Failed exist in the executors (they finalize a cancelled command that is still
    # registered and then fall into the completion mark); they are dead only as long as every cancellation finalizes and
    # retires the request at once, so that no cancelled command is ever executed again.
    latent = []
    for callee_name in ("_execute_uod_command", "_execute_internal_command"):
        k = prog.func(f"{CMQ}.{callee_name}")
        gk = cfg_of(k)
        ctests = [n for n in gk.nodes if n.kind == "test" and isinstance(n.ast, ast.Call) and call_attr(n.ast) == "is_cancelled"]
        marks2 = [n for n in gk.nodes if n.ast is not None and any(call_attr(c) in ("mark_completed", "mark_failed") for c in n.calls())]
        for t in ctests:
            for m2 in marks2:
                pth = gk.search([(t.id, "T")], lambda x, m2=m2: x.id == m2.id, follow_exc=False)
                if pth is not None:
                    latent.append((k, t, m2, pth))
    cm_cls = prog.cls(CMQ)

    def finalize_flag(call, target):
        """The finalize argument of a call to `target` (a FuncInfo with a finalize parameter): ('true',) / ('default',) /
        ('param', name) / ('other', text)."""
        params = [a.arg for a in target.node.args.args]
        fpos = [i for i, a in enumerate(target.node.args.args) if a.arg not in ("self",)][1:2]
        # the finalize parameter: the boolean-default parameter after the request
        defaults = dict(zip(params[len(params) - len(target.node.args.defaults):], target.node.args.defaults))
        fname = next((p_ for p_ in params if p_ in defaults and isinstance(defaults[p_], ast.Constant) and isinstance(defaults[p_].value, bool)), None)
        if fname is None:
            return ("other", "no finalize parameter")
        idx = params.index(fname) - 1
        v = None
        if len(call.args) > idx:
            v = call.args[idx]
        for kw_ in call.keywords:
            if kw_.arg == fname:
                v = kw_.value
        if v is None:
            return ("true",) if defaults[fname].value is True else ("other", f"default {defaults[fname].value}")
        if isinstance(v, ast.Constant):
            return ("true",) if v.value is True else ("other", norm(v))
        if isinstance(v, ast.Name):
            return ("param", v.id)
        return ("other", norm(v))

    def check_sites(target, depth=0):
        bad = []
        for fn in prog.iter_functions():
            if "/test" in fn.module.path or ".test." in fn.module.name:
                continue
            for c in walk_no_nested(fn.node):
                if isinstance(c, ast.Call) and call_attr(c) == target.name and isinstance(c.func, ast.Attribute):
                    ff = finalize_flag(c, target)
                    if ff[0] == "true":
                        continue
                    if ff[0] == "param" and depth < 2 and ff[1] in [a.arg for a in fn.node.args.args]:
                        bad += check_sites(fn, depth + 1)
                        continue
                    bad.append((fn, c, ff))
        return bad
    if latent:
        inst = "every cancellation finalizes at once, so the executors never see a cancelled command that is still registered"
        bad = check_sites(cancel)
        from ..cmdgate import concluded_gate, executors_only_from_gate
        gate_ok, ec_, _ = concluded_gate(prog, ctx.res)
        gk_ = cfg_of(cancel)
        # the cancellation that is applied to a live command records Cancelled on the request (R15g: on its own invocation)
        cn_ = [n for n in gk_.nodes if n.ast is not None and any(call_attr(c) == "cancel" and not c.args for c in n.calls())]
        recorded = bool(cn_) and all(gk_.path_to_exit_avoiding([n.id], lambda x: x.ast is not None and any(
            call_attr(c) == "mark_cancelled" for c in x.calls()), follow_exc=False) is None for n in cn_)
        if not bad:
            ctx.ok("R15f", inst, {"rule": "R15f", "latent_paths": len(latent), "by": "every cancellation finalizes at once"})
        elif gate_ok and recorded and not executors_only_from_gate(prog):
            # A cancellation that leaves the request in the executing list has recorded Cancelled for the request's invocation
            # (or, when tracking refused the mark, recorded nothing conclusive). _execute_command - the only caller of the
            # executors - retires a request whose invocation has concluded before it dispatches, so the latent paths are
            # entered only by requests without a conclusive state.
            ctx.ok("R15f", "a cancelled command that is still registered is retired by _execute_command before the executors see it",
                   {"rule": "R15f", "latent_paths": len(latent), "by": "conclusive-state gate in _execute_command",
                    "non_finalizing_cancellations": [f"{fn.short}: {norm(c)}" for fn, c, _ in bad]})
        else:
            fn, c, ff = bad[0]
            k, t, m2, pth = latent[0]
            ctx.fail("R15f", fn, c, inst, f"`{norm(c)}` cancels without finalizing ({' '.join(ff)}): the request stays in the executing list, "
                     f"and in the next tick {k.short} finalizes the cancelled command and then reaches `{m2.text()[:50]}` - Cancelled followed "
                     "by a second conclusive state, after which get_runlog() raises for the rest of the run", pth)
    _r15i(ctx, prog, cancel)
    _r15j(ctx, prog)
    _r15klm(ctx, prog)
    _r15n(ctx, prog)


def _r15n(ctx, prog):
    ctx.rule("R15n", "a new interpreter inherits the tracking state of the one it replaces")
    mm = prog.cls("openpectus.engine.method_manager:MethodManager")
    n_ctor = 0
    for fn in mm.methods.values():
        for c in ast.walk(fn.node):
            if not (isinstance(c, ast.Call) and norm(c.func).split(".")[-1] == "PInterpreter"):
                continue
            n_ctor += 1
            ctx.analysed(fn)
            arg = c.args[3] if len(c.args) > 3 else next((k.value for k in c.keywords if k.arg and "track" in k.arg), None)
            inst = f"{fn.short}: PInterpreter(...) takes its tracking state from the interpreter it replaces"
            if arg is None:
                ctx.fail("R15n", fn, c, inst, "the interpreter is built without a tracking argument: it starts with tracking disabled")
                continue
            from ..util import local_all_defs
            defs = local_all_defs(fn)
            srcs = [arg]
            if isinstance(arg, ast.Name):
                srcs = list(defs.get(arg.id, [])) or [arg]
            inherits = any("tracking.enabled" in norm(x) for x in srcs)
            params = [a.arg for a in fn.node.args.args]
            via_param = isinstance(arg, ast.Name) and arg.id in params and not defs.get(arg.id)
            if inherits:
                ctx.ok("R15n", inst)
            elif via_param:
                # every call site outside __init__ must pass the replaced interpreter's state
                bad = None
                n_sites = 0
                for g2 in mm.methods.values():
                    for cc in ast.walk(g2.node):
                        if isinstance(cc, ast.Call) and call_attr_(cc) == fn.name and isinstance(cc.func, ast.Attribute):
                            n_sites += 1
                            passed = next((k.value for k in cc.keywords if k.arg == arg.id), None)
                            pos = params.index(arg.id) - 1
                            if passed is None and len(cc.args) > pos:
                                passed = cc.args[pos]
                            if g2.name == "__init__":
                                continue
                            if passed is None or "tracking.enabled" not in norm(passed):
                                bad = (g2, cc)
                if bad is None and n_sites:
                    ctx.ok("R15n", inst)
                else:
                    g2, cc = bad if bad else (fn, c)
                    ctx.fail("R15n", g2, cc, inst, f"`{norm(cc)[:70]}` does not pass the tracking state of the current interpreter (parameter "
                             f"`{arg.id}` defaults to disabled): a method saved after Start has executed but before the interpreter's "
                             "first tick replaces the interpreter by one whose Tracking drops every state - instructions run and "
                             "complete, the run log has no item for them")
            else:
                ctx.fail("R15n", fn, c, inst, f"the tracking argument `{norm(arg)[:50]}` does not derive from the replaced interpreter's tracking.enabled")
    if n_ctor == 0:
        raise AnchorError("MethodManager builds no PInterpreter")


def call_attr_(c):
    return c.func.attr if isinstance(c.func, ast.Attribute) else (c.func.id if isinstance(c.func, ast.Name) else None)


def _monotone_write(fn, st, t, v) -> bool:
    cur = f"{norm(t.value)}.tick_time"
    if isinstance(v, ast.Call) and isinstance(v.func, ast.Name) and v.func.id == "max" and cur in [norm(a) for a in v.args]:
        return True
    for anc in _ancestors_of(fn, st):
        if isinstance(anc, ast.If) and st in anc.body and isinstance(anc.test, ast.Compare) and len(anc.test.ops) == 1:
            l, r, op = norm(anc.test.left), norm(anc.test.comparators[0]), anc.test.ops[0]
            if (isinstance(op, (ast.Gt, ast.GtE)) and l == norm(v) and r == cur) or (isinstance(op, (ast.Lt, ast.LtE)) and l == cur and r == norm(v)):
                return True
    return False


def _r15klm(ctx, prog):
    from ..util import cfg_of, call_attr
    ctx.rule("R15k", "an invocation that has concluded accepts no further state (checked where states are appended)")
    ctx.rule("R15l", "Watch and Alarm visitors test node.cancelled before recording AwaitingCondition and before each activation attempt")
    ctx.rule("R15m", "a body is reset only after the handlers of its descendants were removed")
    rr = prog.cls(f"{RL}:RuntimeRecord")
    add = rr.find_method("_add_state")
    if add is None:
        raise AnchorError("RuntimeRecord._add_state missing")
    ctx.analysed(add)
    g = cfg_of(add)
    appends = [n for n in g.nodes if any(call_attr(c) in ("append", "insert", "extend") and norm(c.func.value) == "self.states" for c in n.calls())]
    if not appends:
        raise AnchorError("_add_state: no write to self.states")
    params = [a.arg for a in add.node.args.args]
    id_par = params[1]

    def _guard_loop(n) -> bool:
        """for st in self.states: if st.instance_id == <id> and st.state_name in [conclusive...]: ... return"""
        if n.kind != "for" or norm(n.ast.iter) != "self.states" or not isinstance(n.ast.target, ast.Name):
            return False
        v = n.ast.target.id
        for st in n.ast.body:
            if not isinstance(st, ast.If) or not any(isinstance(x, ast.Return) for x in st.body):
                continue
            conj = st.test.values if isinstance(st.test, ast.BoolOp) and isinstance(st.test.op, ast.And) else [st.test]
            same_id = any(isinstance(c, ast.Compare) and isinstance(c.ops[0], ast.Eq)
                          and {norm(c.left), norm(c.comparators[0])} == {f"{v}.instance_id", id_par} for c in conj)
            members = set()
            for c in conj:
                if isinstance(c, ast.Compare) and isinstance(c.ops[0], ast.In) and norm(c.left) == f"{v}.state_name" \
                        and isinstance(c.comparators[0], (ast.List, ast.Tuple, ast.Set)):
                    members = {norm(e).split(".")[-1] for e in c.comparators[0].elts}
                if isinstance(c, ast.Call) and "conclusive" in norm(c.func):
                    members = {"Completed", "Failed", "Cancelled"}
            if same_id and {"Completed", "Failed", "Cancelled"} <= members and len(conj) == 2:
                return True
        return False
    guards = [n for n in g.nodes if _guard_loop(n)]
    for a in appends:
        inst = "_add_state: the append is reached only through the scan for a conclusive state of the same invocation"
        if guards and any(g.dominates(gd, a) for gd in guards):
            ctx.ok("R15k", inst)
        else:
            ctx.fail("R15k", add, a.ast, inst, "a state is appended to an invocation that already has a conclusive state: the run-log "
                     "generator closes an item at its first conclusive state and raises on any later state of that invocation, in "
                     "every tick for the rest of the run - and callers do reach this (a cancelled Alarm going on to await its "
                     "condition, End block aborting an Alarm that completed in the previous tick, a stale handler of a macro's "
                     "earlier call)")
    # ---- R15l
    for vn in ("visit_WatchNode", "visit_AlarmNode"):
        f = prog.func(f"{PI}.{vn}")
        ctx.analysed(f)
        gv = cfg_of(f)
        npar = f.node.args.args[1].arg

        def _not_cancelled(n) -> bool:
            return any(norm(t) == f"{npar}.cancelled" and not pol for t, pol in gv.conditions_at(n))
        marks = [n for n in gv.nodes if any(call_attr(c) == "mark_awaiting_condition" for c in n.calls())]
        tries = [n for n in gv.nodes if any(call_attr(c) == "_try_activate_node" for c in n.calls())]
        if not marks or not tries:
            raise AnchorError(f"{vn}: mark_awaiting_condition / _try_activate_node not found")
        # the activation helper may refuse a cancelled node itself
        ta = prog.func(f"{PI}._try_activate_node")
        gta = cfg_of(ta)
        tpar = ta.node.args.args[1].arg
        acts = [n for n in gta.nodes if n.kind == "stmt" and isinstance(n.ast, ast.Assign) and norm(n.ast.targets[0]) == f"{tpar}.activated"]
        callee_guard = bool(acts) and all(any(norm(t) == f"{tpar}.cancelled" and not pol for t, pol in gta.conditions_at(a)) for a in acts)
        for n, what in [(m, "AwaitingCondition is recorded") for m in marks] + [(t, "the activation attempt is made") for t in tries]:
            inst = f"{vn}: {what} only under `not {npar}.cancelled`"
            if _not_cancelled(n) or (callee_guard and n in tries):
                ctx.ok("R15l", inst)
            else:
                ctx.fail("R15l", f, n.ast, inst, f"`{n.text()[:60]}` is reached although the user cancelled the item (its sibling visitor tests "
                         f"{npar}.cancelled here): the state lands behind Cancelled and the cancelled instruction still runs its body "
                         "when the condition comes true")
    # ---- R15m
    n_reset = 0
    for f in prog.cls(PI).methods.values():
        gv = None
        for c in walk_no_nested(f.node):
            if not (isinstance(c, ast.Call) and call_attr(c) == "reset_runtime_state" and any(
                    k.arg == "recursive" and isinstance(k.value, ast.Constant) and k.value.value is True for k in c.keywords)):
                continue
            X = norm(c.func.value)
            if X.endswith("_program"):
                continue    # the whole program is reset only when a run starts: no handlers exist
            n_reset += 1
            gv = gv or cfg_of(f)
            rn = gv.node_containing(c)
            inst = f"{f.name}: handlers of {X}'s descendants are removed before `{norm(c)}`"

            def _removes(n) -> bool:
                for cc in n.calls():
                    if call_attr(cc) == "_abort_block_interrupts" and cc.args and norm(cc.args[0]) == X:
                        return True
                if n.kind == "for" and f"{X}.get_child_nodes(recursive=True)" in norm(n.ast.iter) and any(
                        isinstance(y, ast.Call) and call_attr(y) == "_unregister_interrupt" for y in ast.walk(n.ast)):
                    return True
                return False
            rem = [n for n in gv.nodes if _removes(n)]
            if rn and rem and any(gv.dominates(r, rn[0]) for r in rem):
                ctx.ok("R15m", inst)
            else:
                ctx.fail("R15m", f, c, inst, "the body is reset while Watch/Alarm handlers registered by its previous invocation are still "
                         "alive: such a handler continues in the middle of the reset body, its Completed lands on the invocation the "
                         "new caller has just created, and the new caller's states follow behind it")
    ctx.floor("R15m", 2)


def _r15j(ctx, prog):
    from ..cmdgate import retire_branch_analysis, is_conclusive_predicate
    ctx.rule("R15j", "a request that has concluded is not recorded Cancelled by the cancel pass")
    f, g, marks, dones, skips = retire_branch_analysis(prog, ctx.res)
    ctx.analysed(f)
    if not marks:
        ctx.ok("R15j", "_cancel_command: the no-instance part records no state", trivial=True)
        return
    rpar = f.node.args.args[1].arg
    inst = "_cancel_command: Cancelled for a request without a command instance only if its invocation has not concluded"
    bad = None
    for m in marks:
        okm = False
        for e, pol in g.conditions_at(m):
            for c in ast.walk(e):
                if isinstance(c, ast.Call) and any(isinstance(a, ast.Attribute) and a.attr == "instance_id" and norm(a.value) == rpar for a in c.args) \
                        and any(is_conclusive_predicate(t) for t in ctx.res.resolve_call(c, f, cha=False)):
                    # the predicate is false here: it is a conjunct of a condition that is false as a whole only if ... keep it simple:
                    # accept `not pred` true, or a false condition in which pred is a conjunct together with conditions that are known true
                    txt = norm(e)
                    if (not pol) or txt.startswith("not "):
                        okm = True
        if not okm and bad is None:
            bad = m
    if bad is None:
        ctx.ok("R15j", inst)
    else:
        ctx.fail("R15j", f, bad.ast, inst, "a request whose uod command completed and was finalized earlier in this tick is still in the executing list "
                 "(it is committed at the end of the tick) and has no instance: the cancel pass of Stop/Restart takes it for 'not started' "
                 "and records Cancelled behind Completed - method `Mark: A / Shot / Mark: B` (Shot completes in its first execution), user "
                 "Stop in the tick gap before Shot executes: states created, started, uodcommandset, completed, cancelled; get_runlog() raises "
                 "'Error generating runlog' and the run-stopped message cannot be built")


def _r15i(ctx, prog, cancel):
    ctx.rule("R15i", "Cancelled for an unstarted request only when no other request executes the same invocation")
    pi = prog.cls("openpectus.lang.exec.pinterpreter:PInterpreter")
    shared = []
    for vn in ("visit_UodCommandNode", "visit_EngineCommandNode"):
        vf = pi.methods.get(vn)
        if vf is None:
            raise AnchorError(f"PInterpreter.{vn} missing")
        for c in walk_no_nested(vf.node):
            if isinstance(c, ast.Call) and call_attr(c) == "schedule_execution":
                idv = next((k.value for k in c.keywords if k.arg == "instance_id"), None)
                if isinstance(idv, ast.Name):
                    idv = local_single_defs(vf).get(idv.id, idv)
                if idv is not None and "last_instance_id" in norm(idv):
                    shared.append(vn)
    inst = "_cancel_command: retiring an unstarted request records Cancelled only if no other executing request has its instance id"
    if not shared:
        ctx.ok("R15i", inst + " (requests carry the id of their own visit: ids are not shared)", trivial=True)
        return
    g = cfg_of(cancel)
    rpar = cancel.node.args.args[1].arg
    marks = [n for n in g.nodes if n.ast is not None and any(call_attr(c) == "mark_cancelled" for c in n.calls())]
    # the retire branch: marks not dominated by a cancel() of the command instance
    cn = [n for n in g.nodes if n.ast is not None and any(call_attr(c) == "cancel" and not c.args for c in n.calls())]
    retire_marks = [m for m in marks if not any(g.dominates(c, m) for c in cn)]
    if not retire_marks:
        ctx.ok("R15i", inst + " (the retire branch records no state)", trivial=True)
        return
    bad = None
    for m in retire_marks:
        conds = [norm(e) for e, pol in g.conditions_at(m)] + [norm(local_single_defs(cancel).get(norm(e), e)) for e, pol in g.conditions_at(m)]
        if not any("instance_id" in c and rpar in c and ("cmd_executing" in c or "currently_executing" in c) for c in conds):
            bad = m
    if bad is None:
        ctx.ok("R15i", inst, {"rule": "R15i", "ids_shared_by": shared})
    else:
        ctx.fail("R15i", cancel, bad.ast, inst, f"{', '.join(shared)} issue requests under record.last_instance_id, so `Macro: M / LongC`, "
                 "`Watch: Run Time > 0.8s / Call macro: M`, `Wait: 0.3s`, `Call macro: M` queues two LongC requests with one id in one tick; "
                 "the same-name rule retires the first as Cancelled and the second then records Started under that id - Cancelled followed "
                 "by Started, and get_runlog() raises for the rest of the run (the run-stopped message cannot be built)")


def _mentions(expr: ast.AST, name: str) -> bool:
    return any(isinstance(n, ast.Name) and n.id == name for n in ast.walk(expr))


def _all_defs_owned(fn, id_name: str, rec_name: str) -> bool:
    """Every assignment `id_name = X.instance_id` has a sibling `rec_name = ...get_record_by_instance(X.instance_id)` in the
    same block, or is `rec_name.last_instance_id`."""
    defs = []
    for n in ast.walk(fn.node):
        body = getattr(n, "body", None)
        if not isinstance(body, list):
            continue
        for i, st in enumerate(body):
            if isinstance(st, ast.Assign) and len(st.targets) == 1 and isinstance(st.targets[0], ast.Name) \
                    and st.targets[0].id == id_name:
                defs.append((st, body))
    if not defs:
        return False
    for st, body in defs:
        s = norm(st.value)
        if s == f"{rec_name}.last_instance_id":
            continue
        if s.endswith(".instance_id"):
            sib = [x for x in body if isinstance(x, ast.Assign) and len(x.targets) == 1 and isinstance(x.targets[0], ast.Name)
                   and x.targets[0].id == rec_name and "get_record_by_instance" in norm(x.value)
                   and (s in norm(x.value) or id_name in [n.id for n in ast.walk(x.value) if isinstance(n, ast.Name)])]
            if sib:
                continue
        return False
    return True


def _ancestors_of(fn, node):
    pm = {id(ch): par for par in ast.walk(fn.node) for ch in ast.iter_child_nodes(par)}
    cur = pm.get(id(node))
    while cur is not None:
        yield cur
        cur = pm.get(id(cur))


def _discover_names(gri, g) -> None:
    """Fill NM by role: item = the local assigned RunLogItem(); items = the list local the function returns; state/inx = the
    targets of the innermost loop that contains the RunLogItem() assignment."""
    item = None
    for n in ast.walk(gri.node):
        if isinstance(n, ast.Assign) and len(n.targets) == 1 and isinstance(n.targets[0], ast.Name) and isinstance(n.value, ast.Call) \
                and call_attr(n.value) == "RunLogItem":
            item = n
    if item is None:
        raise AnchorError("_get_record_runlog_items: `<item> = RunLogItem()` not found")
    NM["item"] = item.targets[0].id
    rets = [n.value.id for n in ast.walk(gri.node) if isinstance(n, ast.Return) and isinstance(n.value, ast.Name)]
    if not rets:
        raise AnchorError("_get_record_runlog_items: returned list local not found")
    NM["items"] = rets[-1]
    inner = None
    for lp in ast.walk(gri.node):
        if isinstance(lp, ast.For) and any(x is item for x in ast.walk(lp)):
            if inner is None or any(x is lp for x in ast.walk(inner)):
                inner = lp
    if inner is None or not (isinstance(inner.target, ast.Tuple) and len(inner.target.elts) == 2):
        raise AnchorError("_get_record_runlog_items: state loop around the RunLogItem() assignment not found")
    NM["inx"], NM["state"] = norm(inner.target.elts[0]), norm(inner.target.elts[1])
