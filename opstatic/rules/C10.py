"""C10 - Stop and Restart leave no command running and start cleanly: must-call sets + sibling agreement.

R10a on the non-failing path of StopEngineCommand._run and RestartEngineCommand._run these are called,
     in this order: cancel_all_commands(source) -> tracking.disable -> emitter.emit_on_stop ->
     clear_run_id -> _stop_interpreter; Restart then, after a segment boundary (yield),
     set_run_id -> tracking.enable -> emit_on_start. Engine.cancel_all_commands calls
     CommandManager.cancel_commands with finalize=True, whose loop calls _cancel_command(req, finalize)
     for every request other than the source; _cancel_command finalizes on every non-raising path when
     an instance exists; _stop_interpreter resets the interpreter.
R10b Tag.on_stop ends a simulation (stop_simulation under `simulated`); every subclass of Tag that
     overrides on_stop calls super().on_stop() on all paths.
R10c EventEmitter.emit_on_stop calls on_stop on every listener.
R10d Stop can only cancel what it can see: as long as cancel_commands walks only the *executing requests* (no sweep, R10g), every live
     UOD command instance must belong to an executing request or be finalized. In CommandManager._execute_uod_command every path
     from the acquisition of the instance (create_command / get_command) to a *raising* exit finalizes the instance
     (_finalize_command, _cancel_command with its default finalize=True, or finalize()) - a failed command whose request
     is dropped while its instance stays registered survives Stop and Restart and swallows the next request of that name;
     and _finalize_command reaches _executing_command_done on every path (request and instance leave together).
Decides the clean-up structure; run-log completeness at every stop point is not decided.
R10e no start window between the cancel and the stop: Stop and Restart are generators that span several ticks; requests that are
     executed *after* them in the tick of their first segment (a user request made in the same inter-tick gap, one tick
     earlier in the queue) start their commands after the cancel. In StopEngineCommand._run and
     RestartEngineCommand._run a cancel_all_commands(...) call must therefore lie in the same generator segment as
     (and before) _stop_interpreter() - a cancel that is separated from the stop by a `yield` leaves a one-tick window in
     which a command can start that nothing cancels or finalizes any more.
R10f what Stop cancels is shown as cancelled: Stop's cancellation reaches the run log through Tracking.mark_cancelled(request), whose
     exceptions _cancel_command swallows. For a request/command instance the command *has* been cancelled whatever its node
     says, so (1) a refusal of the node (`node.cancel()` false: the user forced the running instruction, or the node was already
     flagged) may raise only when the instance is the node itself - for a request every path goes on to the Cancelled state;
     (2) the node is touched only if it has started in this invocation (`node.started`, as in mark_completed): the command of the
     previous macro call / Alarm run that is cancelled after the body was reset would otherwise flag the fresh node, and the
     second invocation's own cancellation is then the refused one.
R10g Stop cancels what exists, not only what it sees: a live UOD command instance can be without an executing request (the
     command manager is replaced by every method merge and starts with empty lists; a request can be retired by the
     concluded-invocation gate). In CommandManager.cancel_commands, when finalizing, there is a loop over the unit operation's
     own registry (`uod.command_instances`) whose body reaches a finalize() of the iterated command - logging the leftovers is
     not enough: the instance survives Stop and Restart and the next request of that name continues it.
R10h retiring a request does not abandon its command: the concluded-invocation gate of _execute_command (C12 R12g) retires the
     request without reaching the executors. If the request has started a command (the instance registered under its name
     carries the request's instance id) the gate finalizes it (_finalize_command) - two requests issued under one instance id
     (a macro body walked by the main program and a Watch one tick apart) conclude the invocation while the second request's
     command is running.
R10i nothing that Stop cancels stays open: every path on which that part of _cancel_command retires a request *without* recording
     Cancelled has taken the true outcome of the conclusive-state predicate on the request's instance id (it has its final state) or of
     the shared-instance-id test (another executing request carries the invocation, C15 R15i) - "its command has started and is gone"
     is not such a reason: the instance may have been taken away under the name by the request handled just before.
R10j a UOD command line that was reached but not requested yet is concluded when the run ends: the interpreter creates the invocation
     one tick before the visitor issues the command request, and the run-log generator shows a Created-only invocation as started.
     cancel_commands(finalize=True) - the sweep Stop and Restart run in their closing segment - calls a Tracking method that records
     Cancelled for every UodCommandNode whose latest invocation has nothing but Created (it tests has_unstarted_invocation).
"""
from __future__ import annotations

import ast

from ..model import AnchorError, norm, walk_no_nested
from ..util import cfg_of, call_attr, node_calls
from ..cfg import facts_at

EXPLANATION = __doc__
IMPL = "openpectus.engine.internal_commands_impl"


def _stop_sweeps_instances(prog):
    """(ok, cancel_commands FuncInfo, loops): when finalizing, cancel_commands walks uod.command_instances and finalizes what it finds."""
    ccm = prog.func("openpectus.engine.command_manager:CommandManager.cancel_commands")
    gcc = cfg_of(ccm)
    loops = [n for n in gcc.nodes if n.kind == "for" and "command_instances" in norm(n.ast.iter)]
    fin_ok = False
    for lp in loops:
        tnames = {x.id for x in ast.walk(lp.ast.target) if isinstance(x, ast.Name)}
        for st in ast.walk(lp.ast):
            if isinstance(st, ast.Call) and call_attr(st) in ("finalize", "_finalize_command"):
                recv = st.func.value if call_attr(st) == "finalize" else (st.args[1] if len(st.args) > 1 else None)
                if recv is not None and any(isinstance(x, ast.Name) and x.id in tnames for x in ast.walk(recv)):
                    if any("finalize" in norm(e) and pol for e, pol in gcc.conditions_at(lp)):
                        fin_ok = True
    return fin_ok, ccm, loops


def _order_check(ctx, f, names: list[str], start=None):
    """Each call in `names` occurs, and each is dominated by the previous one."""
    g = cfg_of(f)
    prev = None
    for nm in names:
        nodes = [n for n in g.nodes if node_calls(n, nm)]
        if start is not None:
            nodes = [n for n in nodes if g.dominates(start, n)]
        inst = f"{f.short}: {nm}" + (f" after {prev[0]}" if prev else "")
        if not nodes:
            ctx.fail("R10a", f, f.node, inst, f"{nm} is never called on the stop/restart path")
            continue
        n = nodes[0]
        if prev is not None and not g.dominates(prev[1], n):
            ctx.fail("R10a", f, n.ast, inst, f"{nm} is not preceded by {prev[0]} on every path")
        else:
            ctx.ok("R10a", inst)
        prev = (nm, n)
    return prev


def run(ctx) -> None:
    prog = ctx.prog
    for r, d in [("R10a", "ordered must-call sets of Stop and Restart"), ("R10b", "on_stop super chain ends simulations"),
                 ("R10c", "emit_on_stop reaches every listener"),
                 ("R10d", "a failing uod command is finalized before its exception leaves the command manager")]:
        ctx.rule(r, d)
    impl = prog.module(IMPL)
    stop = impl.classes["StopEngineCommand"].methods["_run"]
    restart = impl.classes["RestartEngineCommand"].methods["_run"]
    ctx.analysed(stop)
    ctx.analysed(restart)
    seq = ["cancel_all_commands", "disable", "emit_on_stop", "clear_run_id", "_stop_interpreter"]
    _order_check(ctx, stop, seq)
    last = _order_check(ctx, restart, seq)
    g = cfg_of(restart)
    if last is not None:
        ys = [n for n in g.nodes if n.kind == "stmt" and isinstance(n.ast, ast.Expr) and isinstance(n.ast.value, ast.Yield)
              and g.dominates(last[1], n)]
        if not ys:
            ctx.fail("R10a", restart, restart.node, "RestartEngineCommand._run: segment boundary between stop half and start half",
                     "no yield separates stopping from starting again")
        else:
            ctx.ok("R10a", "RestartEngineCommand._run: segment boundary between stop half and start half")
            _order_check(ctx, restart, ["set_run_id", "enable", "emit_on_start"], start=ys[0])
    # the cancel_all_commands call passes the command's own name as source
    for f in (stop, restart):
        for c in walk_no_nested(f.node):
            if isinstance(c, ast.Call) and call_attr(c) == "cancel_all_commands":
                a = c.args[0] if c.args else next((k.value for k in c.keywords if k.arg == "source_command_name"), None)
                inst = f"{f.short}: cancel_all_commands(source = self.name)"
                if a is not None and norm(a) == "self.name":
                    ctx.ok("R10a", inst)
                else:
                    ctx.fail("R10a", f, c, inst, "the command would cancel itself or spare the wrong command")
    ca = prog.func("openpectus.engine.engine:Engine.cancel_all_commands")
    ctx.analysed(ca)
    calls = [c for c in walk_no_nested(ca.node) if isinstance(c, ast.Call) and call_attr(c) == "cancel_commands"]
    fin = calls and any(k.arg == "finalize" and isinstance(k.value, ast.Constant) and k.value.value is True for k in calls[0].keywords)
    if fin:
        ctx.ok("R10a", "Engine.cancel_all_commands -> cancel_commands(finalize=True)")
    else:
        ctx.fail("R10a", ca, ca.node, "Engine.cancel_all_commands -> cancel_commands(finalize=True)",
                 "commands are cancelled without being finalized: instances stay registered after Stop")
    cc = prog.func("openpectus.engine.command_manager:CommandManager.cancel_commands")
    ctx.analysed(cc)
    g = cfg_of(cc)
    from ..util import local_single_defs as _lsd
    cdefs = _lsd(cc)
    loops = [n for n in g.nodes if n.kind == "for" and ("cmd_executing" in norm(n.ast.iter) or (
        isinstance(n.ast.iter, ast.Name) and n.ast.iter.id in cdefs and "cmd_executing" in norm(cdefs[n.ast.iter.id])))]
    if not loops:
        raise AnchorError("cancel_commands: loop over executing requests not found")
    lp = loops[0]
    # every iteration either is the source (continue under name == source) or calls _cancel_command
    def src_edge(nid, d, lab):
        nn = g.nodes[nid]
        return nn.kind == "test" and "source_command_name" in norm(nn.ast) and "==" in norm(nn.ast) and lab == "T"
    p = g.search([(lp.id, "loop")], lambda n: n.id == lp.id, blocked=lambda n: node_calls(n, "_cancel_command"), blocked_edge=src_edge)
    if p is None:
        ctx.ok("R10a", "cancel_commands: every request other than the source is cancelled")
    else:
        ctx.fail("R10a", cc, lp.ast, "cancel_commands: every request other than the source is cancelled", "a request can be skipped", p)
    ccp = cc.node.args.args[2].arg if len(cc.node.args.args) > 2 else "finalize"      # cancel_commands' own finalize parameter
    pass_fin = any(call_attr(c) == "_cancel_command" and (len(c.args) > 1 and norm(c.args[1]) == ccp or any(
        k.arg is not None and norm(k.value) == ccp for k in c.keywords)) for c in walk_no_nested(cc.node) if isinstance(c, ast.Call))
    if pass_fin:
        ctx.ok("R10a", "cancel_commands forwards its finalize flag")
    else:
        ctx.fail("R10a", cc, cc.node, "cancel_commands forwards its finalize flag", "finalize flag dropped")
    cn = prog.func("openpectus.engine.command_manager:CommandManager._cancel_command")
    ctx.analysed(cn)
    g = cfg_of(cn)
    cnp = cn.node.args.args[2].arg if len(cn.node.args.args) > 2 else "finalize"
    tests = [n for n in g.nodes if n.kind == "test" and norm(n.ast) == cnp]
    if tests and any(node_calls(n, "_finalize_command") and g.edge_dominates(tests[0].id, "T", n.id) for n in g.nodes):
        ctx.ok("R10a", "_cancel_command finalizes when asked to")
    else:
        ctx.fail("R10a", cn, cn.node, "_cancel_command finalizes when asked to", "finalize branch missing")
    si = prog.func("openpectus.engine.engine:Engine._stop_interpreter")
    ctx.analysed(si)
    g = cfg_of(si)
    if g.path_to_exit_avoiding(None, lambda n: node_calls(n, "reset_interpreter")) is None:
        ctx.ok("R10a", "_stop_interpreter must-call reset_interpreter")
    else:
        ctx.fail("R10a", si, si.node, "_stop_interpreter must-call reset_interpreter", "the method would not run again from its first line")
    # ---- R10b
    tag = prog.cls("openpectus.lang.exec.tags:Tag")
    os_ = tag.methods.get("on_stop")
    if os_ is None:
        raise AnchorError("Tag.on_stop missing")
    ctx.analysed(os_)
    g = cfg_of(os_)
    sims = [n for n in g.nodes if n.kind == "test" and norm(n.ast) == "self.simulated"]
    if sims and g.search([(sims[0].id, "T")], lambda n: n.id == g.exit.id, blocked=lambda n: node_calls(n, "stop_simulation")) is None:
        ctx.ok("R10b", "Tag.on_stop ends a running simulation")
    else:
        ctx.fail("R10b", os_, os_.node, "Tag.on_stop ends a running simulation", "simulations survive Stop")
    n_over = 0
    for c in tag.all_subclasses():
        if c.module.is_test:
            continue
        m = c.methods.get("on_stop")
        if m is None:
            continue
        n_over += 1
        ctx.analysed(m)
        g = cfg_of(m)
        def sup(n) -> bool:
            return any(call_attr(x) == "on_stop" and isinstance(x.func, ast.Attribute) and norm(x.func.value).startswith("super(") for x in n.calls())
        p = g.path_to_exit_avoiding(None, sup)
        inst = f"{c.name}.on_stop calls super().on_stop() on every path"
        if p is None:
            ctx.ok("R10b", inst)
        else:
            ctx.fail("R10b", m, m.node, inst, f"{c.name} overrides on_stop without calling super().on_stop(): Tag.on_stop (which ends a "
                     f"simulation of this tag) never runs, so a simulated value of this tag survives Stop/Restart", p)
    ctx.extra["on_stop_overrides"] = n_over
    if n_over < 1:
        raise AnchorError("no Tag subclass overrides on_stop (floor 1): the rule would pass vacuously")
    # ---- R10c
    em = prog.func("openpectus.lang.exec.events:EventEmitter.emit_on_stop")
    ctx.analysed(em)
    loops = [n for n in walk_no_nested(em.node) if isinstance(n, ast.For) and "_listeners" in norm(n.iter)]
    if loops and any(isinstance(c, ast.Call) and call_attr(c) == "on_stop" for c in walk_no_nested(loops[0])):
        ctx.ok("R10c", "emit_on_stop calls on_stop on every listener")
    else:
        ctx.fail("R10c", em, em.node, "emit_on_stop calls on_stop on every listener", "tags are not told that the run stopped")

    # ---- R10d
    CMQ = "openpectus.engine.command_manager:CommandManager"
    xu = prog.func(f"{CMQ}._execute_uod_command")
    ctx.analysed(xu)
    gx = cfg_of(xu)
    acq = [n for n in gx.nodes if any(call_attr(c) in ("create_command", "get_command") for c in n.calls())]
    if not acq:
        raise AnchorError("_execute_uod_command: instance acquisition (create_command/get_command) not found")

    def finalizes(n) -> bool:
        for c in n.calls():
            nm = call_attr(c)
            if nm in ("_finalize_command", "finalize"):
                return True
            if nm == "_cancel_command":
                fin = next((k.value for k in c.keywords if k.arg == "finalize"), c.args[1] if len(c.args) > 1 else None)
                if fin is None or (isinstance(fin, ast.Constant) and fin.value is True):
                    return True
        return False

    def already_final(nid, d, lab) -> bool:
        # leaving a test `X.is_finalized()` on its true edge (or `not X.is_finalized()` on its false edge): nothing left to finalize
        nn = gx.nodes[nid]
        if nn.kind != "test":
            return False
        t = norm(nn.ast)
        if t.endswith(".is_finalized()"):
            return lab == ("F" if t.startswith("not ") else "T")
        return False
    for n in acq:
        inst = f"_execute_uod_command: instance from `{n.text()[:45]}` is finalized on every raising exit"
        p = gx.search([(n.id, "")], lambda x: x.id == gx.raise_exit.id, blocked=finalizes, blocked_edge=already_final, follow_exc=True)
        if p is None:
            ctx.ok("R10d", inst)
        elif _stop_sweeps_instances(prog)[0]:
            # Stop/Restart finalize every registered instance, with or without a request (R10g): an instance left behind by a failing
            # path no longer survives the end of the run. (That it is left unfinalized until then is C11's business: R11c.)
            ctx.ok("R10d", inst + " - or by the sweep of cancel_commands when the run ends (R10g)", {"rule": "R10d", "by": "R10g sweep"})
        else:
            ctx.fail("R10d", xu, n.ast, inst, "a path on which the command fails leaves _execute_uod_command by raising without "
                     "finalizing the instance: it stays in uod.command_instances while its request is dropped, so Stop/Restart "
                     "(which cancel the executing requests) never reach it and the next request of that command finds it", p)
    fc = prog.func(f"{CMQ}._finalize_command")
    ctx.analysed(fc)
    gf = cfg_of(fc)
    inst = "_finalize_command: the request is marked done on every path (also when finalize raises)"
    p = gf.path_to_exit_avoiding(None, lambda n: node_calls(n, "_executing_command_done"), include_raise=True)
    if p is None:
        ctx.ok("R10d", inst)
    else:
        ctx.fail("R10d", fc, fc.node, inst, "a path through _finalize_command does not mark the request done", p)

    # ---- R10e
    ctx.rule("R10e", "commands are cancelled in the same generator segment in which the run is stopped")
    for cn in ("StopEngineCommand", "RestartEngineCommand"):
        f = impl.classes[cn].methods["_run"]
        g = cfg_of(f)
        stops = [n for n in g.nodes if node_calls(n, "_stop_interpreter")]
        if not stops:
            raise AnchorError(f"{cn}._run: _stop_interpreter() not found")

        def is_yield(n):
            return n.kind == "stmt" and isinstance(n.ast, ast.Expr) and isinstance(n.ast.value, (ast.Yield, ast.YieldFrom))
        for st in stops:
            inst = f"{cn}._run: cancel_all_commands in the segment that calls _stop_interpreter()"
            # walk backwards from the stop to the segment start (a yield or the entry): is there a path from the segment start to
            # the stop that passes no cancel_all_commands?
            seg_starts = [n.id for n in g.nodes if is_yield(n)] + [g.entry.id]
            bad = None
            for sid in seg_starts:
                # paths sid -> st that contain no further yield and no cancel
                p = g.search([sid], lambda n, st=st: n.id == st.id,
                             blocked=lambda n, sid=sid: (n.id != sid and is_yield(n)) or node_calls(n, "cancel_all_commands"), follow_exc=False)
                if p is not None:
                    bad = p
                    break
            if bad is None:
                ctx.ok("R10e", inst)
            else:
                ctx.fail("R10e", f, st.ast, inst, "the run is stopped in a later tick than the one in which the other commands were "
                         "cancelled: a request executed after this command in the tick of the cancel (e.g. a user command and a "
                         "user Stop made in the same tick gap, executed newest first) starts its UOD command after the cancel; "
                         "nothing cancels or finalizes it, and its instance is still registered when Stop/Restart completes", bad)

    # ---- R10f
    ctx.rule("R10f", "the cancellation of a command is recorded whatever its node says")
    mcf = prog.func("openpectus.lang.exec.tracking:Tracking.mark_cancelled")
    ctx.analysed(mcf)
    gmc = cfg_of(mcf)
    from ..util import local_single_defs as _lsd10
    ld = _lsd10(mcf)
    ipar = [a.arg for a in mcf.node.args.args if a.arg != "self"][0]
    ncancel = [n for n in gmc.nodes if n.ast is not None and any(call_attr(c) == "cancel" and not c.args for c in n.calls())]
    adds = [n for n in gmc.nodes if n.ast is not None and any(call_attr(c) == "_add_record_state" and "Cancelled" in norm(c) for c in n.calls())]
    if not ncancel or not adds:
        raise AnchorError("Tracking.mark_cancelled: node.cancel() / _add_record_state(.., Cancelled) not found")

    def is_cmd_text(t: str) -> bool:
        return "isinstance(" + ipar in t and ("CommandRequest" in t or "EngineCommand" in t)

    def is_node_text(t: str) -> bool:
        return "isinstance(" + ipar in t and ".Node" in t and "CommandRequest" not in t
    inst = "Tracking.mark_cancelled: a node that refuses the cancel stops only a request that names the node"
    bad = None
    for r in [n for n in gmc.nodes if n.kind == "stmt" and isinstance(n.ast, ast.Raise)]:
        fx = facts_at(gmc, r, ld)
        if not any("cancel()" in a and not pol for a, pol in fx):
            continue            # not the refusal
        only_node = any((is_cmd_text(a) and not pol) or (is_node_text(a) and pol) for a, pol in fx)
        if not only_node:
            bad = r
    if bad is None:
        ctx.ok("R10f", inst)
    else:
        ctx.fail("R10f", mcf, bad.ast, inst, "the refusal raises for command requests too, before the Cancelled state is added, and "
                 "CommandManager._cancel_command swallows it: a uod command the user forced (the run log offers it as forcible) and Stop "
                 "then cancels stays `forced`, end=None in the run log sent at run end")
    inst = "Tracking.mark_cancelled: a command touches its node only if the node has started in this invocation"
    ok_started = all(any("started" in norm(e) or "started" in norm(ld.get(norm(e), e)) or any(
        isinstance(x, ast.Name) and x.id in ld and "started" in norm(ld[x.id]) for x in ast.walk(e)) for e, pol in gmc.conditions_at(n)) for n in ncancel)
    if ok_started:
        ctx.ok("R10f", inst)
    else:
        ctx.fail("R10f", mcf, ncancel[0].ast, inst, "node.cancel() is applied whenever the state belongs to the record's latest invocation - also "
                 "when the node was reset for the next macro call / Alarm run and has not been visited again (no new Created yet): the "
                 "overlap-cancel of the previous call's command flags the fresh node, the second invocation's cancellation by Stop is "
                 "refused and its command stays `started` in the run log sent at run end")

    # ---- R10g
    ctx.rule("R10g", "Stop finalizes UOD command instances that have no executing request")
    fin_ok, ccm, loops = _stop_sweeps_instances(prog)
    ctx.analysed(ccm)
    inst = "cancel_commands(finalize=True): every instance left in uod.command_instances is finalized"
    if fin_ok:
        ctx.ok("R10g", inst)
    else:
        ctx.fail("R10g", ccm, (loops[0].ast if loops else ccm.node), inst, "instances without an executing request are only reported ('All commands "
                 "should be cancelled but these are still not finalized'): user saves the method while `LongA` runs (the merge replaces the "
                 "CommandManager and its executing list) and stops within three ticks - Stop completes, uod.command_instances still holds "
                 "LongA, its finalize function never ran, and the next run's LongA continues the stale instance")
    # ---- R10j
    ctx.rule("R10j", "the sweep at run end concludes uod command invocations that were created but never requested")
    trk = prog.cls("openpectus.lang.exec.tracking:Tracking")
    gcc_ = cfg_of(ccm)
    sweepers = []
    for n in gcc_.nodes:
        for c in n.calls():
            m_ = trk.methods.get(call_attr(c) or "")
            if m_ is None or "tracking" not in norm(c.func):
                continue
            body_txt = norm(m_.node)
            if "Cancelled" in body_txt and ("has_unstarted_invocation" in body_txt or "Created" in body_txt) and "UodCommandNode" in body_txt \
                    and any(isinstance(x, ast.For) for x in ast.walk(m_.node)):
                if any("finalize" in norm(e) and pol for e, pol in gcc_.conditions_at(n)) or not gcc_.conditions_at(n):
                    sweepers.append((n, m_))
    inst = "cancel_commands(finalize=True): unstarted invocations of uod command lines are recorded Cancelled"
    if sweepers:
        ctx.analysed(sweepers[0][1])
        ctx.ok("R10j", inst, {"rule": "R10j", "sweeper": sweepers[0][1].short})
    else:
        ctx.fail("R10j", ccm, ccm.node, inst, "Stop or Restart landing in the tick in which the interpreter first visits a uod command line: the "
                 "invocation exists (Created) but no request and no instance, so neither the cancel pass nor the instance sweep sees it - the run "
                 "log of the run-stopped message shows the command started, with no end, not cancelled, not failed")
    # ---- R10h
    ctx.rule("R10h", "the concluded-invocation gate finalizes the command its request has started")
    from ..cmdgate import concluded_gate, is_conclusive_predicate
    gate_ok, ecf, disp = concluded_gate(prog, ctx.res)
    ctx.analysed(ecf)
    inst = "_execute_command: a retired request's own live command instance is finalized"
    ge0 = cfg_of(ecf)
    has_pred_test = any(n.kind == "test" and any(isinstance(c, ast.Call) and any(is_conclusive_predicate(t_) for t_ in ctx.res.resolve_call(c, ecf, cha=False))
                                                  for c in ast.walk(n.ast)) for n in ge0.nodes)
    if not gate_ok and has_pred_test:
        # a weakened gate is C12's finding (R12g); for C10 it means: requests may reach the executors although concluded, nothing is orphaned
        ctx.ok("R10h", inst + " (the gate is weakened - reported by C12 R12g - so no request is retired in front of the executors on that path)", trivial=True)
        gate_ok = None
    if gate_ok is None:
        pass
    elif not gate_ok:
        ctx.ok("R10h", inst + " (no gate: requests are not retired before the executors)", trivial=True)
    else:
        ge = cfg_of(ecf)
        rpar = ecf.node.args.args[1].arg
        fins = [n for n in ge.nodes if n.ast is not None and any(call_attr(c) in ("_finalize_command", "finalize") for c in n.calls())]
        own = [n for n in fins if any(("instance_id" in norm(e) and rpar in norm(e) and pol) for e, pol in ge.conditions_at(n))]
        if own:
            ctx.ok("R10h", inst)
        else:
            ctx.fail("R10h", ecf, disp[0].ast, inst, "the gate only drops the request: `Macro: M / LongC`, `Watch: Run Time > 0.8s / Call macro: M`, "
                     "`Wait: 0.5s`, `Call macro: M` - both walkers issue LongC under one instance id, the second request cancels the first "
                     "one's command (Cancelled on the shared id) and starts its own, which the gate orphans in the next tick: Stop and "
                     "Restart complete with LongC still in uod.command_instances (initialized twice, finalized once)")

    # ---- R10i
    ctx.rule("R10i", "a request the cancel pass retires without a state has concluded or is executed by another request")
    from ..cmdgate import retire_branch_analysis
    f_, g_, marks_, dones_, skips_ = retire_branch_analysis(prog, ctx.res)
    ctx.analysed(f_)
    rpar_ = f_.node.args.args[1].arg
    inst = "_cancel_command: retiring a request with no command instance without Cancelled needs a reason that concludes it"
    bad = None
    n_skip = 0
    for pth, outs in skips_:
        # only the part for requests of uod commands (the part that also records states); a request of another kind is just logged
        if not marks_ or not any(m for m in marks_):
            continue
        n_skip += 1
        reason = False
        for txt, lab in outs:
            concl = "is_instance_concluded(" in txt and f"{rpar_}.instance_id" in txt
            shared = "instance_id" in txt and ("cmd_executing" in txt or "currently_executing" in txt) and txt.lstrip().startswith("any(")
            if (concl or shared) and lab == "T":
                reason = True
            # a conjunction that is true makes each conjunct true
            if lab == "T" and " and " in txt and ("is_instance_concluded(" in txt and f"{rpar_}.instance_id" in txt):
                reason = True
        if not reason and bad is None:
            bad = (pth, outs)
    if not marks_:
        ctx.ok("R10i", inst + " (that part records no state at all)", trivial=True)
    elif bad is None:
        ctx.ok("R10i", inst, {"rule": "R10i", "paths_without_state": n_skip})
    else:
        pth, outs = bad
        ctx.fail("R10i", f_, pth[-1].ast, inst, f"the request is retired with no state recorded on a path whose tests ({[o[0][:50] + ' -> ' + o[1] for o in outs][-2:]}) "
                 "do not establish that its invocation has concluded: with the executing list [Stop, ReqB(X, new), ReqA(X, running)] Stop handles "
                 "ReqB first, finds ReqA's instance under the name X, cancels and finalizes it and marks ReqB cancelled; ReqA then has no "
                 "instance and is retired unmarked - its command was started and killed by Stop but stays `started` in the run log sent at run "
                 "end", pth)
