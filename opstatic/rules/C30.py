"""C30 - Each run yields exactly one recent run and one plot log: pairing rules in the aggregator.

R30a in FromEngine.run_started, create_plot_log is reached only on paths that have assigned a fresh
     RunData to the engine data (never on the duplicate-notification path).
R30b in FromEngine.run_stopped, the function returns early when no run is active, every
     store_recent_run call is under has_run(), and from every store_recent_run call all paths
     (normal and exceptional) reach reset_run() before the exit - so a resent run_stopped finds no run.
R30c who-may-call: store_recent_run and create_plot_log are called only from the run-boundary
     handlers; in run_started the store call sits on the run-id-mismatch branch only.
R30d EngineData.reset_run clears _run_data and has_run tests exactly that field.
R30e has_run() is also the duplicate test after a reconnect: the registration path restores the stored run
     whenever a run id is stored - not narrowed by any further condition - and under the stored id (the
     reconnect-restore clauses of C28, shared).
R30f the id of the current run is fixed when its RunData is created: no assignment to `<run data>.run_id` anywhere in the
     aggregator outside RunData's constructor (relabelling the current run stores it under another run's id).
R30g a run that has ended is told from a new one by its stored record: has_run() is cleared when the run stops, so in
     run_started every create_plot_log / fresh RunData is under a look-up of the notification's run id among the stored
     runs (a repository call taking `msg.run_id`) - otherwise a run_started resent after the stop opens the run again.
R30h run_stopped without an active run either finds the run already recorded or keeps the notification: dropping it
     leaves a run whose start arrives afterwards without a recent-run record (reordered notifications).
Decides the pairing structure; database behaviour and message arrival order are outside.
"""
from __future__ import annotations

import ast

from ..model import AnchorError, norm, walk_no_nested
from ..util import cfg_of, node_calls, call_attr, assigned_attrs, local_single_defs
from ..cfg import facts_at

EXPLANATION = __doc__
FE = "openpectus.aggregator.aggregator:FromEngine"


def _is_fresh_rundata_assign(n) -> bool:
    if n.kind != "stmt" or n.ast is None:
        return False
    for t, v, st in assigned_attrs(n.ast):
        if t.attr == "run_data" and isinstance(v, ast.Call) and "RunData" in norm(v.func):
            return True
    return False


def run(ctx) -> None:
    prog = ctx.prog
    started = prog.func(f"{FE}.run_started")
    stopped = prog.func(f"{FE}.run_stopped")
    ctx.analysed(started)
    ctx.analysed(stopped)
    # ---- R30f: the id of the current run is fixed when its RunData is created
    ctx.rule("R30f", "the run id of the current run data is never rewritten")
    rd = prog.cls("openpectus.aggregator.models:RunData")
    n_scanned = 0
    rewrites = []
    for fn in prog.iter_functions():
        if fn.module.is_test or not fn.module.name.startswith("openpectus.aggregator"):
            continue
        n_scanned += 1
        for t, v, st in assigned_attrs(fn.node):
            if t.attr != "run_id":
                continue
            cs = ctx.res.receiver_classes(t.value, fn)
            is_rd = any(c is rd for c in cs) or norm(t.value).endswith("run_data")
            if is_rd and not (fn.cls is rd and fn.name == "__init__"):
                rewrites.append((fn, st))
    inst = "RunData.run_id is assigned only when the RunData is constructed"
    if not rewrites:
        ctx.ok("R30f", inst, {"rule": "R30f", "functions_scanned": n_scanned})
    else:
        fn, st = rewrites[0]
        ctx.fail("R30f", fn, st, inst, f"`{norm(st)}` relabels the current run: the run that is then stored carries another run's id - that id gets a "
                 "second recent-run record and the current run gets none (e.g. a resent run_stopped of the previous run arriving "
                 "during the next run)")
    ctx.rule("R30a", "create_plot_log only after a fresh RunData was assigned")
    ctx.rule("R30b", "run_stopped: early return without run; store_recent_run always followed by reset_run")
    ctx.rule("R30c", "who-may-call store_recent_run / create_plot_log")
    ctx.rule("R30d", "reset_run clears the field has_run tests")
    ctx.rule("R30e", "a reconnecting engine's stored run is restored whenever a run id is stored (has_run() is the duplicate test)")
    from .C28 import restore_rules
    restore_rules(ctx, "R30e")

    # ---- R30a
    g = cfg_of(started)
    creates = [n for n in g.nodes if node_calls(n, "create_plot_log")]
    if not creates:
        raise AnchorError("no create_plot_log call in FromEngine.run_started")
    fresh = [n for n in g.nodes if _is_fresh_rundata_assign(n)]
    if not fresh:
        raise AnchorError("no `X.run_data = RunData...(…)` assignment in FromEngine.run_started")
    for c in creates:
        p = g.search(None, lambda n, c=c: n.id == c.id, blocked=_is_fresh_rundata_assign, follow_exc=False)
        inst = f"run_started: {c.text()}"
        if p is not None:
            ctx.fail("R30a", started, c.ast, inst,
                     "create_plot_log is reachable without a fresh RunData having been assigned: a duplicated or resent "
                     "run_started notification creates a second plot log for the same run", p)
        else:
            ctx.ok("R30a", inst, {"rule": "R30a", "create": c.text(), "fresh_assignments": [f.text() for f in fresh]})

    # ---- R30g
    ctx.rule("R30g", "run_started looks the run id up among the stored runs before opening a run")
    msgp = started.node.args.args[1].arg if len(started.node.args.args) > 1 else None
    if msgp is None:
        raise AnchorError("run_started signature changed")
    sdefs = local_single_defs(started)

    def _is_lookup(e) -> bool:
        from ..util import expand_local
        e = expand_local(e, sdefs)
        for x in ast.walk(e):
            if isinstance(x, ast.Call) and isinstance(x.func, ast.Attribute) and x.func.attr.startswith(("get_", "has_", "exists", "find_")) \
                    and "Repository" in norm(expand_local(x.func.value, sdefs)) \
                    and any(norm(a) == f"{msgp}.run_id" for a in list(x.args) + [k.value for k in x.keywords]):
                return True
        return False
    for c in creates + fresh:
        inst = f"run_started: `{c.text()[:60]}` is under a look-up of {msgp}.run_id among the stored runs"
        conds = g.conditions_at(c)
        if any(_is_lookup(t) for t, pol in conds):
            ctx.ok("R30g", inst)
        else:
            ctx.fail("R30g", started, c.ast, inst, "nothing on the way here asks whether this run id is already recorded as a recent run; "
                     "has_run() is False again once the run has stopped, so a run_started resent after the stop (or during the "
                     "next run) is taken for a new run: a second plot log, and later a second recent-run record, for the same run id")
    # ---- R30h
    ctx.rule("R30h", "run_stopped without an active run does not drop a notification whose run is not recorded")
    g2 = cfg_of(stopped)
    from ..util import expand_local as _xl
    _d2 = local_single_defs(stopped)
    early = [n for n in g2.nodes if n.kind == "stmt" and isinstance(n.ast, ast.Return) and any(
        norm(_xl(t, _d2)).endswith(".has_run()") and not pol for t, pol in g2.conditions_at(n))]
    if not early:
        raise AnchorError("run_stopped: no early return under `not has_run()`")
    for n in early:
        inst = "run_stopped: the no-active-run exit"
        sdefs2 = local_single_defs(stopped)
        body_lookup = any(isinstance(x, ast.Call) and call_attr(x) in ("get_by_run_id",) for t, pol in g2.conditions_at(n) for x in ast.walk(t))
        keeps = any(isinstance(x, (ast.Assign, ast.AugAssign)) or (isinstance(x, ast.Call) and call_attr(x) in ("append", "add", "setdefault"))
                    for m in g2.nodes if m.kind == "stmt" and m.ast is not None and g2.conditions_at(m) == g2.conditions_at(n)
                    for x in ast.walk(m.ast))
        if body_lookup or keeps:
            ctx.ok("R30h", inst)
        else:
            ctx.fail("R30h", stopped, n.ast, inst, "the notification is logged and forgotten whether or not its run is recorded: when "
                     "run_stopped overtakes the run_started of the same run (buffered notifications posted concurrently after a "
                     "reconnect), the run is opened afterwards and nothing ever closes it - no recent-run record for that run")

    # ---- R30b
    stores = [n for n in g2.nodes if node_calls(n, "store_recent_run")]
    if not stores:
        raise AnchorError("no store_recent_run call in FromEngine.run_stopped")
    for s in stores:
        inst = f"run_stopped: {s.text()}"
        facts = facts_at(g2, s, local_single_defs(stopped))
        has_run_true = any(a.endswith(".has_run()") and pol for a, pol in facts)
        p = g2.path_to_exit_avoiding([s.id], lambda n: n.id != s.id and node_calls(n, "reset_run"),
                                     include_raise=False, follow_exc=True)
        if not has_run_true:
            ctx.fail("R30b", stopped, s.ast, inst, "store_recent_run not guarded by has_run(): a resent run_stopped "
                     "would store the (already cleared) run again or raise")
        elif p is not None:
            ctx.fail("R30b", stopped, s.ast, inst, "a path from store_recent_run to the exit does not reset the run: a "
                     "resent run_stopped stores a second recent-run record", p)
        else:
            ctx.ok("R30b", inst)
    ctx.floor("R30b", 2)

    # ---- R30c
    allowed_store = {started.qualname, stopped.qualname}
    allowed_create = {started.qualname}
    n_store = n_create = 0
    for fn in prog.iter_functions():
        for c in walk_no_nested(fn.node):
            if not isinstance(c, ast.Call):
                continue
            nm = call_attr(c)
            if nm == "store_recent_run":
                n_store += 1
                inst = f"{fn.short}: {norm(c.func)}"
                if fn.qualname not in allowed_store:
                    ctx.fail("R30c", fn, c, inst, "store_recent_run called outside the run-boundary handlers: a run may "
                             "be stored more than once")
                elif fn is started:
                    gg = cfg_of(fn)
                    nodes = gg.node_containing(c)
                    facts = set().union(*(facts_at(gg, n, local_single_defs(fn)) for n in nodes)) if nodes else set()
                    mism = any("run_id" in a and "==" in a and not pol for a, pol in facts)
                    hasrun = any((a.endswith(".has_run()") and pol) for a, pol in facts)
                    if mism and hasrun:
                        ctx.ok("R30c", inst)
                    else:
                        ctx.fail("R30c", fn, c, inst, "store_recent_run in run_started is not confined to the "
                                 "'active run with a different run id' branch")
                else:
                    ctx.ok("R30c", inst)
            elif nm == "create_plot_log":
                n_create += 1
                inst = f"{fn.short}: {norm(c.func)}"
                if fn.qualname not in allowed_create:
                    ctx.fail("R30c", fn, c, inst, "create_plot_log called outside run_started")
                else:
                    ctx.ok("R30c", inst)
    ctx.floor("R30c", 4)

    # ---- R30d
    ed = prog.cls("openpectus.aggregator.models:EngineData")
    hr, rr = ed.find_method("has_run"), ed.find_method("reset_run")
    if hr is None or rr is None:
        raise AnchorError("EngineData.has_run/reset_run missing")
    ctx.analysed(hr)
    ctx.analysed(rr)
    tested = {n.attr for n in ast.walk(hr.node) if isinstance(n, ast.Attribute)}
    cleared = {t.attr for t, v, st in assigned_attrs(rr.node) if isinstance(v, ast.Constant) and v.value is None}
    if tested & cleared:
        ctx.ok("R30d", f"reset_run clears {sorted(tested & cleared)}")
    else:
        ctx.fail("R30d", rr, rr.node, "reset_run clears the has_run field",
                 f"has_run tests {sorted(tested)} but reset_run sets none of them to None ({sorted(cleared)})")
