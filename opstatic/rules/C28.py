"""C28 - A run survives engine reconnects and aggregator restarts: must-call / ordering rules.

R28a FromEngine.register_engine_data must-call _try_restore_reconnected_engine_data on every path;
     that function, on the branch `recent_engine.run_id is not None`, assigns engine_data.run_data from
     RunData built with that run id (and run_started), and restores the contributors.
R28b FromEngine.engine_disconnected calls store_recent_engine before it deletes the engine's map entry.
R28c Aggregator.shutdown stores every engine of the map (loop over the map containing
     store_recent_engine) and AggregatorServer.lifespan calls aggregator.shutdown() after the yield.
R28d RecentEngineRepository.store_recent_engine writes run_id/run_started from run_data under
     has_run() and None otherwise (so a restored engine continues exactly when a run was active).
R28e tag_values_changed persists under the run id of engine_data.run_data (the restored id).
R28f the stored run id follows the run: the recent-engine row is what a restarted aggregator reloads the active run from. In
     FromEngine.run_started and run_stopped every change of engine_data.run_data (assignment / reset_run()) is followed on every
     normal path to the exit by store_recent_engine - written only on disconnect and shutdown the row is missing after a crash (the
     run is not continued, its tags are skipped, it is never stored) or stale after a run has ended (the finished run is
     resurrected and stored a second time; the next run's tags go into its plot log).
R28g a snapshot belongs to the run: every TagsUpdatedMsg the engine builds gets its run_id from the builder's caller, and every call
     of a tag-update builder in EngineRunner passes the runner's run id - the steady-state snapshot takes the pending updates off the
     queue, and the aggregator skips a message without run id while a run is active (and still answers success).
Decides the restore/store structure; message arrival order is outside static reach.
R28h what waits for the log interval is stored before the memory is given up: FromEngine.engine_disconnected reaches the removal of the
     engine data only through `_persist_tag_values(.., flush=True)`, and Aggregator.shutdown calls it for every engine - values
     accepted since the last interval exist in EngineData.tags_info only, the restore after a reconnect brings back the newest stored
     tick time, and the engine's snapshot cannot re-deliver them (a tag's tick time is its last change, which is not newer).
R28i stored once also across a crash inside run_stopped: run_stopped commits the recent run and then, in a second commit, clears the run
     id of the recent engine. An aggregator that dies between the two finds a run id at the restart whose run is already stored; the
     restore must ask (a RecentRun look-up by the stored run id) before it continues that run - otherwise the resent run_stopped, or
     the next run_started, stores it a second time. Open known finding (the repair narrows the restore, which R28a/R30e deliberately
     forbid for any other condition; it needs those rules to learn this one exception first).
"""
from __future__ import annotations

import ast
import re

from ..model import AnchorError, norm, walk_no_nested
from ..util import cfg_of, node_calls, call_attr, assigned_attrs, kill_of_container_key
from ..cfg import facts_at

EXPLANATION = __doc__
FE = "openpectus.aggregator.aggregator:FromEngine"


def restore_rules(ctx, RULE: str) -> None:
    """The reconnect-restore clauses (shared with C30, whose duplicate/ignore decisions rest on has_run())."""
    prog = ctx.prog
    reg = prog.func(f"{FE}.register_engine_data")
    ctx.analysed(reg)
    g = cfg_of(reg)
    p = g.path_to_exit_avoiding(None, lambda n: node_calls(n, "_try_restore_reconnected_engine_data"))
    if p is not None:
        ctx.fail(RULE, reg, reg.node, "register_engine_data must-call _try_restore_reconnected_engine_data",
                 "a path registers the engine without restoring the data of its active run", p)
    else:
        ctx.ok(RULE, "register_engine_data must-call _try_restore_reconnected_engine_data")
    # the map write must exist too
    if not any(isinstance(t, ast.Subscript) and "_engine_data_map" in norm(t.value)
               for n in walk_no_nested(reg.node) if isinstance(n, ast.Assign) for t in n.targets):
        ctx.fail(RULE, reg, reg.node, "register_engine_data writes _engine_data_map", "engine data not stored in map")
    else:
        ctx.ok(RULE, "register_engine_data writes _engine_data_map[engine_id]")

    rest = prog.func(f"{FE}._try_restore_reconnected_engine_data")
    ctx.analysed(rest)
    g = cfg_of(rest)
    assigns = []
    for n in g.nodes:
        if n.kind == "stmt":
            for t, v, st in assigned_attrs(n.ast):
                if t.attr == "run_data":
                    assigns.append((n, v))
    if not assigns:
        ctx.fail(RULE, rest, rest.node, "_try_restore: engine_data.run_data = RunData(run_id=recent.run_id)", "run data never restored")
    for n, v in assigns:
        facts = facts_at(g, n)
        has_run_branch = any(("run_id is" in a and "None" in a and not pol) for a, pol in facts)
        # the run id passed must flow from recent_engine.run_id
        rid = None
        if isinstance(v, ast.Call):
            for k in v.keywords:
                if k.arg == "run_id":
                    rid = k.value
            if rid is None and v.args:
                rid = v.args[0]
        from ..util import local_single_defs, expand_local
        defs = local_single_defs(rest)
        rid_src = norm(expand_local(rid, defs)) if rid is not None else ""
        inst = f"_try_restore: {n.text()}"
        if not has_run_branch:
            ctx.fail(RULE, rest, n.ast, inst, "restore of run data is not on the branch `recent_engine.run_id is not None`")
        elif not rid_src.endswith(".run_id") or "recent" not in rid_src:
            ctx.fail(RULE, rest, n.ast, inst, f"restored run id does not come from the stored recent engine (is `{rid_src}`): the "
                     "run would continue under a different id")
        else:
            ctx.ok(RULE, inst)
    # the restore branch must be reachable on all paths where recent_engine.run_id is not None
    tests = [n for n in g.nodes if n.kind == "test" and "run_id is not None" in norm(n.ast)]
    if tests and assigns:
        # every test that establishes "a run id is stored"; path sensitive for the repeated `recent_engine is not None` tests (a path
        # on which the first of them was true cannot take the false outcome of a later one)
        p = None
        t = tests[0]
        for t_ in tests:
            p_ = g.consistent_path_to_exit_avoiding([(t_.id, "T")], lambda n: any(n.id == a.id for a, _ in assigns))
            if p_ is not None and p is None:
                p, t = p_, t_
        if p is not None:
            ctx.fail(RULE, rest, t.ast, "_try_restore: all paths with stored run id restore run data",
                     "a path with a stored run id leaves run data unset", p)
        else:
            ctx.ok(RULE, "_try_restore: all paths with stored run id restore run data")
    # the other direction: has_run() is restored from the stored run id alone, so the store side must *clear* the run id whenever
    # the engine is stored without an active run - a completed run whose id is kept is resurrected by the next reconnect
    # (and its next run_started / resent run_stopped stores a second recent-run record)
    sre = prog.func("openpectus.aggregator.data.repository:RecentEngineRepository.store_recent_engine")
    ctx.analysed(sre)
    gs = cfg_of(sre)
    hr_tests = [n for n in gs.nodes if n.kind == "test" and norm(n.ast).endswith(".has_run()")]
    inst = "store_recent_engine: without an active run the stored run id is cleared on every path"
    if not hr_tests:
        ctx.fail(RULE, sre, sre.node, inst, "the run fields are not decided by has_run()")
    else:
        def clears_run_id(n) -> bool:
            if n.kind != "stmt" or n.ast is None:
                return False
            return any(t.attr == "run_id" and isinstance(v, ast.Constant) and v.value is None for t, v, st in assigned_attrs(n.ast))
        pth = gs.search([(hr_tests[0].id, "F")], lambda n: n.id == gs.exit.id, blocked=clears_run_id, follow_exc=False)
        if pth is not None:
            ctx.fail(RULE, sre, hr_tests[0].ast, inst, "a path stores an engine that has no active run and keeps the previous run id: the "
                     "completed run is taken for active again when the engine reconnects (has_run() is restored from the stored "
                     "run id alone)", pth)
        else:
            ctx.ok(RULE, inst)
    # the restore may be skipped only because nothing is stored: every path that leaves run data unset must leave a test
    # that is exactly `<recent> is not None` / `<recent>.run_id is not None` on its false edge (no further conjunct may
    # narrow the restore: the stored run id alone says that a run was active)
    if assigns:
        def only_absent(src: int, dst: int, lab: str) -> bool:
            n = g.nodes[src]
            if n.kind != "test" or not isinstance(n.ast, ast.Compare) or len(n.ast.ops) != 1:
                return False
            txt = norm(n.ast)
            if isinstance(n.ast.ops[0], ast.IsNot) and txt.endswith(" is not None") and ("recent" in txt):
                return lab == "F" and (txt.endswith(".run_id is not None") or re.fullmatch(r"\w+ is not None", txt) is not None)
            if isinstance(n.ast.ops[0], ast.Is) and txt.endswith(" is None") and ("recent" in txt):
                return lab == "T" and (txt.endswith(".run_id is None") or re.fullmatch(r"\w+ is None", txt) is not None)
            return False
        skip = g.search([g.entry.id], lambda n: n.kind == "exit", blocked=lambda n: any(n.id == a.id for a, _ in assigns),
                        follow_exc=False, blocked_edge=only_absent)
        inst = "_try_restore: run data is left unset only when no recent engine / no run id is stored"
        if skip:
            conds = [x.text() for x in skip if x.kind == "test"]
            ctx.fail(RULE, rest, rest.node, inst, "a path skips the restore although a run id may be stored (the restore is narrowed by "
                     f"a further condition): {' ; '.join(conds)[:300]}")
        else:
            ctx.ok(RULE, inst)
    contrib = [t for t, v, st in assigned_attrs(rest.node) if t.attr == "contributors"]
    if contrib:
        ctx.ok(RULE, "_try_restore: contributors restored")
    else:
        ctx.fail(RULE, rest, rest.node, "_try_restore: contributors restored", "contributors of the run are not restored")



def run(ctx) -> None:
    _r28i(ctx)
    _r28h(ctx)
    prog = ctx.prog
    for r, d in [("R28a", "restore on register"), ("R28b", "store before delete on disconnect"),
                 ("R28c", "shutdown stores every engine"), ("R28d", "store_recent_engine run fields"),
                 ("R28e", "tag values persisted under restored run id")]:
        ctx.rule(r, d)
    restore_rules(ctx, "R28a")

    # ---- R28b
    dis = prog.func(f"{FE}.engine_disconnected")
    ctx.analysed(dis)
    g = cfg_of(dis)
    dels = [n for n in g.nodes if kill_of_container_key(n, lambda e: "_engine_data_map" in norm(e), None)]
    if not dels:
        raise AnchorError("engine_disconnected: no removal from _engine_data_map found")
    for d in dels:
        p = g.search(None, lambda n, d=d: n.id == d.id, blocked=lambda n: node_calls(n, "store_recent_engine"))
        inst = f"engine_disconnected: {d.text()}"
        if p is not None:
            ctx.fail("R28b", dis, d.ast, inst, "engine data is dropped from the map without having been stored as recent "
                     "engine: a reconnect cannot continue the run", p)
        else:
            ctx.ok("R28b", inst)

    # ---- R28c
    sh = prog.func("openpectus.aggregator.aggregator:Aggregator.shutdown")
    ctx.analysed(sh)
    loops = [n for n in walk_no_nested(sh.node) if isinstance(n, ast.For) and "_engine_data_map" in norm(n.iter)
             and any(isinstance(c, ast.Call) and call_attr(c) == "store_recent_engine" for c in walk_no_nested(n))]
    if loops:
        ctx.ok("R28c", "Aggregator.shutdown: for engine_data in map: store_recent_engine")
    else:
        ctx.fail("R28c", sh, sh.node, "Aggregator.shutdown: for engine_data in map: store_recent_engine",
                 "shutdown does not store every registered engine")
    ls = prog.func("openpectus.aggregator.aggregator_server:AggregatorServer.lifespan")
    ctx.analysed(ls)
    g = cfg_of(ls)
    ynodes = [n for n in g.nodes if any(isinstance(x, ast.Yield) for x in n.walk())]
    if not ynodes:
        raise AnchorError("AggregatorServer.lifespan has no yield")
    p = g.path_to_exit_avoiding([ynodes[0].id], lambda n: any(call_attr(c) == "shutdown" and "aggregator" in norm(c.func) for c in n.calls()))
    if p is not None:
        ctx.fail("R28c", ls, ls.node, "lifespan: aggregator.shutdown() after yield", "server shutdown path skips aggregator.shutdown()", p)
    else:
        ctx.ok("R28c", "lifespan: aggregator.shutdown() after yield")

    # ---- R28d
    st = prog.func("openpectus.aggregator.data.repository:RecentEngineRepository.store_recent_engine")
    ctx.analysed(st)
    g = cfg_of(st)
    for n in g.nodes:
        if n.kind != "stmt":
            continue
        for t, v, s in assigned_attrs(n.ast):
            if t.attr in ("run_id", "run_started") and "recent" in norm(t.value):
                facts = facts_at(g, n)
                hasrun = [pol for a, pol in facts if a.endswith(".has_run()")]
                inst = f"store_recent_engine: {norm(s)}"
                is_none = isinstance(v, ast.Constant) and v.value is None
                if not hasrun:
                    ctx.fail("R28d", st, s, inst, "run field written outside the has_run() decision")
                elif hasrun[0] and (is_none or f"run_data.{t.attr}" not in norm(v)):
                    ctx.fail("R28d", st, s, inst, "with an active run the stored field must be run_data." + t.attr)
                elif not hasrun[0] and not is_none:
                    ctx.fail("R28d", st, s, inst, "without an active run the stored field must be None")
                else:
                    ctx.ok("R28d", inst)
    ctx.floor("R28d", 4)

    # ---- R28e
    tv = prog.func(f"{FE}.tag_values_changed")
    pv = prog.func(f"{FE}._persist_tag_values")
    ctx.analysed(tv)
    ctx.analysed(pv)
    for fn, name in ((tv, "store_new_tag_info"), (pv, "store_tag_values")):
        calls = [c for c in walk_no_nested(fn.node) if isinstance(c, ast.Call) and call_attr(c) == name]
        if not calls:
            raise AnchorError(f"{fn.short}: call to {name} not found")
        for c in calls:
            rid = c.args[1] if len(c.args) > 1 else None
            inst = f"{fn.short}: {name}(.., {norm(rid) if rid is not None else '?'}, ..)"
            if rid is not None and norm(rid).endswith("run_data.run_id"):
                ctx.ok("R28e", inst)
            else:
                ctx.fail("R28e", fn, c, inst, "tag data is not recorded under the current (restored) run's id")

    # ---- R28f
    ctx.rule("R28f", "the recent-engine row is written whenever the active run changes")
    for fname in ("run_started", "run_stopped"):
        f = prog.func(f"{FE}.{fname}")
        ctx.analysed(f)
        g = cfg_of(f)
        changes = [n for n in g.nodes if n.ast is not None and (any(call_attr(c) == "reset_run" for c in n.calls()) or (
            n.kind == "stmt" and any(t.attr == "run_data" for t, v, st in assigned_attrs(n.ast))))]
        if not changes:
            raise AnchorError(f"{fname}: no change of run_data found")
        inst = f"{fname}: every change of the active run is followed by store_recent_engine"
        bad = None
        for ch in changes:
            p = g.path_to_exit_avoiding([ch.id], lambda n: node_calls(n, "store_recent_engine"), follow_exc=False)
            if p is not None and bad is None:
                bad = (ch, p)
        if bad is None:
            ctx.ok("R28f", inst)
        else:
            ctx.fail("R28f", f, bad[0].ast, inst, "the run changes but the recent-engine row keeps what it had: after run_started a crash of the "
                     "aggregator (no disconnect handler, no shutdown) leaves no run id to reload - the restarted aggregator does not continue "
                     "the run, skips its tag messages and never stores it; after run_stopped the row still names the finished run - a restart "
                     "resurrects it, stores it a second time and records the next run's tags in its plot log", bad[1])
    # ---- R28g
    ctx.rule("R28g", "every tag-update message the engine builds carries the runner's run id")
    mb = prog.cls("openpectus.engine.engine_message_builder:EngineMessageBuilder")
    builders = []
    for m in mb.methods.values():
        for c in walk_no_nested(m.node):
            if isinstance(c, ast.Call) and norm(c.func).endswith("TagsUpdatedMsg"):
                ctx.analysed(m)
                builders.append(m.name)
                rid = next((k.value for k in c.keywords if k.arg == "run_id"), None)
                params = [a.arg for a in m.node.args.args]
                inst = f"EngineMessageBuilder.{m.name}: TagsUpdatedMsg(run_id=<parameter>)"
                if isinstance(rid, ast.Name) and rid.id in params:
                    ctx.ok("R28g", inst)
                else:
                    ctx.fail("R28g", m, c, inst, "the message is built without the run id: the steady-state snapshot after a reconnect carries the "
                             "pending tag updates (a value that changed during the outage) with run_id=None; the aggregator skips it ('belongs to run "
                             "None but the current run is R'), answers success, and the value never reaches the run's plot log")
    if len(builders) < 2:
        raise AnchorError(f"only {len(builders)} TagsUpdatedMsg constructions found in EngineMessageBuilder (floor 2)")
    er = prog.cls("openpectus.engine.engine_runner:EngineRunner")
    n_calls = 0
    for m in er.methods.values():
        for c in walk_no_nested(m.node):
            if isinstance(c, ast.Call) and call_attr(c) in builders:
                n_calls += 1
                ctx.analysed(m)
                inst = f"EngineRunner.{m.name}: {norm(c)[:70]} passes self.run_id"
                args = [norm(a) for a in c.args] + [norm(k.value) for k in c.keywords if k.arg == "run_id"]
                if "self.run_id" in args:
                    ctx.ok("R28g", inst)
                else:
                    ctx.fail("R28g", m, c, inst, "the builder is called without the runner's run id: the message goes out with run_id=None")
    if n_calls < 3:
        raise AnchorError(f"only {n_calls} tag-update builder calls found in EngineRunner (floor 3)")



def _r28h(ctx) -> None:
    import ast as _ast
    from ..util import cfg_of as _cfg, call_attr as _ca
    from ..model import norm as _norm, AnchorError as _AE
    prog = ctx.prog
    ctx.rule("R28h", "pending tag values are flushed when a session ends")
    ed = prog.func("openpectus.aggregator.aggregator:FromEngine.engine_disconnected")
    ctx.analysed(ed)
    g = _cfg(ed)

    def _flush(n) -> bool:
        return any(_ca(c) == "_persist_tag_values" and any(k.arg == "flush" and isinstance(k.value, _ast.Constant) and k.value.value is True
                                                             for k in c.keywords) for c in n.calls())
    dels = [n for n in g.nodes if n.kind == "stmt" and isinstance(n.ast, _ast.Delete) and "_engine_data_map" in _norm(n.ast)]
    if not dels:
        raise _AE("engine_disconnected: removal of the engine data not found")
    inst = "engine_disconnected: the engine data is removed only after the pending values were flushed"
    pth = g.search(None, lambda n: any(n.id == d.id for d in dels), blocked=_flush, follow_exc=False)
    if pth is None:
        ctx.ok("R28h", inst)
    else:
        ctx.fail("R28h", ed, dels[0].ast, inst, "tag values accepted since the last log interval live in EngineData.tags_info only; it is dropped "
                 "here unsaved: with a 5 s interval X=1@100 is stored, X=2@102 waits, the engine reconnects - the plot log of the "
                 "continued run keeps X=[(100, 1)] for the rest of the run, the snapshot after the reconnect is rejected as not newer", pth)
    sd = prog.func("openpectus.aggregator.aggregator:Aggregator.shutdown")
    ctx.analysed(sd)
    inst = "Aggregator.shutdown flushes the pending values of every engine"
    loops = [x for x in _ast.walk(sd.node) if isinstance(x, _ast.For) and "_engine_data_map" in _norm(x.iter)]
    ok = any(any(isinstance(c, _ast.Call) and _ca(c) == "_persist_tag_values" and any(k.arg == "flush" for k in c.keywords)
                 for c in _ast.walk(lp)) for lp in loops)
    if ok:
        ctx.ok("R28h", inst)
    else:
        ctx.fail("R28h", sd, sd.node, inst, "a graceful restart of the aggregator drops the values that wait for the log interval")



def _r28i(ctx) -> None:
    import ast as _ast
    from ..model import norm as _norm
    prog = ctx.prog
    ctx.rule("R28i", "the restore does not continue a run that is already stored as recent run")
    tr = prog.func("openpectus.aggregator.aggregator:FromEngine._try_restore_reconnected_engine_data")
    ctx.analysed(tr)
    asks = any(isinstance(c, _ast.Call) and isinstance(c.func, _ast.Attribute) and c.func.attr == "get_by_run_id"
               and "RecentRun" in _norm(c.func.value) or (isinstance(c, _ast.Call) and isinstance(c.func, _ast.Attribute)
                                                        and c.func.attr == "get_by_run_id") for c in _ast.walk(tr.node))
    inst = "_try_restore_reconnected_engine_data: a stored run id is looked up among the recent runs before the run is continued"
    if asks:
        ctx.ok("R28i", inst)
    else:
        ctx.fail("R28i", tr, tr.node, inst, "run_stopped writes the recent run and clears the recent engine's run id in two commits; restarted "
                 "between them the aggregator continues a run that is already stored, and the resent run_stopped (or the next "
                 "run_started, through the mismatch branch) stores it again - RecentRuns holds the run twice")
