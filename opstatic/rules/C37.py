"""C37 - Active-user list tracks live connections: insert/remove pairing of the dead-man-switch map.

R37a every normal path through FromFrontend.on_ws_disconnect removes the entry of the disconnecting
     subscriber from dead_man_switch_user_ids (kill rule).
R37b the "user still has another live connection" test counts entries other than the one being
     removed (threshold consistent with whether the own entry is still present when counted).
R37c on the path where it was the user's last connection, the user is removed from every engine's
     active_users (loop over the engine map, pop/del by that user id).
R37d ownership: the map is written only by user_subscribed_pubsub (acquire) and on_ws_disconnect.
R37e the removal loop iterates the live engine map without suspending (no await in its body, or it iterates a snapshot):
     a suspension lets an engine register/disconnect, the dict changes size and the loop aborts with the user still listed.
R37f the user id recorded for a connection is the whole remainder of the topic after the "dead_man_switch/" prefix: the
     filter tests the prefix including its separator, and the id is not cut at a later "/" (`split(sep)[1]` keeps only the
     part up to the next separator, so a user id with "/" in it is recorded - and later removed - under a different key
     than the one active_users uses).
R37g the acquire site keeps every user of a connection (it accumulates into a collection); a plain `map[conn] = user`
     overwrites, and the user recorded first stays listed after the connection closed.
R37h a user is inserted into active_users only after the connection map was consulted for a live connection of that user
     (removal is edge-triggered by a disconnect, so a user inserted with no live connection is never removed).
Decides the pairing structure, not the behaviour of the pub/sub library that invokes the callbacks.
"""
from __future__ import annotations

import ast

from ..model import AnchorError, norm, walk_no_nested
from ..util import cfg_of, self_name, is_attr_of, kill_of_container_key, call_attr, path_texts, local_single_defs, expand_local

EXPLANATION = __doc__
MAP = "dead_man_switch_user_ids"
CLS = "openpectus.aggregator.aggregator:FromFrontend"


def run(ctx) -> None:
    prog = ctx.prog
    cls = prog.cls(CLS)
    f = prog.func(f"{CLS}.on_ws_disconnect")
    acq = prog.func(f"{CLS}.user_subscribed_pubsub")
    ctx.analysed(f)
    ctx.analysed(acq)
    ctx.rule("R37a", "every normal path through on_ws_disconnect removes dead_man_switch_user_ids[subscriber_id]")
    ctx.rule("R37b", "other-connection test excludes the entry being removed")
    ctx.rule("R37c", "last connection => user popped from every engine's active_users")
    ctx.rule("R37d", "only acquire/release functions write the map")

    s = self_name(f)
    params = [a.arg for a in f.node.args.args[1:]]
    if len(params) != 1:
        raise AnchorError("on_ws_disconnect signature changed (expected one parameter: the subscriber id)")
    sub = params[0]
    g = cfg_of(f)
    defs = local_single_defs(f)

    def is_map(e: ast.AST) -> bool:
        return is_attr_of(e, s, MAP)

    def is_sub(e: ast.AST) -> bool:
        return isinstance(e, ast.Name) and e.id == sub

    # acquire site exists: self.MAP[subscriber] = user   in user_subscribed_pubsub
    s2 = self_name(acq)
    acquires = [n for n in walk_no_nested(acq.node) if isinstance(n, ast.Assign) and any(
        isinstance(t, ast.Subscript) and is_attr_of(t.value, s2, MAP) for t in n.targets)]
    # accumulating form: self.MAP.setdefault(conn, set()).add(user)  /  self.MAP[conn].add(user)
    acc_acquires = [c for c in walk_no_nested(acq.node) if isinstance(c, ast.Call) and call_attr(c) in ("add", "append", "update")
                    and isinstance(c.func, ast.Attribute) and (
                        (isinstance(c.func.value, ast.Call) and call_attr(c.func.value) == "setdefault"
                         and is_attr_of(c.func.value.func.value, s2, MAP))
                        or (isinstance(c.func.value, ast.Subscript) and is_attr_of(c.func.value.value, s2, MAP)))]
    if not acquires and not acc_acquires:
        raise AnchorError("acquire site self.dead_man_switch_user_ids[...] = ... not found in user_subscribed_pubsub")

    _r37f_g(ctx, acq, s2, acquires, acc_acquires)

    # ---- R37a
    kills = [n for n in g.nodes if kill_of_container_key(n, is_map, is_sub)]
    path = g.path_to_exit_avoiding(None, lambda n: kill_of_container_key(n, is_map, is_sub) is not None)
    if path is not None:
        # a path on which the subscriber is known to be absent (guarded by `sub not in map`) is fine
        ctx.fail("R37a", f, f.node, f"release of self.{MAP}[{sub}] in on_ws_disconnect",
                 f"a normal path through on_ws_disconnect never removes the disconnecting subscriber's entry from "
                 f"{MAP}; entries accumulate, so after a second connect/disconnect cycle the user looks permanently "
                 f"connected and is never removed from active_users", path)
    else:
        ctx.ok("R37a", f"release of self.{MAP}[{sub}]", {"rule": "R37a", "kill_sites": [k.text() for k in kills]})

    # ---- R37b: locate the scan of map values and its threshold
    scan_nodes = []
    for n in g.nodes:
        for x in n.walk():
            if isinstance(x, ast.Call) and isinstance(x.func, ast.Attribute) and x.func.attr in ("values", "items") \
                    and is_map(x.func.value):
                scan_nodes.append(n)
                break
    if not scan_nodes:
        # alternative design: a per-user connection counter kept next to the connection map. It is only equivalent to
        # scanning the map if it moves in lock-step with the map's *key set*: +1 only when a new connection key is
        # inserted, -1 only when a key is removed.
        if _check_counter_design(ctx, f, acq, s, s2, sub, is_map):
            _r37c_and_d(ctx, prog, f, acq, g)
            return
        raise AnchorError("no scan of dead_man_switch_user_ids.values() found in on_ws_disconnect and no connection counter "
                          "recognised: cannot locate the other-connection test")
    scan = scan_nodes[0]
    # is the own entry already removed when the scan runs?
    removed_before = any(g.dominates(k, scan) and k.id != scan.id for k in kills) or \
        (kill_of_container_key(scan, is_map, is_sub) is not None and False)
    removed_maybe = any(scan.id in g.search([k.id], lambda n: False, collect=True) for k in kills if k.id != scan.id)
    # threshold: find the test node consuming the scan result
    thr = _threshold(g, scan, defs)
    if thr is None:
        raise AnchorError("shape of the other-connection threshold test not recognised "
                          f"(scan at line {scan.lineno}); accepted: len(x) > k, len(x) >= k, any(...), `u in map.values()`, truthiness")
    need = 1 if removed_before else 2   # minimum count of matching entries that means 'another connection exists'
    inst = f"other-connection test: {thr[1]}"
    if removed_maybe and not removed_before:
        ctx.fail("R37b", f, scan.ast, inst, "own entry is removed on some but not all paths before the scan", None)
    elif thr[0] != need:
        ctx.fail("R37b", f, scan.ast, inst,
                 f"test treats >= {thr[0]} matching entries as 'another live connection', but the own entry is "
                 f"{'already removed' if removed_before else 'still present'} when counted, so the correct minimum is {need}")
    else:
        ctx.ok("R37b", inst, {"rule": "R37b", "own_entry_removed_before_scan": removed_before, "minimum": thr[0]})

    _r37c_and_d(ctx, prog, f, acq, g)


def _r37f_g(ctx, acq, s2, acquires, acc_acquires):
    ctx.rule("R37f", "the recorded user id is the whole topic remainder after 'dead_man_switch/'")
    ctx.rule("R37g", "the acquire site keeps every user of a connection")
    defs = local_single_defs(acq)
    # ---- prefix test
    tests = [c for c in ast.walk(acq.node) if isinstance(c, ast.Call) and call_attr(c) == "startswith" and c.args]
    if not tests:
        raise AnchorError("user_subscribed_pubsub: no startswith(...) test selecting the dead man switch topics")
    for c in tests:
        a = expand_local(c.args[0], defs)
        inst = "topic filter tests the prefix with its separator"
        if _ends_with_sep(a):
            ctx.ok("R37f", inst, {"rule": "R37f", "prefix": norm(a)})
        else:
            ctx.fail("R37f", acq, c, inst, f"`{norm(c)[:80]}` accepts every topic that merely starts with the letters of the dead man "
                     "switch topic (e.g. the topics of a process unit called dead_man_switch_...): such a topic is recorded as the "
                     "connection's user and overwrites the real one, which is then never removed from active_users")
    # ---- extraction
    cuts, whole = [], []
    for x in ast.walk(acq.node):
        if isinstance(x, ast.Subscript) and isinstance(x.value, ast.Call) and call_attr(x.value) in ("split", "rsplit", "partition"):
            c = x.value
            at = call_attr(c)
            limited = at == "partition" or len(c.args) >= 2 or any(k.arg == "maxsplit" for k in c.keywords)
            idx = x.slice.value if isinstance(x.slice, ast.Constant) else None
            if at == "split" and limited and idx == 1 or at == "partition" and idx == 2:
                whole.append(x)
            else:
                cuts.append(x)
        elif isinstance(x, ast.Subscript) and isinstance(x.slice, ast.Slice) and x.slice.lower is not None and x.slice.upper is None:
            whole.append(x)
        elif isinstance(x, ast.Call) and call_attr(x) == "removeprefix":
            whole.append(x)
    inst = "user id = whole remainder of the topic"
    for x in cuts:
        ctx.fail("R37f", acq, x, inst, f"`{norm(x)[:70]}` keeps only the part of the topic up to the next separator: a user id that "
                 "contains the separator is recorded under a shortened key, on_ws_disconnect pops that key from active_users "
                 "(keyed by the full id) and the user stays listed after the last connection closed")
    if not cuts:
        if not whole:
            raise AnchorError("user_subscribed_pubsub: how the user id is taken from the topic is not recognised (accepted: "
                              "topic[len(prefix):], removeprefix, split(sep, 1)[1], partition(sep)[2])")
        ctx.ok("R37f", inst, {"rule": "R37f", "extraction": [norm(w) for w in whole]})
    # ---- R37g
    for a in acc_acquires:
        ctx.ok("R37g", f"acquire: {norm(a)[:90]}")
    for a in acquires:
        inst = f"acquire: {norm(a)[:90]}"
        v = a.value
        # an assignment keeps the users already recorded only if it reads the old entry, or creates the entry under a
        # `conn not in map` test (the users are then added to it)
        reads_old = any(isinstance(x, ast.Attribute) and x.attr == MAP for x in ast.walk(v))
        ga = cfg_of(acq)
        creates = False
        for n in ga.nodes_for(a):
            for t, pol in ga.conditions_at(n):
                if isinstance(t, ast.Compare) and len(t.ops) == 1 and isinstance(t.comparators[0], ast.Attribute) \
                        and t.comparators[0].attr == MAP and ((isinstance(t.ops[0], ast.NotIn) and pol) or (isinstance(t.ops[0], ast.In) and not pol)):
                    creates = True
        if reads_old or (creates and acc_acquires):
            ctx.ok("R37g", inst)
        else:
            ctx.fail("R37g", acq, a, inst, "the connection's entry is overwritten with a single user id: a connection that "
                     "subscribes the dead man switch of a second user (re-login on the same page, or two topics in one subscribe) "
                     "forgets the first, and the first user stays listed as active after the connection closed")


def _ends_with_sep(e: ast.AST) -> bool:
    if isinstance(e, ast.Constant) and isinstance(e.value, str):
        return e.value.endswith("/")
    if isinstance(e, ast.BinOp) and isinstance(e.op, ast.Add):
        return _ends_with_sep(e.right)
    if isinstance(e, ast.JoinedStr) and e.values:
        return _ends_with_sep(e.values[-1])
    return False


def _r37c_and_d(ctx, prog, f, acq, g):
    # ---- R37c
    loops = []
    for n in g.nodes:
        if n.kind == "for" and any(isinstance(x, ast.Attribute) and x.attr == "_engine_data_map" for x in ast.walk(n.ast.iter)):
            body_pops = [c for c in walk_no_nested(n.ast) if isinstance(c, ast.Call) and isinstance(c.func, ast.Attribute)
                         and c.func.attr == "pop" and isinstance(c.func.value, ast.Attribute) and c.func.value.attr == "active_users"]
            body_dels = [d for d in walk_no_nested(n.ast) if isinstance(d, ast.Delete) and any(
                isinstance(t, ast.Subscript) and isinstance(t.value, ast.Attribute) and t.value.attr == "active_users" for t in d.targets)]
            if body_pops or body_dels:
                loops.append(n)
    if not loops:
        ctx.fail("R37c", f, f.node, "removal loop over engine map", "no loop removes the user from every engine's active_users")
    else:
        loop = loops[0]
        # the removal loop may sit inside a loop over the users of the closed connection (the value popped from the map)
        s0 = self_name(f)
        popped = {t.id for n in g.nodes if n.kind == "stmt" and isinstance(n.ast, ast.Assign) for t in n.ast.targets
                  if isinstance(t, ast.Name) and isinstance(n.ast.value, ast.Call) and call_attr(n.ast.value) == "pop"
                  and is_attr_of(n.ast.value.func.value, s0, MAP)}
        outers = [n for n in g.nodes if n.kind == "for" and n.id != loop.id and isinstance(n.ast.iter, ast.Name)
                  and n.ast.iter.id in popped and any(x is loop.ast for x in ast.walk(n.ast))]
        top = outers[0] if outers else loop

        def exempt(n) -> bool:
            return n.id == top.id
        # block the loop; then every remaining exit path must pass a Return that is edge-dominated by some test
        p = g.path_to_exit_avoiding(None, exempt)
        bad = None
        if p is not None:
            # acceptable iff the path contains a return statement that is conditional (dominated by a test edge)
            rets = [x for x in p if x.kind == "stmt" and isinstance(x.ast, ast.Return)]
            if not rets or not g.conditions_at(rets[0]):
                bad = p
        if bad is None and outers:
            # inside the per-user loop: every way round that skips the removal loop is a conditional continue/return
            # (the 'user has another connection' outcome)
            q = g.search([(top.id, "loop")], lambda n: n.id in (top.id, g.exit.id), blocked=lambda n: n.id == loop.id, follow_exc=False)
            if q is not None:
                jumps = [x for x in q if x.kind == "stmt" and isinstance(x.ast, (ast.Continue, ast.Return, ast.Break))]
                inner_conds = [t for x in jumps for t, pol in g.conditions_at(x) if top.ast.lineno < getattr(t, "lineno", 0) <= top.ast.end_lineno]
                # only `continue` goes on with the connection's next user; return/break would leave the remaining users listed
                if not jumps or not inner_conds or any(not isinstance(x.ast, ast.Continue) for x in jumps):
                    bad = q
        if bad is not None:
            ctx.fail("R37c", f, loop.ast, "removal loop over engine map", "a path skips the removal loop without the 'user has another "
                     "connection' outcome (or leaves the per-user loop early, so the connection's remaining users stay listed)", bad)
        else:
            ctx.ok("R37c", "removal loop over engine map", {"rule": "R37c", "loop": loop.text()})

    # ---- R37e: the removal loop runs to completion
    ctx.rule("R37e", "the removal loop cannot be aborted half-way")
    for loop in loops[:1]:
        it = loop.ast.iter
        snapshot = isinstance(it, ast.Call) and ((isinstance(it.func, ast.Name) and it.func.id in ("list", "tuple", "sorted"))
                                                  or call_attr(it) == "copy")
        awaits = [x for b in loop.ast.body for x in ast.walk(b) if isinstance(x, ast.Await)]
        inst = "removal loop: no suspension while iterating the live engine map"
        if snapshot or not awaits:
            ctx.ok("R37e", inst)
        else:
            ctx.fail("R37e", f, awaits[0], inst, f"`{norm(awaits[0])[:70]}` suspends the coroutine inside the loop over the live engine map: an "
                     "engine registering or disconnecting meanwhile changes the dict, the iteration raises RuntimeError and the user "
                     "stays listed as active on the remaining process units although the last connection is gone")
    # ---- R37h
    ctx.rule("R37h", "insertion into active_users consults the connection map")
    n_ins = 0
    for fn in prog.iter_functions():
        if not fn.qualname.startswith("openpectus.aggregator."):
            continue
        for n in walk_no_nested(fn.node):
            if isinstance(n, ast.Assign) and any(isinstance(t, ast.Subscript) and isinstance(t.value, ast.Attribute)
                                                 and t.value.attr == "active_users" for t in n.targets):
                n_ins += 1
                inst = f"{fn.short}: insertion into active_users is guarded by a look-up of {MAP}"
                reads = [x for x in ast.walk(fn.node) if isinstance(x, ast.Attribute) and x.attr == MAP and x.lineno < n.lineno]
                if reads:
                    ctx.ok("R37h", inst)
                else:
                    ctx.fail("R37h", fn, n, inst, f"`{norm(n)[:60]}` lists the user without asking whether the user has a live "
                             f"connection ({MAP} is never read here): a registration handled after the user's last connection "
                             "closed (closing tab, websocket down) is listed and no later event removes it")
    if n_ins == 0:
        raise AnchorError("no insertion into active_users found in openpectus.aggregator")
    # ---- R37d ownership
    allowed = {f.qualname, acq.qualname, f"{CLS}.__init__"}
    writers = []
    for fn in prog.iter_functions():
        for n in walk_no_nested(fn.node):
            w = None
            if isinstance(n, ast.Assign):
                for t in n.targets:
                    if isinstance(t, ast.Subscript) and isinstance(t.value, ast.Attribute) and t.value.attr == MAP:
                        w = n
                    if isinstance(t, ast.Attribute) and t.attr == MAP:
                        w = n
            elif isinstance(n, ast.AnnAssign) and isinstance(n.target, ast.Attribute) and n.target.attr == MAP:
                w = n
            elif isinstance(n, ast.Delete):
                for t in n.targets:
                    if isinstance(t, ast.Subscript) and isinstance(t.value, ast.Attribute) and t.value.attr == MAP:
                        w = n
            elif isinstance(n, ast.Call) and isinstance(n.func, ast.Attribute) and n.func.attr in (
                    "pop", "clear", "update", "setdefault", "popitem") and isinstance(n.func.value, ast.Attribute) \
                    and n.func.value.attr == MAP:
                w = n
            if w is not None:
                writers.append((fn, w))
    for fn, w in writers:
        inst = f"{fn.short}: {norm(w)}"
        if fn.qualname in allowed:
            ctx.ok("R37d", inst)
        else:
            ctx.fail("R37d", fn, w, inst, f"{MAP} written outside its acquire/release functions")
    ctx.floor("R37d", 2)


def _check_counter_design(ctx, f, acq, s, s2, sub, is_map) -> bool:
    """Recognise `self.<counts>[user] = self.<counts>.get(user, 0) + 1` / `+= 1` in the acquire function."""
    ga = cfg_of(acq)
    incs = []
    for n in ga.nodes:
        if n.kind != "stmt":
            continue
        a = n.ast
        tgt = None
        if isinstance(a, ast.AugAssign) and isinstance(a.op, ast.Add) and isinstance(a.target, ast.Subscript):
            tgt = a.target
        elif isinstance(a, ast.Assign) and isinstance(a.targets[0], ast.Subscript) and isinstance(a.value, ast.BinOp) \
                and isinstance(a.value.op, ast.Add) and isinstance(a.value.right, ast.Constant) and a.value.right.value == 1:
            tgt = a.targets[0]
        if tgt is not None and isinstance(tgt.value, ast.Attribute) and isinstance(tgt.value.value, ast.Name) \
                and tgt.value.value.id == s2 and tgt.value.attr != MAP:
            incs.append((n, tgt.value.attr))
    if not incs:
        return False
    from ..cfg import facts_at
    for n, counter in incs:
        facts = facts_at(ga, n)
        new_conn = any((f"not in self.{MAP}" in a_ and pol) or (f" in self.{MAP}" in a_ and "not in" not in a_ and not pol)
                       for a_, pol in facts)
        inst = f"user_subscribed_pubsub: {n.text()[:70]} only for a new connection key"
        if new_conn:
            ctx.ok("R37b", inst)
        else:
            ctx.fail("R37b", acq, n.ast, inst,
                     f"the per-user counter self.{counter} is incremented on every subscribe event, but the connection map is keyed "
                     f"by connection: a connection that subscribes twice (re-subscribe) raises the count to 2 while the map still "
                     f"holds one entry, so after that connection closes the user is never removed from active_users")
    # the release must decrement / drop the counter on the path after the map entry was removed
    g = cfg_of(f)
    counters = {c for _, c in incs}
    dec = [n for n in g.nodes if n.kind == "stmt" and any(isinstance(x, ast.Attribute) and x.attr in counters for x in ast.walk(n.ast))
           and (isinstance(n.ast, (ast.Assign, ast.AugAssign)) or any(call_attr(c) == "pop" for c in n.calls()))]
    inst = "on_ws_disconnect: connection counter decremented when the connection's entry is removed"
    if dec:
        ctx.ok("R37b", inst)
    else:
        ctx.fail("R37b", f, f.node, inst, "the counter is never decremented on disconnect")
    return True


def _threshold(g, scan, defs):
    """Return (minimum matching-entry count meaning 'other exists', text) or None."""
    # candidates: test nodes reachable from scan (including scan itself)
    reach = g.search([scan.id], lambda n: False, collect=True)
    tests = [n for n in g.nodes if n.kind == "test" and n.id in reach]
    if scan.kind == "test":
        tests = [scan] + [t for t in tests if t.id != scan.id]
    scan_targets = set()
    if scan.kind == "stmt" and isinstance(scan.ast, ast.Assign):
        for t in scan.ast.targets:
            if isinstance(t, ast.Name):
                scan_targets.add(t.id)
    for t in tests:
        e = expand_local(t.ast, defs)
        pol = True
        while isinstance(e, ast.UnaryOp) and isinstance(e.op, ast.Not):
            e = e.operand
            pol = not pol
        e = expand_local(e, defs)
        txt = norm(e)
        mentions = any(isinstance(x, ast.Name) and x.id in scan_targets for x in ast.walk(e)) or MAP in txt
        if not mentions:
            continue
        if isinstance(e, ast.Compare) and len(e.ops) == 1:
            l, r, op = e.left, e.comparators[0], e.ops[0]
            if isinstance(l, ast.Call) and call_attr(l) == "len" and isinstance(r, ast.Constant) and isinstance(r.value, int):
                k = r.value
                if isinstance(op, ast.Gt):
                    return (k + 1, txt)
                if isinstance(op, ast.GtE):
                    return (k, txt)
                if isinstance(op, ast.NotEq) and k == 0:
                    return (1, txt)
                return None
            if isinstance(op, ast.In):
                return (1, txt)
            if isinstance(op, ast.NotIn):
                return (1, txt)
        if isinstance(e, ast.Call) and call_attr(e) == "any":
            return (1, txt)
        if isinstance(e, ast.Name):
            return (1, txt)
    return None
