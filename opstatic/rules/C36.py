"""C36 - Every changed tag is reported with its latest value: ownership + notification structure.

R36a who-may-write: an assignment to an attribute that determines a tag's reported state
     (`value`, `simulated_value`, `simulated`) of any Tag (sub)class, anywhere outside a constructor,
     must be followed on every normal path to the function exit by `notify_listeners(...)` on that tag.
R36b the notification chain is complete: TagCollection.add registers the collection as listener of
     the tag; TagCollection.notify_change forwards; Engine.__init__ attaches a ChangeListener to both
     the system and the UOD collection; Engine.notify_tag_updates puts every changed tag of both
     listeners on the queue and clears each listener only after draining it; Engine.tick must-call
     notify_tag_updates.
R36c EngineMessageBuilder.collect_tag_updates de-duplicates by tag name, converts with as_readonly()
     at collection time (latest value), and the snapshot path must-call notify_all_tags, whose loop
     over _iter_all_tags() puts every tag.
R36d every tag update taken off the queue is stored in the report: no path from the dequeue to the next dequeue or to the
     return skips the keyed store (a filter between queue and report drops changes that carry no new timestamp, e.g. the
     end of a simulation).
R36f one tag cannot cost the others their report: in collect_tag_updates no exception raised while a dequeued tag is converted
     (as_readonly -> the tag's format function, to_model_tag) leaves the function - the tags drained so far live only in the local
     report dict, so a conversion error that escapes drops them for good (and every later report fails the same way while the
     offending value stays).
R36e nothing changes a tag after the tick's last collection: in Engine.tick every call that can (transitively, resolved callees, depth 4) reach
     a tag mutation (set_value / simulate_* / stop_simulation on a tag) is followed on every path to the end of the tick by
     notify_tag_updates() - the write phase reaches set_error_state (System State, Method Status) when the hardware write fails; a
     change made after the last collection waits in the listeners until the *next* tick and misses "the next report".
Decides the structure that makes "changed => reported" hold for every program; thread interleaving
between engine tick and the reporter is outside.
"""
from __future__ import annotations

import ast

from ..model import AnchorError, norm, walk_no_nested
from ..util import cfg_of, call_attr, assigned_attrs, node_calls

EXPLANATION = __doc__
STATE_ATTRS = {"value", "simulated_value", "simulated"}


def run(ctx) -> None:
    prog, res = ctx.prog, ctx.res
    tag = prog.cls("openpectus.lang.exec.tags:Tag")
    for r, d in [("R36a", "writes of reported tag state are followed by notify_listeners"),
                 ("R36b", "notification chain tag -> collection -> engine listener -> queue"),
                 ("R36c", "report de-duplicates by name, reads latest value, snapshot covers all tags")]:
        ctx.rule(r, d)

    # ---- R36a
    for f in prog.iter_functions():
        if f.name == "__init__" and f.cls is not None and f.cls.is_subclass_of(tag):
            continue
        sites = []
        for t, v, st in assigned_attrs(f.node):
            if t.attr not in STATE_ATTRS:
                continue
            cs = res.receiver_classes(t.value, f)
            if not cs or not any(c.is_subclass_of(tag) for c in cs):
                continue
            sites.append((t, st))
        if not sites:
            continue
        ctx.analysed(f)
        g = cfg_of(f)
        for t, st in sites:
            recv = norm(t.value)
            nodes = g.nodes_for(st)
            if not nodes:
                nodes = g.node_containing(st)
            inst = f"{f.short}: {norm(st)}"

            def notifies(n, recv=recv) -> bool:
                for c in n.calls():
                    if call_attr(c) == "notify_listeners" and isinstance(c.func, ast.Attribute) and norm(c.func.value) == recv:
                        return True
                return False
            bad = None
            for n in nodes:
                p = g.path_to_exit_avoiding([n.id], lambda x, n=n: x.id != n.id and notifies(x))
                if p is not None:
                    bad = p
                    break
            if bad is None:
                ctx.ok("R36a", inst)
            else:
                ctx.fail("R36a", f, st, inst,
                         f"`{recv}.{t.attr}` (reported state of a tag) is written without notifying the tag's listeners on "
                         f"this path: the change never reaches the engine's change listener, so the next tag report omits it",
                         bad)
    ctx.floor("R36a", 8)

    # ---- R36b
    tc = prog.cls("openpectus.lang.exec.tags:TagCollection")
    add = tc.methods.get("add")
    if add is None:
        raise AnchorError("TagCollection.add missing")
    ctx.analysed(add)
    g = cfg_of(add)
    stores = [n for n in g.nodes if n.kind == "stmt" and isinstance(n.ast, ast.Assign) and any(
        isinstance(t, ast.Subscript) and norm(t.value) == "self.tags" for t in n.ast.targets)]
    if not stores:
        raise AnchorError("TagCollection.add: store into self.tags not found")
    p = g.path_to_exit_avoiding([stores[0].id], lambda n: any(
        call_attr(c) == "add_listener" and c.args and norm(c.args[0]) == "self" for c in n.calls()))
    if p is None:
        ctx.ok("R36b", "TagCollection.add: tag.add_listener(self) after storing the tag")
    else:
        ctx.fail("R36b", add, add.node, "TagCollection.add: tag.add_listener(self) after storing the tag",
                 "a tag can be added to the collection without the collection listening to its changes", p)
    nc = tc.methods.get("notify_change")
    if nc is None:
        raise AnchorError("TagCollection.notify_change missing")
    ctx.analysed(nc)
    g = cfg_of(nc)
    p = g.path_to_exit_avoiding(None, lambda n: node_calls(n, "notify_listeners"))
    if p is None:
        ctx.ok("R36b", "TagCollection.notify_change forwards to notify_listeners")
    else:
        ctx.fail("R36b", nc, nc.node, "TagCollection.notify_change forwards to notify_listeners", "change not forwarded", p)
    # ChangeSubject.notify_listeners loops over all listeners
    cs = prog.cls("openpectus.lang.exec.tags:ChangeSubject")
    nl = cs.methods.get("notify_listeners")
    if nl is None:
        raise AnchorError("ChangeSubject.notify_listeners missing")
    ctx.analysed(nl)
    loops = [n for n in walk_no_nested(nl.node) if isinstance(n, ast.For) and norm(n.iter) == "self._listeners"]
    ok = False
    for lp in loops:
        g = cfg_of(nl)
        fn = g.nodes_for(lp)[0]
        body_p = g.search([(fn.id, "loop")], lambda n: n.id == fn.id, blocked=lambda n: node_calls(n, "notify_change"))
        ok = body_p is None
    if ok:
        ctx.ok("R36b", "ChangeSubject.notify_listeners calls notify_change on every listener")
    else:
        ctx.fail("R36b", nl, nl.node, "ChangeSubject.notify_listeners calls notify_change on every listener",
                 "a listener can be skipped")
    cl = prog.cls("openpectus.lang.exec.tags:ChangeListener")
    ncl = cl.methods.get("notify_change")
    if ncl is None or not any(isinstance(c, ast.Call) and call_attr(c) == "add" and "_changes" in norm(c.func) for c in walk_no_nested(ncl.node)):
        ctx.fail("R36b", ncl, ncl.node if ncl else None, "ChangeListener.notify_change records the name", "change not recorded")
    else:
        ctx.ok("R36b", "ChangeListener.notify_change records the name")

    eng = prog.cls("openpectus.engine.engine:Engine")
    init = eng.methods["__init__"]
    ctx.analysed(init)
    att = {}
    for c in walk_no_nested(init.node):
        if isinstance(c, ast.Call) and call_attr(c) == "add_listener" and c.args:
            att[norm(c.args[0])] = norm(c.func.value)
    nt = eng.methods.get("notify_tag_updates")
    if nt is None:
        raise AnchorError("Engine.notify_tag_updates missing")
    ctx.analysed(nt)
    g = cfg_of(nt)
    listeners = sorted({norm(n.ast.iter).rsplit(".", 1)[0] for n in g.nodes if n.kind == "for" and norm(n.ast.iter).endswith(".changes")})
    it = prog.func("openpectus.engine.engine:Engine._iter_all_tags")
    rep = [n for n in walk_no_nested(it.node) if isinstance(n, ast.Return) and isinstance(n.value, ast.Call)]
    if not rep:
        raise AnchorError("Engine._iter_all_tags shape not recognised")
    collections = [norm(a) for a in rep[0].value.args]
    for coll in collections:
        ls = [l for l, c in att.items() if c == coll]
        inst = f"Engine: collection {coll} has an attached ChangeListener that notify_tag_updates drains"
        if not ls:
            ctx.fail("R36b", init, init.node, inst, f"no ChangeListener attached to {coll} in Engine.__init__")
            continue
        l = ls[0]
        loop = [n for n in g.nodes if n.kind == "for" and norm(n.ast.iter) == f"{l}.changes"]
        if not loop:
            ctx.fail("R36b", nt, nt.node, inst, f"notify_tag_updates never iterates {l}.changes")
            continue
        lp = loop[0]
        # every iteration puts a tag on the queue
        skip = g.search([(lp.id, "loop")], lambda n: n.id == lp.id, blocked=lambda n: any(
            call_attr(c) == "put" and "tag_updates" in norm(c.func) for c in n.calls()))
        # clear only after the loop, and on all paths after it
        clears = [n for n in g.nodes if any(call_attr(c) == "clear_changes" and norm(c.func.value) == l for c in n.calls())]
        early = any(lp.id in g.search([c.id], lambda n: False, collect=True) for c in clears)
        late = g.path_to_exit_avoiding([(lp.id, "exit")], lambda n: n in clears)
        if skip is not None:
            ctx.fail("R36b", nt, lp.ast, inst, "an iteration over the changed names can skip queueing the tag", skip)
        elif early:
            ctx.fail("R36b", nt, lp.ast, inst, f"{l}.clear_changes() can run before the changes were queued")
        elif late is not None:
            ctx.fail("R36b", nt, lp.ast, inst, f"{l} is not cleared after draining (tags would be re-reported forever)", late)
        else:
            ctx.ok("R36b", inst, {"rule": "R36b", "collection": coll, "listener": l})
    tick = eng.methods["tick"]
    ctx.analysed(tick)
    g = cfg_of(tick)
    _r36e(ctx, prog, tick, g)
    p = g.path_to_exit_avoiding(None, lambda n: node_calls(n, "notify_tag_updates"))
    if p is None:
        ctx.ok("R36b", "Engine.tick must-call notify_tag_updates")
    else:
        ctx.fail("R36b", tick, tick.node, "Engine.tick must-call notify_tag_updates", "a tick can end without collecting tag changes", p)

    # ---- R36c
    col = prog.func("openpectus.engine.engine_message_builder:EngineMessageBuilder.collect_tag_updates")
    ctx.analysed(col)
    g = cfg_of(col)
    keyed = [n for n in g.nodes if n.kind == "stmt" and isinstance(n.ast, ast.Assign) and any(
        isinstance(t, ast.Subscript) and norm(t.slice).endswith(".name") for t in n.ast.targets)]
    ret_vals = [n for n in walk_no_nested(col.node) if isinstance(n, ast.Return) and n.value is not None]
    if keyed and all(".values()" in norm(r.value) for r in ret_vals):
        ctx.ok("R36c", "collect_tag_updates: dict keyed by tag name, returns its values (no duplicates)")
    else:
        ctx.fail("R36c", col, col.node, "collect_tag_updates: dict keyed by tag name, returns its values (no duplicates)",
                 "report is no longer de-duplicated by tag name")
    if any(call_attr(c) == "as_readonly" for c in walk_no_nested(col.node) if isinstance(c, ast.Call)):
        ctx.ok("R36c", "collect_tag_updates: as_readonly() at collection time")
    else:
        ctx.fail("R36c", col, col.node, "collect_tag_updates: as_readonly() at collection time", "value not read at collection time")
    tests = [n for n in g.nodes if n.kind == "test" and norm(n.ast) == "snapshot"]
    if not tests:
        raise AnchorError("collect_tag_updates: `if snapshot` not found")
    drain = [n for n in g.nodes if any(call_attr(c) in ("get_nowait", "get") and "tag_updates" in norm(c.func) for c in n.calls())]
    if not drain:
        raise AnchorError("collect_tag_updates: queue drain not found")
    # R36d: every tag taken off the queue is put into the report (no path from the dequeue to the next dequeue / the return
    # skips the keyed store): a filter between queue and report loses changes the engine has queued
    ctx.rule("R36d", "every dequeued tag update reaches the report")
    inst = "collect_tag_updates: every dequeued tag is stored in the report"
    starts = [d for dn in drain for d, l in g.succ[dn.id] if l != "exc"]
    skip = g.search(starts, lambda n: n.id in {d.id for d in drain} or n.id == g.exit.id,
                    blocked=lambda n: any(n.id == k.id for k in keyed), follow_exc=False)
    if keyed and skip is None:
        ctx.ok("R36d", inst)
    else:
        ctx.fail("R36d", col, drain[0].ast, inst, "a tag update can be taken off the queue and dropped: the engine queued it because the "
                 "tag's reported state changed (value, simulated flag or simulated value), so the aggregator keeps a stale state", skip)
    ctx.rule("R36f", "a conversion error of one tag does not abandon the drained tags")
    inst = "collect_tag_updates: no exception from converting a dequeued tag leaves the function"

    # (the CFG has no edge for an implicit exception that no handler of the function catches, so this is decided lexically:)
    # every statement between the dequeue and the next dequeue that calls anything but the queue's own bookkeeping and logging lies
    # in the body of a try of this function that has a catch-all handler
    from ..cfg import handler_is_catch_all
    from ..model import parent_map
    pm = parent_map(col.node)
    region = g.search(starts, lambda n: False, blocked=lambda n: any(n.id == d.id for d in drain), follow_exc=False, collect=True)
    esc = None
    for nid in sorted(region):
        nd = g.nodes[nid]
        if nd.ast is None or nd.kind == "except":
            continue
        cs = [c for c in nd.calls() if call_attr(c) not in ("task_done", "get_nowait", "get", "error", "warning", "info", "debug", "values")]
        if not cs:
            continue
        cur, protected, prev = pm.get(id(nd.ast)), False, nd.ast
        while cur is not None and cur is not col.node:
            if isinstance(cur, ast.Try) and any(prev is x for x in cur.body) and any(handler_is_catch_all(h) for h in cur.handlers):
                protected = True
                break
            prev, cur = cur, pm.get(id(cur))
        if not protected and esc is None:
            esc = [nd]
    if esc is None:
        ctx.ok("R36f", inst)
    else:
        ctx.fail("R36f", col, drain[0].ast, inst, "the conversion of a dequeued tag can raise out of collect_tag_updates: after `Simulate: Clock = "
                 "12:00:00` the Clock tag's format function raises TypeError in as_readonly(), every report fails to build while the simulation "
                 "lasts, and the tags that were drained with it (a changed FT01, Process Time) are never reported again", esc)
    p = g.search([(tests[0].id, "T")], lambda n: n.id == drain[0].id, blocked=lambda n: node_calls(n, "notify_all_tags"))
    if p is None:
        ctx.ok("R36c", "collect_tag_updates(snapshot=True) must-call notify_all_tags before draining")
    else:
        ctx.fail("R36c", col, col.node, "collect_tag_updates(snapshot=True) must-call notify_all_tags before draining",
                 "snapshot drains the queue without first queueing all tags", p)
    na = eng.methods.get("notify_all_tags")
    if na is None:
        raise AnchorError("Engine.notify_all_tags missing")
    ctx.analysed(na)
    g = cfg_of(na)
    loops = [n for n in g.nodes if n.kind == "for" and "_iter_all_tags" in norm(n.ast.iter)]
    if not loops:
        ctx.fail("R36c", na, na.node, "notify_all_tags iterates _iter_all_tags()", "snapshot does not cover all tags")
    else:
        lp = loops[0]
        skip = g.search([(lp.id, "loop")], lambda n: n.id == lp.id, blocked=lambda n: any(
            call_attr(c) == "put" and "tag_updates" in norm(c.func) for c in n.calls()))
        if skip is None:
            ctx.ok("R36c", "notify_all_tags puts every tag of _iter_all_tags()")
        else:
            ctx.fail("R36c", na, lp.ast, "notify_all_tags puts every tag of _iter_all_tags()", "an iteration can skip a tag", skip)


MUTATORS = ("set_value", "set_value_and_unit", "simulate_value", "simulate_value_and_unit", "stop_simulation")


def _mutates_tags(ctx, fn, depth, seen, chain=()):
    """A call chain from fn to a tag mutation, or None."""
    if id(fn.node) in seen or depth < 0:
        return None
    seen.add(id(fn.node))
    for c in walk_no_nested(fn.node):
        if not isinstance(c, ast.Call):
            continue
        if call_attr(c) in MUTATORS:
            return list(chain) + [fn.short, norm(c)[:50]]
    for c in walk_no_nested(fn.node):
        if not isinstance(c, ast.Call):
            continue
        for callee in ctx.res.resolve_call(c, fn, cha=False):
            if not callee.module.name.startswith("openpectus.engine."):
                continue
            r = _mutates_tags(ctx, callee, depth - 1, seen, chain + (fn.short,))
            if r:
                return r
    return None


def _r36e(ctx, prog, tick, g) -> None:
    ctx.rule("R36e", "no tag changes after the tick's last collection of changes")
    n_sites = 0
    for n in g.nodes:
        if n.ast is None:
            continue
        for c in n.calls():
            if call_attr(c) == "notify_tag_updates":
                continue
            why = None
            if call_attr(c) in MUTATORS:
                why = [norm(c)[:50]]
            else:
                for callee in ctx.res.resolve_call(c, tick, cha=False):
                    if callee.module.name.startswith("openpectus.engine."):
                        why = _mutates_tags(ctx, callee, 4, set())
                        if why:
                            break
            if not why:
                continue
            n_sites += 1
            inst = f"Engine.tick: changes made by `{norm(c)[:50]}` are collected in the same tick"
            p = g.path_to_exit_avoiding([n.id], lambda x: x.id != n.id and node_calls(x, "notify_tag_updates"), follow_exc=False)
            if p is None:
                ctx.ok("R36e", inst)
            else:
                ctx.fail("R36e", tick, c, inst, f"`{norm(c)[:50]}` can change tags ({' > '.join(why)}) and no notify_tag_updates() follows before the "
                         "tick ends: a hardware write that fails sets System State Paused and Method Status Error in this tick, but the report "
                         "taken after this tick contains neither - they appear one tick later", p)
    if n_sites < 3:
        raise AnchorError(f"R36e: only {n_sites} tag-changing calls found in Engine.tick (floor 3)")
