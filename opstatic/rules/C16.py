"""C16 - Reported tag times are the engine time of the change: tick-time kind analysis.

R16a every time argument handed to Tag.set_value / set_value_and_unit / simulate_value /
     simulate_value_and_unit, and every direct write `<tag>.tick_time = v`, in non-test,
     non-configuration modules has kind exactly TICK_TIME (the engine clock time of the current tick,
     seeded at Engine.tick's `tick_time` parameter and propagated through parameters, attributes and
     returns). COUNTER (tick numbers), MONO, WALL (time.time()), CONST and UNKNOWN are violations;
     *args/**kwargs pass-through is accepted only inside an override of the same sink method.
R16a (cont.) a time argument that is a local or parameter of a generator bound before a `yield` and read after it is
     stale (it holds the time of an earlier tick) and is reported, whatever its kind.
R16b Tag's sink methods store their time parameter in self.tick_time on the changed path and
     as_readonly / to_model_tag copy it unmodified.
R16c the first-tick restamp in Engine.tick covers every tag collection the engine reports.
R16d a change of what is reported is stamped: the reported value of a tag is `simulated_value if simulated else value`. In every
     method of Tag and its subclasses (constructors aside), every write of one of those three fields lies on paths that also
     write self.tick_time (or go through one of the sink methods, which do) before the method ends - a write that bypasses the
     stamp leaves the new value under the time of an older tick, and the aggregator persists a value only if its time is later
     than the last persisted one.
Decides the provenance (dimension and clock) of every reported time, for all programs and
schedules; does not decide monotonicity of the clock itself.
"""
from __future__ import annotations

import ast

from ..model import AnchorError, norm, walk_no_nested
from ..kinds import KindAnalysis, TICK_TIME, FORWARDED, K
from ..util import cfg_of, call_attr, arg, assigned_attrs, canon_text

EXPLANATION = __doc__
# sink method -> position of its time argument (after self); the parameter *names* are read from the signatures
SINK_POS = {"set_value": 1, "set_value_and_unit": 2, "simulate_value": 1, "simulate_value_and_unit": 2}
SINKS: dict = {}
SEEDS: dict = {}


def run(ctx) -> None:
    prog, res = ctx.prog, ctx.res
    tag = prog.cls("openpectus.lang.exec.tags:Tag")
    tag_classes = [tag] + tag.all_subclasses()
    thorough = ctx.tier == "thorough"
    SINKS.clear()
    for name, pos in SINK_POS.items():
        m = tag.methods.get(name)
        if m is None or len(m.node.args.args) <= pos + 1:
            raise AnchorError(f"Tag.{name}: time parameter at position {pos} not found")
        SINKS[name] = (pos, m.node.args.args[pos + 1].arg)
    etick = prog.func("openpectus.engine.engine:Engine.tick")
    if len(etick.node.args.args) < 3:
        raise AnchorError("Engine.tick(tick_time, increment_time): signature changed")
    SEEDS.clear()
    SEEDS[("openpectus.engine.engine:Engine.tick", etick.node.args.args[1].arg)] = "TICK_TIME"
    SEEDS[("openpectus.engine.engine:Engine.tick", etick.node.args.args[2].arg)] = "DURATION"
    ka = KindAnalysis(prog, res, SEEDS, tests=False, config=False)
    ctx.extra["kind_fixpoint_rounds"] = ka.rounds
    ctx.rule("R16a", "time arguments of tag writers have kind TICK_TIME")
    ctx.rule("R16b", "Tag stores and copies the time unmodified")
    ctx.rule("R16c", "first-tick restamp covers all reported collections")
    _r16d(ctx, tag_classes)
    ctx.assumptions = ["Engine.tick(tick_time, increment_time) is invoked by the engine timer with the engine clock time "
                       "of the tick and the elapsed duration (seed of the analysis)",
                       "user UOD modules (engine/configuration, external files) are outside the analysed scope"]

    def is_tag_receiver(expr: ast.AST, f) -> bool | None:
        cs = res.receiver_classes(expr, f)
        if not cs:
            ts = res.infer(expr, f)
            if any(t.name == "super" for t in ts):
                return f.cls is not None and f.cls.is_subclass_of(tag)
            return None
        return any(c.is_subclass_of(tag) for c in cs)

    n_sinks = 0
    for f in prog.iter_functions():
        in_tag_ctor = f.cls is not None and f.cls.is_subclass_of(tag) and f.name == "__init__"
        for c in walk_no_nested(f.node):
            if not isinstance(c, ast.Call) or not isinstance(c.func, ast.Attribute):
                continue
            name = c.func.attr
            if name not in SINKS:
                continue
            r = is_tag_receiver(c.func.value, f)
            if r is False:
                continue
            pos, kw = SINKS[name]
            targ = arg(c, pos, kw)
            n_sinks += 1
            ctx.analysed(f)
            inst = f"{f.short}: {canon_text(c, f)}"
            if targ is None:
                # *args / **kwargs forwarding
                forwarded = any(isinstance(a, ast.Starred) for a in c.args) or any(k.arg is None for k in c.keywords)
                if forwarded and f.name == name and f.cls is not None and f.cls.is_subclass_of(tag):
                    ctx.ok("R16a", inst, {"rule": "R16a", "site": inst, "kind": "forwarded inside override"}, trivial=True)
                    continue
                ctx.fail("R16a", f, c, inst, "time argument missing or not identifiable")
                continue
            stale = _stale_across_yield(f, c, targ)
            if stale is not None:
                ctx.fail("R16a", f, c, inst, f"the time argument `{norm(targ)}` is a {stale[0]} of a generator that is read after a `yield` "
                         f"(line {stale[1]}): it still holds the time of the tick in which it was bound, while the change is made in a "
                         "later tick - the reported time lies before times already reported")
                continue
            kinds = ka.expr_kind(targ, f)
            own_param = isinstance(targ, ast.Name) and any(p.arg == targ.id for p in f.params()) and not any(
                isinstance(t, ast.Name) and t.id == targ.id for n in walk_no_nested(f.node) if isinstance(n, ast.Assign)
                for t in n.targets)
            if own_param and f.name == name and f.cls is not None and f.cls.is_subclass_of(tag):
                # an override of the sink handing on its own (never reassigned) time parameter: the kind is
                # decided at this override's call sites, which are sinks themselves
                ctx.ok("R16a", inst, {"rule": "R16a", "site": inst, "kind": "own parameter of sink override"}, trivial=True)
            elif kinds == K({TICK_TIME}):
                ctx.ok("R16a", inst, {"rule": "R16a", "site": inst, "time_arg": norm(targ), "kind": sorted(kinds),
                                      "receiver_resolved": r is True})
            elif kinds == K({FORWARDED}) and f.name == name:
                ctx.ok("R16a", inst, trivial=True)
            elif not kinds and f.cls is not None and f.cls.is_subclass_of(tag) and f.name in SINKS and isinstance(targ, ast.Name):
                # parameter of an override with no call sites in scope: checked at its callers
                ctx.ok("R16a", inst, trivial=True)
            else:
                what = {"COUNTER": "a tick NUMBER (wrong dimension)", "WALL": "time.time() wall clock (wrong clock: not the "
                        "engine's tick time; differs under simulated/accelerated clocks and is later than the tick)",
                        "MONO": "a monotonic clock value (wrong clock)", "CONST": "a constant", "UNKNOWN": "of unknown origin",
                        "DURATION": "a duration"}
                desc = ", ".join(what.get(k, k) for k in sorted(kinds)) or "not derivable from the engine tick time"
                ctx.fail("R16a", f, c, inst, f"time argument `{norm(targ)}` is {desc}; reported tag time would not be the engine "
                         f"time of the tick in which the value was set")
        # direct writes X.tick_time = v
        for t, v, st in assigned_attrs(f.node):
            if t.attr != "tick_time" or v is None:
                continue
            r = is_tag_receiver(t.value, f)
            if r is not True:
                continue
            if f.cls is not None and f.cls is tag and (f.name in SINKS or f.name == "__init__"):
                continue  # R16b
            n_sinks += 1
            ctx.analysed(f)
            inst = f"{f.short}: {canon_text(st, f)}"
            kinds = ka.expr_kind(v, f)
            if kinds == K({TICK_TIME}):
                ctx.ok("R16a", inst, {"rule": "R16a", "site": inst, "kind": sorted(kinds)})
            else:
                ctx.fail("R16a", f, st, inst, f"tag time written with kind {sorted(kinds)}")
    ctx.extra["sink_sites"] = n_sinks
    ctx.floor("R16a", 40)

    # ---- R16b
    for name, (pos, pname) in SINKS.items():
        m = tag.methods.get(name)
        if m is None:
            raise AnchorError(f"Tag.{name} missing")
        ctx.analysed(m)
        params = [a.arg for a in m.node.args.args]
        if pname not in params:
            raise AnchorError(f"Tag.{name} has no parameter {pname}")
        stores = [st for t, v, st in assigned_attrs(m.node) if t.attr == "tick_time" and isinstance(v, ast.Name) and v.id == pname]
        delegates = [c for c in walk_no_nested(m.node) if isinstance(c, ast.Call) and call_attr(c) in SINKS and call_attr(c) != name
                     and any(isinstance(a, ast.Name) and a.id == pname for a in c.args)]
        inst = f"Tag.{name} stores {pname}"
        if stores:
            # the store must be on the same path as the value change: dominated by the same test as the value write
            g = cfg_of(m)
            vals = [n for n in g.nodes if n.kind == "stmt" and any(t.attr in ("value", "simulated_value") for t, v, s in assigned_attrs(n.ast))]
            tts = [n for n in g.nodes if n.kind == "stmt" and any(t.attr == "tick_time" for t, v, s in assigned_attrs(n.ast))]
            ok = all(any(tt.id in g.search([vn.id], lambda n: False, collect=True, follow_exc=False) or
                         vn.id in g.search([tt.id], lambda n: False, collect=True, follow_exc=False) for tt in tts) for vn in vals)
            # every path from a value write to exit passes a tick_time write (or the tick_time write precedes)
            for vn in vals:
                p = g.path_to_exit_avoiding([vn.id], lambda n: n.id in {t.id for t in tts})
                pre = any(g.dominates(t, vn) for t in tts)
                if p is not None and not pre:
                    ok = False
            if ok:
                ctx.ok("R16b", inst)
            else:
                ctx.fail("R16b", m, m.node, inst, "a path changes the value without storing the tick time")
        elif delegates:
            ctx.ok("R16b", inst + " (delegates)")
        else:
            ctx.fail("R16b", m, m.node, inst, f"Tag.{name} does not store its time parameter in self.tick_time")
    ro = tag.methods.get("as_readonly")
    if ro is None:
        raise AnchorError("Tag.as_readonly missing")
    ctx.analysed(ro)
    rets = [n for n in walk_no_nested(ro.node) if isinstance(n, ast.Return) and isinstance(n.value, ast.Call)]
    ok = any(len(r.value.args) > 1 and norm(r.value.args[1]) == "self.tick_time" or any(
        k.arg == "tick_time" and norm(k.value) == "self.tick_time" for k in r.value.keywords) for r in rets)
    if ok:
        ctx.ok("R16b", "Tag.as_readonly copies self.tick_time")
    else:
        ctx.fail("R16b", ro, ro.node, "Tag.as_readonly copies self.tick_time", "TagValue not built from self.tick_time")
    tv = prog.cls("openpectus.lang.exec.tags:TagValue")
    init = tv.methods.get("__init__")
    if init is None:
        raise AnchorError("TagValue.__init__ missing")
    p = [a.arg for a in init.node.args.args]
    if len(p) > 2 and p[2] == "tick_time":
        ctx.ok("R16b", "TagValue.__init__ second positional is tick_time")
    else:
        ctx.fail("R16b", init, init.node, "TagValue.__init__ second positional is tick_time", f"signature is {p}")
    # message builder: to_model_tag
    mb = prog.module("openpectus.engine.engine_message_builder")
    found = False
    for fn in list(mb.functions.values()) + [m for c in mb.classes.values() for m in c.methods.values()]:
        for c in walk_no_nested(fn.node):
            if isinstance(c, ast.Call) and "TagValue" in norm(c.func):
                for k in c.keywords:
                    if k.arg == "tick_time":
                        found = True
                        ctx.analysed(fn)
                        src = norm(k.value)
                        inst = f"{fn.short}: TagValue(tick_time={src})"
                        if src.endswith(".tick_time"):
                            ctx.ok("R16b", inst)
                        else:
                            ctx.fail("R16b", fn, c, inst, "reported tick_time is not the tag's stored tick_time")
    if not found:
        raise AnchorError("engine_message_builder: no TagValue(tick_time=...) construction found")
    # ... and nothing in the report builder rewrites a time before it is copied
    for fn in list(mb.functions.values()) + [m for c in mb.classes.values() for m in c.methods.values()]:
        for t, v, st in assigned_attrs(fn.node):
            if t.attr == "tick_time":
                ctx.analysed(fn)
                inst = f"{fn.short}: the report builder copies times, it does not write them (`{norm(st)[:60]}`)"
                ctx.fail("R16b", fn, st, inst, f"`{norm(st)}` replaces the stored time while the report is built: the reported time is the wall clock "
                         "at *report* time - later than the current tick, and different in every report although the value was never set "
                         "again (the write goes to the read-only copy, so it is repeated for every report)")

    # ---- R16c
    eng = prog.func("openpectus.engine.engine:Engine.tick")
    ctx.analysed(eng)
    g = cfg_of(eng)
    restamped: set[str] = set()
    for n in g.nodes:
        if n.kind == "for" and any(t.attr == "tick_time" for t, v, s in assigned_attrs(n.ast)):
            restamped.add(norm(n.ast.iter))
    it = prog.func("openpectus.engine.engine:Engine._iter_all_tags")
    rep = [n for n in walk_no_nested(it.node) if isinstance(n, ast.Return) and n.value is not None]
    if not rep or not isinstance(rep[0].value, ast.Call):
        raise AnchorError("Engine._iter_all_tags: return itertools.chain(...) not recognised")
    reported = [norm(a) for a in rep[0].value.args]
    for coll in reported:
        inst = f"Engine.tick first-tick restamp covers {coll}"
        if any(coll in r for r in restamped) or any("_iter_all_tags" in r for r in restamped):
            ctx.ok("R16c", inst)
        else:
            ctx.fail("R16c", eng, eng.node, inst, f"tags of {coll} are reported (Engine._iter_all_tags) but keep their "
                     "construction-time stamp (time.time() in Tag.__init__, before engine start) until first changed")


def _stale_across_yield(f, call, targ):
    """A local or parameter of a generator that is bound before a yield and used as the time argument after it holds the time
    of an earlier tick. Returns (what, line of the yield) or None."""
    if not isinstance(targ, ast.Name):
        return None
    if not any(isinstance(n, (ast.Yield, ast.YieldFrom)) for n in walk_no_nested(f.node)):
        return None
    g = cfg_of(f)
    sinks = g.node_containing(call)
    if not sinks:
        return None
    is_param = any(a.arg == targ.id for a in f.node.args.posonlyargs + f.node.args.args + f.node.args.kwonlyargs)

    def defines(n):
        if n.kind not in ("stmt", "for", "with"):
            return False
        a = n.ast
        tg = []
        if isinstance(a, ast.Assign):
            tg = a.targets
        elif isinstance(a, (ast.AnnAssign, ast.AugAssign)):
            tg = [a.target]
        elif isinstance(a, (ast.For, ast.AsyncFor)):
            tg = [a.target]
        return any(isinstance(x, ast.Name) and x.id == targ.id for t in tg for x in ast.walk(t))
    defs = [n for n in g.nodes if defines(n)]
    if not defs and not is_param:
        return None
    starts = [n.id for n in defs] + ([g.entry.id] if is_param else [])

    def is_yield(n):
        return n.kind == "stmt" and any(isinstance(x, (ast.Yield, ast.YieldFrom)) for x in ast.walk(n.ast))
    for sid in starts:
        first = [d for d, l in g.succ[sid] if l != "exc"]
        reach = g.search(first, lambda n: False, collect=True, blocked=lambda n: defines(n), follow_exc=False)
        for yid in reach:
            yn = g.nodes[yid]
            if not is_yield(yn) or any(yn.id == sk.id for sk in sinks):
                continue
            after = g.search([d for d, l in g.succ[yid] if l != "exc"], lambda n: any(n.id == sk.id for sk in sinks),
                             blocked=lambda n: defines(n), follow_exc=False)
            if after is not None:
                return ("parameter" if sid == g.entry.id else "local", yn.lineno)
    return None


def _r16d(ctx, tag_classes):
    ctx.rule("R16d", "every write of a reported field is accompanied by a write of tick_time")
    fields = ("value", "simulated", "simulated_value")
    n_sites = 0
    for cls in tag_classes:
        if "/test" in cls.module.path or ".test." in cls.module.name:
            continue
        for mname, m in sorted(cls.methods.items()):
            if mname in ("__init__", "apply_state"):
                continue
            selfn = m.node.args.args[0].arg if m.node.args.args else "self"
            g = cfg_of(m)
            writes = [n for n in g.nodes if n.kind == "stmt" and any(t.attr in fields and isinstance(t.value, ast.Name) and t.value.id == selfn
                                                                      for t, v, st in assigned_attrs(n.ast))]
            if not writes:
                continue
            ctx.analysed(m)

            def stamps(n, selfn=selfn):
                if n.ast is None:
                    return False
                if n.kind == "stmt" and any(t.attr == "tick_time" and isinstance(t.value, ast.Name) and t.value.id == selfn for t, v, st in assigned_attrs(n.ast)):
                    return True
                return any(call_attr(c) in SINK_POS for c in n.calls())
            stamped_before = lambda w: any(stamps(x) and g.dominates(x, w) for x in g.nodes)
            n_sites += len(writes)
            fl = sorted({t.attr for w in writes for t, v, st in assigned_attrs(w.ast) if t.attr in fields})
            inst = f"{cls.name}.{mname}: writes of {'/'.join(fl)} are stamped with the tick time"
            bad = None
            for w in writes:
                p = None if stamped_before(w) else g.path_to_exit_avoiding([w.id], stamps, follow_exc=False)
                if p is not None and bad is None:
                    bad = (w, p)
            if bad is None:
                ctx.ok("R16d", inst)
            else:
                w, p = bad
                ctx.fail("R16d", m, w.ast, inst, f"`{norm(w.ast)[:60]}` changes what the tag reports but tick_time keeps the time of an earlier tick "
                         "(the method has no time to stamp with): the changed value is reported under an old time - e.g. `Simulate: X = 5 L/h / "
                         "Noop: 4 / Simulate off: X` reports X 5.0 -> 1.0 in tick 12 stamped with tick 4; Block Time / Scope Time reset to 0.0 on "
                         "Restart are reported under the time of the last tick of the previous run - and the aggregator, which persists only "
                         "values with a later time, drops it", p)
    if n_sites < 6:
        raise AnchorError(f"R16d: only {n_sites} writes of reported tag fields found (floor 6)")
