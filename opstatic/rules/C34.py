"""C34 - CSV export is a faithful sample-and-hold of the plot log: the structural clauses of csv_generator.py.

The data-row writer walks the sorted, de-duplicated tick times once and keeps, per entry, a cursor at the head of the
entry's value list (values before the cursor are popped). Sample-and-hold needs, structurally:

R34a sort-before-use (two cooperating sites): _write_data_rows assumes every entry's values are sorted by tick_time;
     the sort happens as a side effect elsewhere. In generate_csv_string every call of the row writer must be preceded
     on all paths by a call of a function that sorts every entry's values by tick_time (or the row writer sorts
     itself before its loop).
R34b row times: the sequence handed to the row writer comes from _get_tick_times, which on every return path has
     de-duplicated (set) and sorted ascending (sort()/sorted() without reverse) the tick times of *all* values of all
     entries - rows strictly increase in time and every recorded time has a row.
R34c column agreement: header writer and row writer iterate the same collection expression (plot_log.entries.values())
     and append exactly one cell per entry on every path of the per-entry loop body.
R34d advance-to-latest: the cursor advance (pop of the head while the next value's time is <= the row time) must be
     a loop, not a single conditional step: several values of one tag at or before a row time otherwise leave a stale
     cell (the latest value at or before the row time is required).
R34e no value from the future: every `row.append(<head>.value)` must be dominated by a test establishing that the
     head's tick_time is <= the row time (or, equivalently, must be unreachable when row time < head time); otherwise a
     tag that starts late shows its first value in earlier rows instead of an empty cell.
Decides these structural necessary conditions, not the CSV text for concrete plot logs.
"""
from __future__ import annotations

import ast

from ..model import AnchorError, norm, walk_no_nested
from ..util import cfg_of, node_calls, call_attr
from ..cfg import facts_at

EXPLANATION = __doc__
MOD = "openpectus.aggregator.csv_generator"


def _sorts_entry_values(fn) -> bool:
    """fn contains `for entry in <...>.entries.values(): entry.values.sort(key=<tick_time>)` (all entries, ascending)."""
    for lp in walk_no_nested(fn.node):
        if isinstance(lp, ast.For) and isinstance(lp.target, ast.Name) and "entries" in norm(lp.iter):
            var = lp.target.id
            for st in lp.body:  # top-level statements of the loop body: unconditional
                if isinstance(st, ast.Expr) and isinstance(st.value, ast.Call):
                    c = st.value
                    if call_attr(c) == "sort" and norm(c.func) == f"{var}.values.sort" and _key_is_tick_time(c) and not _reversed(c):
                        return True
                if isinstance(st, ast.Assign) and isinstance(st.value, ast.Call) and call_attr(st.value) == "sorted" \
                        and norm(st.targets[0]) == f"{var}.values" and st.value.args and norm(st.value.args[0]) == f"{var}.values" \
                        and _key_is_tick_time(st.value) and not _reversed(st.value):
                    return True
    return False


def _key_is_tick_time(c: ast.Call) -> bool:
    key = next((k.value for k in c.keywords if k.arg == "key"), None)
    if isinstance(key, ast.Lambda) and isinstance(key.body, ast.Attribute) and key.body.attr == "tick_time":
        return True
    if isinstance(key, ast.Call) and call_attr(key) == "attrgetter" and key.args and isinstance(key.args[0], ast.Constant) \
            and key.args[0].value == "tick_time":
        return True
    return False


def _reversed(c: ast.Call) -> bool:
    r = next((k.value for k in c.keywords if k.arg == "reverse"), None)
    return r is not None and not (isinstance(r, ast.Constant) and r.value is False)


def run(ctx) -> None:
    prog = ctx.prog
    gen = prog.func(f"{MOD}:generate_csv_string")
    rows = prog.func(f"{MOD}:_write_data_rows")
    head = prog.func(f"{MOD}:_write_header_row")
    ticks = prog.func(f"{MOD}:_get_tick_times")
    for f in (gen, rows, head, ticks):
        ctx.analysed(f)
    ctx.rule("R34a", "entry values are sorted by tick_time before the row writer runs")
    ctx.rule("R34b", "row times are the de-duplicated, ascending tick times of all values")
    ctx.rule("R34c", "header and rows iterate the same entries; one cell per entry on every path")
    ctx.rule("R34d", "cursor advance is a loop")
    ctx.rule("R34e", "a cell value is taken only from a head whose time is <= the row time")

    # ---------------------------------------------------------------- R34a
    g = cfg_of(gen)
    mod = prog.module(MOD)
    sorters = {name for name, f in mod.functions.items() if _sorts_entry_values(f)}
    self_sorts = "_write_data_rows" in sorters
    row_calls = [n for n in g.nodes if node_calls(n, "_write_data_rows")]
    if not row_calls:
        raise AnchorError("generate_csv_string no longer calls _write_data_rows")
    for rc in row_calls:
        inst = f"generate_csv_string: {rc.text()}"
        if self_sorts:
            ctx.ok("R34a", inst, {"rule": "R34a", "sorted_by": "_write_data_rows itself"})
            continue
        p = g.search(None, lambda n, rc=rc: n.id == rc.id,
                     blocked=lambda n: any(call_attr(c) in sorters for c in n.calls()), follow_exc=False)
        if p is not None:
            ctx.fail("R34a", gen, rc.ast, inst, "the row writer can run before any function that sorts every entry's values by "
                     f"tick_time (sorting functions: {sorted(sorters) or 'none'}): with unsorted values the head cursor shows "
                     "values from the wrong time", p)
        else:
            ctx.ok("R34a", inst, {"rule": "R34a", "sorted_by": sorted(sorters)})

    # ---------------------------------------------------------------- R34b
    for rc in row_calls:
        for c in rc.calls():
            if call_attr(c) != "_write_data_rows":
                continue
            inst = f"generate_csv_string: row times argument of {norm(c.func)}"
            a = c.args[2] if len(c.args) > 2 else next((k.value for k in c.keywords if k.arg == "unique_tick_times"), None)
            if isinstance(a, ast.Call) and call_attr(a) == "_get_tick_times" and a.args and norm(a.args[0]) == norm(c.args[1]):
                ctx.ok("R34b", inst)
            else:
                ctx.fail("R34b", gen, c, inst, f"row times are `{norm(a) if a is not None else '?'}`, not _get_tick_times(<the same plot log>)")
    gt = cfg_of(ticks)
    rets = [n for n in gt.nodes if n.kind == "stmt" and isinstance(n.ast, ast.Return)]
    if not rets:
        raise AnchorError("_get_tick_times has no return")
    src = norm(ticks.node)
    all_values = any(isinstance(n, ast.GeneratorExp) or isinstance(n, (ast.ListComp, ast.SetComp)) for n in ast.walk(ticks.node))
    comp = next((n for n in ast.walk(ticks.node) if isinstance(n, (ast.GeneratorExp, ast.ListComp, ast.SetComp))
                 and isinstance(n.elt, ast.Attribute) and n.elt.attr == "tick_time"), None)
    inst = "_get_tick_times: collects tick_time of every value of every entry"
    if comp is not None and len(comp.generators) == 2 and not any(gen_.ifs for gen_ in comp.generators) \
            and "entries" in norm(comp.generators[0].iter) and norm(comp.generators[1].iter).endswith(".values"):
        ctx.ok("R34b", inst)
    else:
        ctx.fail("R34b", ticks, ticks.node, inst, "the tick-time collection is filtered or does not range over all values of all "
                 "entries: recorded times lose their row")
    for r in rets:
        inst = f"_get_tick_times: {r.text()} is de-duplicated and ascending"
        rv = r.ast.value
        dedup = sorted_ = False
        # walk back over the straight-line definitions
        names = {norm(rv)} if isinstance(rv, ast.Name) else set()
        if isinstance(rv, ast.Call) and call_attr(rv) == "sorted" and not _reversed(rv) and not any(k.arg == "key" for k in rv.keywords):
            sorted_ = True
            inner = rv.args[0] if rv.args else None
            if isinstance(inner, (ast.Call,)) and call_attr(inner) == "set" or isinstance(inner, ast.SetComp):
                dedup = True
            if isinstance(inner, ast.Name):
                names.add(inner.id)
        for st in walk_no_nested(ticks.node):
            if isinstance(st, ast.Assign) and isinstance(st.targets[0], ast.Name) and st.targets[0].id in names:
                for x in ast.walk(st.value):
                    if isinstance(x, ast.Call) and call_attr(x) == "set" or isinstance(x, ast.SetComp):
                        dedup = True
                    if isinstance(x, ast.Call) and call_attr(x) == "sorted" and not _reversed(x):
                        sorted_ = True
            if isinstance(st, ast.Expr) and isinstance(st.value, ast.Call) and call_attr(st.value) == "sort" \
                    and norm(st.value.func.value) in names and not _reversed(st.value) and not any(k.arg == "key" for k in st.value.keywords):
                # the sort must be on every path to this return
                sn = [n for n in gt.nodes if n.ast is st]
                if sn and gt.search(None, lambda n, r=r: n.id == r.id, blocked=lambda n, sn=sn: n.id == sn[0].id, follow_exc=False) is None:
                    sorted_ = True
        if dedup and sorted_:
            ctx.ok("R34b", inst)
        else:
            ctx.fail("R34b", ticks, r.ast, inst, f"returned times are {'not de-duplicated' if not dedup else ''}"
                     f"{' and ' if not dedup and not sorted_ else ''}{'not sorted ascending' if not sorted_ else ''}: rows are not "
                     "in strictly increasing time order")

    # ---------------------------------------------------------------- R34c / R34d / R34e
    def entry_loop(fn):
        lps = [n for n in walk_no_nested(fn.node) if isinstance(n, ast.For) and "entries" in norm(n.iter)]
        if len(lps) != 1:
            raise AnchorError(f"{fn.short}: expected one loop over the plot log entries, found {len(lps)}")
        return lps[0]
    hl, rl = entry_loop(head), entry_loop(rows)
    inst = f"entries iterated: header `{norm(hl.iter)}` / rows `{norm(rl.iter)}`"
    if norm(hl.iter) == norm(rl.iter) and norm(hl.iter).endswith(".entries.values()"):
        ctx.ok("R34c", inst)
    else:
        ctx.fail("R34c", rows, rl, inst, "header and data rows iterate different collections: columns do not line up")
    gr = cfg_of(rows)
    rl_node = next(n for n in gr.nodes if n.kind == "for" and n.ast is rl)
    evar = rl.target.id if isinstance(rl.target, ast.Name) else None
    outer = [n for n in walk_no_nested(rows.node) if isinstance(n, ast.For) and n is not rl and any(x is rl for x in ast.walk(n))]
    if not outer or not isinstance(outer[0].target, ast.Name) or evar is None:
        raise AnchorError("_write_data_rows: outer loop over tick times not found")
    tvar = outer[0].target.id

    # the row list: the local passed to writerow(...) inside the tick-time loop (by role)
    row_var = next((norm(c.args[0]) for c in ast.walk(outer[0]) if isinstance(c, ast.Call) and call_attr(c) == "writerow" and c.args
                    and isinstance(c.args[0], ast.Name)), None)
    if row_var is None:
        raise AnchorError("_write_data_rows: the row list handed to writerow(...) was not found")

    def is_cell_append(n):
        return any(call_attr(c) == "append" and norm(c.func) == f"{row_var}.append" for c in n.calls())
    # one cell per entry per path: enumerate acyclic paths of the body from the loop edge back to the loop node
    counts = set()
    witness = {}

    def walk(nid, cnt, seen, path):
        if nid == rl_node.id:
            counts.add(cnt)
            witness.setdefault(cnt, path)
            return
        if nid in seen or len(path) > 60:
            return
        n = gr.nodes[nid]
        c2 = cnt + (1 if is_cell_append(n) else 0)
        for d, l in gr.succ[nid]:
            if l == "exc":
                continue
            walk(d, c2, seen | {nid}, path + [n])
    for d, l in gr.succ[rl_node.id]:
        if l == "loop":
            walk(d, 0, frozenset(), [])
    inst = "_write_data_rows: exactly one cell appended per entry on every path"
    if counts == {1}:
        ctx.ok("R34c", inst)
    else:
        bad = next(c for c in sorted(counts) if c != 1) if counts else 0
        ctx.fail("R34c", rows, rl, inst, f"a path through the per-entry body appends {bad} cells (counts seen: {sorted(counts)}): "
                 "columns shift", witness.get(bad))
    hg = cfg_of(head)
    h_app = [n for n in hg.nodes if any(call_attr(c) == "append" and "header_row" in norm(c.func) for c in n.calls())]
    hl_node = next(n for n in hg.nodes if n.kind == "for" and n.ast is hl)
    inst = "_write_header_row: one header cell per entry"
    if len(h_app) == 1 and hg.search([(hl_node.id, "loop")], lambda n: n.id == hl_node.id, blocked=lambda n: n.id == h_app[0].id,
                                     follow_exc=False) is None:
        ctx.ok("R34c", inst)
    else:
        ctx.fail("R34c", head, hl, inst, "header does not append exactly one cell per entry")

    # R34d: the pop(0) advance sits in a while loop whose test compares the next value's time with the row time
    pops = [n for n in gr.nodes if any(call_attr(c) == "pop" and norm(c.func) == f"{evar}.values.pop" for c in n.calls())]
    if not pops:
        raise AnchorError("_write_data_rows: cursor advance (entry.values.pop) not found; the algorithm changed shape")
    pm = {id(ch): par for par in ast.walk(rows.node) for ch in ast.iter_child_nodes(par)}
    for pn in pops:
        inst = f"_write_data_rows: {pn.text()}"
        cur = pm.get(id(pn.ast))
        in_while = None
        while cur is not None and cur is not rl:
            if isinstance(cur, ast.While):
                in_while = cur
                break
            cur = pm.get(id(cur))
        if in_while is None:
            ctx.fail("R34d", rows, pn.ast, inst, "the head is advanced at most once per row (conditional, not a loop): when a tag has "
                     "several values at or before a row time the cell shows a stale value instead of the latest one")
        elif f"{evar}.values[1].tick_time" not in norm(in_while.test) or tvar not in norm(in_while.test):
            ctx.fail("R34d", rows, pn.ast, inst, f"the advance loop's test `{norm(in_while.test)}` does not compare the next value's "
                     "time with the row time")
        else:
            ctx.ok("R34d", inst)

    # R34e
    head_val = f"{evar}.values[0].value"
    cells = [n for n in gr.nodes if any(call_attr(c) == "append" and norm(c.func) == f"{row_var}.append" and c.args
                                        and norm(c.args[0]) == head_val for c in n.calls())]
    if not cells:
        raise AnchorError(f"_write_data_rows: no `{row_var}.append({head_val})` found; the algorithm changed shape")
    ht = f"{evar}.values[0].tick_time"
    for cn in cells:
        inst = f"_write_data_rows: {cn.text()}"
        facts = facts_at(gr, cn)
        ok = False
        for e, pol in gr.conditions_at(cn):
            for cmp_ in ast.walk(e):
                if isinstance(cmp_, ast.Compare) and len(cmp_.ops) == 1:
                    l, r, op = norm(cmp_.left), norm(cmp_.comparators[0]), cmp_.ops[0]
                    # established: head time <= row time
                    if pol and ((l == tvar and r == ht and isinstance(op, (ast.GtE,))) or (l == ht and r == tvar and isinstance(op, ast.LtE))):
                        ok = _top_level_conjunct(e, cmp_, True)
                    if not pol and ((l == tvar and r == ht and isinstance(op, ast.Lt)) or (l == ht and r == tvar and isinstance(op, ast.Gt))):
                        ok = ok or _top_level_conjunct(e, cmp_, False)
        if ok:
            ctx.ok("R34e", inst)
        else:
            ctx.fail("R34e", rows, cn.ast, inst, f"the cell takes `{head_val}` without a test that {ht} <= {tvar}: for a tag whose "
                     "first value is recorded later than the first row the rows before it show that future value instead of "
                     "an empty cell")


def _top_level_conjunct(e: ast.AST, cmp_: ast.AST, pol: bool) -> bool:
    """cmp_ is implied by `e == pol`: e is cmp_, or an `and` containing it (pol True), or an `or` containing it (pol False)."""
    if e is cmp_:
        return True
    if isinstance(e, ast.BoolOp) and ((isinstance(e.op, ast.And) and pol) or (isinstance(e.op, ast.Or) and not pol)):
        return any(_top_level_conjunct(v, cmp_, pol) for v in e.values)
    return False
