"""C34 - CSV export is a faithful sample-and-hold of the plot log: the structural clauses of csv_generator.py.

The data-row writer walks the sorted, de-duplicated tick times once and keeps, per entry, a cursor at the head of the
entry's value list (values before the cursor are popped). Sample-and-hold needs, structurally:

R34a sort-before-use (two cooperating sites): _write_data_rows assumes every entry's values are sorted by tick_time;
     the sort happens as a side effect elsewhere. In generate_csv_string every call of the row writer must be preceded
     on all paths by a call of a function that sorts every entry's values by tick_time (or the row writer sorts
     itself before its loop).
R34b row times: the sequence handed to the row writer comes from _get_tick_times, which on every return path has
     de-duplicated (set) and sorted ascending (sort()/sorted() without reverse) the tick times of *all* values of all
     entries - rows strictly increase in time and every recorded time has a row.
R34c column agreement: header writer and row writer iterate the same collection expression (plot_log.entries.values())
     and append exactly one cell per entry on every path of the per-entry loop body.
R34d advance-to-latest: the cursor advance (pop of the head while the next value's time is <= the row time) must be
     a loop, not a single conditional step: several values of one tag at or before a row time otherwise leave a stale
     cell (the latest value at or before the row time is required).
R34e no value from the future: every `row.append(<head>.value)` must be dominated by a test establishing that the
     head's tick_time is <= the row time (or, equivalently, must be unreachable when row time < head time); otherwise a
     tag that starts late shows its first value in earlier rows instead of an empty cell.
Decides these structural necessary conditions, not the CSV text for concrete plot logs.
"""
from __future__ import annotations

import ast

from ..model import AnchorError, norm, walk_no_nested
from ..util import cfg_of, node_calls, call_attr
from ..cfg import facts_at

EXPLANATION = __doc__
MOD = "openpectus.aggregator.csv_generator"


def _sorts_entry_values(fn) -> bool:
    """fn contains `for entry in <...>.entries.values(): entry.values.sort(key=<tick_time>)` (all entries, ascending)."""
    for lp in walk_no_nested(fn.node):
        if isinstance(lp, ast.For) and isinstance(lp.target, ast.Name) and "entries" in norm(lp.iter):
            var = lp.target.id
            for st in lp.body:  # top-level statements of the loop body: unconditional
                if isinstance(st, ast.Expr) and isinstance(st.value, ast.Call):
                    c = st.value
                    if call_attr(c) == "sort" and norm(c.func) == f"{var}.values.sort" and _key_is_tick_time(c) and not _reversed(c):
                        return True
                if isinstance(st, ast.Assign) and isinstance(st.value, ast.Call) and call_attr(st.value) == "sorted" \
                        and norm(st.targets[0]) == f"{var}.values" and st.value.args and norm(st.value.args[0]) == f"{var}.values" \
                        and _key_is_tick_time(st.value) and not _reversed(st.value):
                    return True
    return False


def _key_is_tick_time(c: ast.Call) -> bool:
    key = next((k.value for k in c.keywords if k.arg == "key"), None)
    if isinstance(key, ast.Lambda) and isinstance(key.body, ast.Attribute) and key.body.attr == "tick_time":
        return True
    if isinstance(key, ast.Call) and call_attr(key) == "attrgetter" and key.args and isinstance(key.args[0], ast.Constant) \
            and key.args[0].value == "tick_time":
        return True
    return False


def _reversed(c: ast.Call) -> bool:
    r = next((k.value for k in c.keywords if k.arg == "reverse"), None)
    return r is not None and not (isinstance(r, ast.Constant) and r.value is False)


def run(ctx) -> None:
    prog = ctx.prog
    gen = prog.func(f"{MOD}:generate_csv_string")
    rows = prog.func(f"{MOD}:_write_data_rows")
    head = prog.func(f"{MOD}:_write_header_row")
    ticks = prog.func(f"{MOD}:_get_tick_times")
    for f in (gen, rows, head, ticks):
        ctx.analysed(f)
    ctx.rule("R34a", "entry values are sorted by tick_time before the row writer runs")
    ctx.rule("R34b", "row times are the de-duplicated, ascending tick times of all values")
    ctx.rule("R34c", "header and rows iterate the same entries; one cell per entry on every path")
    ctx.rule("R34d", "cursor advance is a loop")
    ctx.rule("R34e", "a cell value is taken only from a head whose time is <= the row time")

    # ---------------------------------------------------------------- R34a
    g = cfg_of(gen)
    mod = prog.module(MOD)
    sorters = {name for name, f in mod.functions.items() if _sorts_entry_values(f)}
    self_sorts = "_write_data_rows" in sorters
    row_calls = [n for n in g.nodes if node_calls(n, "_write_data_rows")]
    if not row_calls:
        raise AnchorError("generate_csv_string no longer calls _write_data_rows")
    for rc in row_calls:
        inst = f"generate_csv_string: {rc.text()}"
        if self_sorts:
            ctx.ok("R34a", inst, {"rule": "R34a", "sorted_by": "_write_data_rows itself"})
            continue
        p = g.search(None, lambda n, rc=rc: n.id == rc.id,
                     blocked=lambda n: any(call_attr(c) in sorters for c in n.calls()), follow_exc=False)
        if p is not None:
            ctx.fail("R34a", gen, rc.ast, inst, "the row writer can run before any function that sorts every entry's values by "
                     f"tick_time (sorting functions: {sorted(sorters) or 'none'}): with unsorted values the head cursor shows "
                     "values from the wrong time", p)
        else:
            ctx.ok("R34a", inst, {"rule": "R34a", "sorted_by": sorted(sorters)})

    # ---------------------------------------------------------------- R34b
    for rc in row_calls:
        for c in rc.calls():
            if call_attr(c) != "_write_data_rows":
                continue
            inst = f"generate_csv_string: row times argument of {norm(c.func)}"
            a = c.args[2] if len(c.args) > 2 else next((k.value for k in c.keywords if k.arg == "unique_tick_times"), None)
            if isinstance(a, ast.Call) and call_attr(a) == "_get_tick_times" and a.args and norm(a.args[0]) == norm(c.args[1]):
                ctx.ok("R34b", inst)
            else:
                ctx.fail("R34b", gen, c, inst, f"row times are `{norm(a) if a is not None else '?'}`, not _get_tick_times(<the same plot log>)")
    gt = cfg_of(ticks)
    rets = [n for n in gt.nodes if n.kind == "stmt" and isinstance(n.ast, ast.Return)]
    if not rets:
        raise AnchorError("_get_tick_times has no return")
    src = norm(ticks.node)
    all_values = any(isinstance(n, ast.GeneratorExp) or isinstance(n, (ast.ListComp, ast.SetComp)) for n in ast.walk(ticks.node))
    comp = next((n for n in ast.walk(ticks.node) if isinstance(n, (ast.GeneratorExp, ast.ListComp, ast.SetComp))
                 and isinstance(n.elt, ast.Attribute) and n.elt.attr == "tick_time"), None)
    inst = "_get_tick_times: collects tick_time of every value of every entry"
    if comp is not None and len(comp.generators) == 2 and not any(gen_.ifs for gen_ in comp.generators) \
            and "entries" in norm(comp.generators[0].iter) and norm(comp.generators[1].iter).endswith(".values"):
        ctx.ok("R34b", inst)
    else:
        ctx.fail("R34b", ticks, ticks.node, inst, "the tick-time collection is filtered or does not range over all values of all "
                 "entries: recorded times lose their row")
    for r in rets:
        inst = f"_get_tick_times: {r.text()} is de-duplicated and ascending"
        rv = r.ast.value
        dedup = sorted_ = False
        # walk back over the straight-line definitions
        names = {norm(rv)} if isinstance(rv, ast.Name) else set()
        if isinstance(rv, ast.Call) and call_attr(rv) == "sorted" and not _reversed(rv) and not any(k.arg == "key" for k in rv.keywords):
            sorted_ = True
            inner = rv.args[0] if rv.args else None
            if isinstance(inner, (ast.Call,)) and call_attr(inner) == "set" or isinstance(inner, ast.SetComp):
                dedup = True
            if isinstance(inner, ast.Name):
                names.add(inner.id)
        for st in walk_no_nested(ticks.node):
            if isinstance(st, ast.Assign) and isinstance(st.targets[0], ast.Name) and st.targets[0].id in names:
                for x in ast.walk(st.value):
                    if isinstance(x, ast.Call) and call_attr(x) == "set" or isinstance(x, ast.SetComp):
                        dedup = True
                    if isinstance(x, ast.Call) and call_attr(x) == "sorted" and not _reversed(x):
                        sorted_ = True
            if isinstance(st, ast.Expr) and isinstance(st.value, ast.Call) and call_attr(st.value) == "sort" \
                    and norm(st.value.func.value) in names and not _reversed(st.value) and not any(k.arg == "key" for k in st.value.keywords):
                # the sort must be on every path to this return
                sn = [n for n in gt.nodes if n.ast is st]
                if sn and gt.search(None, lambda n, r=r: n.id == r.id, blocked=lambda n, sn=sn: n.id == sn[0].id, follow_exc=False) is None:
                    sorted_ = True
        if dedup and sorted_:
            ctx.ok("R34b", inst)
        else:
            ctx.fail("R34b", ticks, r.ast, inst, f"returned times are {'not de-duplicated' if not dedup else ''}"
                     f"{' and ' if not dedup and not sorted_ else ''}{'not sorted ascending' if not sorted_ else ''}: rows are not "
                     "in strictly increasing time order")

    # ---------------------------------------------------------------- R34c / R34d / R34e
    from ..util import local_single_defs as _lsd
    rdefs = _lsd(rows)
    rparams = [a_.arg for a_ in rows.node.args.args]
    hl = [n for n in walk_no_nested(head.node) if isinstance(n, ast.For) and "entries" in norm(n.iter)]
    if len(hl) != 1:
        raise AnchorError(f"_write_header_row: expected one loop over the plot log entries, found {len(hl)}")
    hl = hl[0]
    # the tick loop: over the times parameter; the per-column loop: the for directly inside it
    tick_loops = [n for n in walk_no_nested(rows.node) if isinstance(n, ast.For) and isinstance(n.iter, ast.Name)
                  and n.iter.id in rparams and isinstance(n.target, ast.Name)]
    if len(tick_loops) != 1:
        raise AnchorError("_write_data_rows: loop over the row times parameter not found")
    tl = tick_loops[0]
    tvar = tl.target.id
    col_loops = [st for st in tl.body if isinstance(st, ast.For)]
    if len(col_loops) != 1:
        raise AnchorError("_write_data_rows: expected exactly one per-column loop inside the row loop")
    rl = col_loops[0]
    # what the per-column loop ranges over, by role: the entries themselves, or their value lists (through a comprehension)
    it = rl.iter
    if isinstance(it, ast.Call) and call_attr(it) == "enumerate" and it.args:
        it = it.args[0]
        col_target = rl.target.elts[1] if isinstance(rl.target, ast.Tuple) and len(rl.target.elts) == 2 else None
    else:
        col_target = rl.target
    if not isinstance(col_target, ast.Name):
        raise AnchorError("_write_data_rows: per-column loop target not understood")
    it_def = rdefs.get(it.id, it) if isinstance(it, ast.Name) else it
    if norm(it_def).endswith(".entries.values()"):
        entries_src, VL = norm(it_def), f"{col_target.id}.values"
    elif isinstance(it_def, ast.ListComp) and len(it_def.generators) == 1 and not it_def.generators[0].ifs \
            and norm(it_def.generators[0].iter).endswith(".entries.values()") \
            and norm(it_def.elt) == f"{norm(it_def.generators[0].target)}.values":
        entries_src, VL = norm(it_def.generators[0].iter), col_target.id
    else:
        raise AnchorError(f"_write_data_rows: the per-column loop ranges over `{norm(it_def)[:60]}` - not the plot log entries")
    inst = f"entries iterated: header `{norm(hl.iter)}` / rows `{entries_src}`"
    if norm(hl.iter) == entries_src:
        ctx.ok("R34c", inst)
    else:
        ctx.fail("R34c", rows, rl, inst, "header and data rows iterate different collections: columns do not line up")
    gr = cfg_of(rows)
    rl_node = next(n for n in gr.nodes if n.kind == "for" and n.ast is rl)
    row_var = next((norm(c.args[0]) for c in ast.walk(tl) if isinstance(c, ast.Call) and call_attr(c) == "writerow" and c.args
                    and isinstance(c.args[0], ast.Name)), None)
    if row_var is None:
        raise AnchorError("_write_data_rows: the row list handed to writerow(...) was not found")

    def is_cell_append(n):
        return any(call_attr(c) == "append" and norm(c.func) == f"{row_var}.append" for c in n.calls())
    counts = set()
    witness = {}

    def walk(nid, cnt, seen, path):
        if nid == rl_node.id:
            counts.add(cnt)
            witness.setdefault(cnt, path)
            return
        if nid in seen or len(path) > 60:
            return
        n = gr.nodes[nid]
        c2 = cnt + (1 if is_cell_append(n) else 0)
        for d, l in gr.succ[nid]:
            if l == "exc":
                continue
            walk(d, c2, seen | {nid}, path + [n])
    for d, l in gr.succ[rl_node.id]:
        if l == "loop":
            walk(d, 0, frozenset(), [])
    inst = "_write_data_rows: exactly one cell appended per entry on every path"
    if counts == {1}:
        ctx.ok("R34c", inst)
    else:
        bad = next(c for c in sorted(counts) if c != 1) if counts else 0
        ctx.fail("R34c", rows, rl, inst, f"a path through the per-entry body appends {bad} cells (counts seen: {sorted(counts)}): "
                 "columns shift", witness.get(bad))
    hg = cfg_of(head)
    h_app = [n for n in hg.nodes if any(call_attr(c) == "append" and isinstance(c.func.value, ast.Name) for c in n.calls())]
    hl_node = next(n for n in hg.nodes if n.kind == "for" and n.ast is hl)
    inst = "_write_header_row: one header cell per entry"
    if len(h_app) == 1 and hg.search([(hl_node.id, "loop")], lambda n: n.id == hl_node.id, blocked=lambda n: n.id == h_app[0].id,
                                     follow_exc=False) is None:
        ctx.ok("R34c", inst)
    else:
        ctx.fail("R34c", head, hl, inst, "header does not append exactly one cell per entry")

    # R34d: the advance (drop the head / move a cursor) is a loop whose test compares the *next* value's time with the row time
    def time_cmp(e) -> bool:
        return any(isinstance(c, ast.Compare) and len(c.ops) == 1 and tvar in (norm(c.left), norm(c.comparators[0]))
                   and any(t_.endswith(".tick_time") and t_.startswith(VL + "[") for t_ in (norm(c.left), norm(c.comparators[0])))
                   for c in ast.walk(e))
    whiles = [w for w in ast.walk(rl) if isinstance(w, ast.While) and time_cmp(w.test)]
    ifs = [i for i in ast.walk(rl) if isinstance(i, ast.If) and time_cmp(i.test) and any(
        (isinstance(x, ast.Call) and call_attr(x) == "pop") or isinstance(x, ast.AugAssign) for x in ast.walk(i))
        and not any(any(x is i for x in ast.walk(w)) for w in whiles)]
    inst = "_write_data_rows: the advance to the latest value at or before the row time is a loop"
    if ifs:
        ctx.fail("R34d", rows, ifs[0], inst, "the cursor is advanced at most once per row (conditional, not a loop): when a tag has "
                 "several values at or before a row time the cell shows a stale value instead of the latest one")
    elif whiles:
        ctx.ok("R34d", inst)
    else:
        raise AnchorError("_write_data_rows: no advance step comparing the next value's time with the row time was found")

    # R34e: a cell that shows a recorded value `VL[i].value` needs a guard relating VL[i].tick_time to the row time
    n_cells = 0
    for n in gr.nodes:
        for c in n.calls():
            if not (call_attr(c) == "append" and norm(c.func) == f"{row_var}.append" and c.args):
                continue
            x = c.args[0]
            cands = []      # (value expr, extra guard (expr, polarity) from a conditional expression)
            if isinstance(x, ast.IfExp):
                cands += [(x.body, (x.test, True)), (x.orelse, (x.test, False))]
            else:
                cands.append((x, None))
            for vx, extra in cands:
                if not (isinstance(vx, ast.Attribute) and vx.attr == "value" and isinstance(vx.value, ast.Subscript)
                        and norm(vx.value.value) == VL):
                    continue
                n_cells += 1
                idx = vx.value.slice
                ht = f"{VL}[{norm(idx)}].tick_time"
                inst = f"_write_data_rows: cell `{norm(vx)}`"
                guards = list(gr.conditions_at(n)) + ([extra] if extra else [])
                ok = False
                mentions_idx = False
                for e, pol in guards:
                    for cmp_ in ast.walk(e):
                        if isinstance(cmp_, ast.Compare) and len(cmp_.ops) == 1:
                            l, r, op = norm(cmp_.left), norm(cmp_.comparators[0]), cmp_.ops[0]
                            if pol and ((l == tvar and r == ht and isinstance(op, ast.GtE)) or (l == ht and r == tvar and isinstance(op, ast.LtE))):
                                ok = ok or _top_level_conjunct(e, cmp_, True)
                            if not pol and ((l == tvar and r == ht and isinstance(op, ast.Lt)) or (l == ht and r == tvar and isinstance(op, ast.Gt))):
                                ok = ok or _top_level_conjunct(e, cmp_, False)
                            if isinstance(idx, ast.Name) and idx.id in (l, r):
                                mentions_idx = True
                if ok:
                    ctx.ok("R34e", inst)
                elif mentions_idx:
                    raise AnchorError(f"_write_data_rows: cell `{norm(vx)}` is guarded by a test on the cursor `{norm(idx)}` - cursor "
                                      "invariant not understood")
                else:
                    ctx.fail("R34e", rows, c, inst, f"the cell takes `{norm(vx)}` without a test that {ht} <= {tvar} "
                             f"(guards: {[norm(e) for e, _ in guards] or 'none'}): for a tag whose first value is recorded later than "
                             "the first row the rows before it show a value from the future instead of an empty cell")
    if n_cells == 0:
        raise AnchorError(f"_write_data_rows: no cell of the form `{VL}[i].value` found; the algorithm changed shape")


def _top_level_conjunct(e: ast.AST, cmp_: ast.AST, pol: bool) -> bool:
    """cmp_ is implied by `e == pol`: e is cmp_, or an `and` containing it (pol True), or an `or` containing it (pol False)."""
    if e is cmp_:
        return True
    if isinstance(e, ast.BoolOp) and ((isinstance(e.op, ast.And) and pol) or (isinstance(e.op, ast.Or) and not pol)):
        return any(_top_level_conjunct(v, cmp_, pol) for v in e.values)
    return False
