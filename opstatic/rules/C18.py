"""C18 - Instruction lines decompose into exactly their parts: table order and regex-AST facts.

R18a first-match scan: in every `operators` list of the node classes no operator precedes one that
     contains it (the parser takes the first operator found in the argument, so '<' before '<='
     would make '<=' unrecognisable).
R18b line grammar (the regex is constant-folded from Grammar's class attributes and parsed with the
     standard library's regex parser): the named groups of Grammar.full_line_re are exactly the keys
     _parse_line / lsp_parse_line read; group `instruction_name` cannot match ':' or '#'; group
     `argument` cannot match '#' and is introduced by the literal ': '; the threshold group is
     followed by whitespace; the indent group is leading whitespace.
R18c unit alphabet: every character of every unit in the literal QUANTITY_UNIT_MAP belongs to the
     character class of Grammar.unit_re (otherwise 'tag operator value unit' loses its unit).
R18d the right-hand side patterns are anchored (^...$) and the float group accepts a superset of the
     threshold number syntax.
R18e number syntax: the language of the float group contains every decimal literal float() converts - optional sign, digits
     with optional fraction or a leading-dot fraction, optional exponent (the recovered value is converted with float()).
R18f the two right-hand-side alternatives (value unit / value) are disjoint: the with-unit pattern is tried first, so a unit-less
     value that it also matches is split into a shorter value and a unit that was never written.
R18g the line grammar covers the well-formed forms of each part (regex-AST / language facts, nothing is matched at run time):
     the threshold group contains every unsigned decimal literal float() converts (`5`, `5.`, `5.0`, `.5`); one or more
     blanks may separate the threshold from the name; the first character of the name may be any letter, not only an ASCII
     one (uod command names are unrestricted); and after the name the grammar can consume a bare `:` followed directly by a
     comment (the tail language contains `:# c` and `: # c` - pattern.match is not anchored at the end, so an unconsumed rest
     is dropped silently and the comment is lost).
Decides grammar-level facts for all lines; recovery of concrete tag names/values is value-level.
"""
from __future__ import annotations

import ast
import re._parser as sre_parse
import re._constants as sre_c

from ..consteval import fold_str
from ..model import AnchorError, norm, walk_no_nested
from ..util import call_attr

EXPLANATION = __doc__
PARSER = "openpectus.lang.model.parser"


def _group_text(pattern: str, name: str) -> str | None:
    """Source text of the named group's body (balanced parentheses, escapes and classes skipped)."""
    key = f"(?P<{name}>"
    i = pattern.find(key)
    if i < 0:
        return None
    j = i + len(key)
    depth, k, in_cls = 1, j, False
    while k < len(pattern):
        c = pattern[k]
        if c == "\\":
            k += 2
            continue
        if in_cls:
            in_cls = c != "]"
        elif c == "[":
            in_cls = True
        elif c == "(":
            depth += 1
        elif c == ")":
            depth -= 1
            if depth == 0:
                return pattern[j:k]
        k += 1
    return None


def _groups(pattern: str):
    p = sre_parse.parse(pattern)
    return p, dict(p.state.groupdict)


def _find_group(tree, gid):
    """sub-pattern of group number gid."""
    for op, av in tree:
        if op is sre_c.SUBPATTERN:
            g, _, _, sub = av
            if g == gid:
                return sub
            r = _find_group(sub, gid)
            if r is not None:
                return r
        elif op in (sre_c.MAX_REPEAT, sre_c.MIN_REPEAT):
            r = _find_group(av[2], gid)
            if r is not None:
                return r
        elif op is sre_c.BRANCH:
            for b in av[1]:
                r = _find_group(b, gid)
                if r is not None:
                    return r
    return None


def _can_match_char(sub, ch: str) -> bool:
    """May any position of sub-pattern `sub` consume character ch? (over-approximation over all positions)"""
    o = ord(ch)
    for op, av in sub:
        if op is sre_c.LITERAL and av == o:
            return True
        if op is sre_c.NOT_LITERAL and av != o:
            return True
        if op is sre_c.ANY:
            return True
        if op is sre_c.IN:
            neg = any(x[0] is sre_c.NEGATE for x in av)
            hit = False
            for x in av:
                if x[0] is sre_c.LITERAL and x[1] == o:
                    hit = True
                elif x[0] is sre_c.RANGE and x[1][0] <= o <= x[1][1]:
                    hit = True
                elif x[0] is sre_c.CATEGORY:
                    cat = x[1]
                    if cat is sre_c.CATEGORY_DIGIT and ch.isdigit():
                        hit = True
                    if cat is sre_c.CATEGORY_SPACE and ch.isspace():
                        hit = True
                    if cat is sre_c.CATEGORY_WORD and (ch.isalnum() or ch == "_"):
                        hit = True
            if hit != neg:
                return True
        if op in (sre_c.MAX_REPEAT, sre_c.MIN_REPEAT) and _can_match_char(av[2], ch):
            return True
        if op is sre_c.SUBPATTERN and _can_match_char(av[3], ch):
            return True
        if op is sre_c.BRANCH and any(_can_match_char(b, ch) for b in av[1]):
            return True
    return False


def _class_chars(sub):
    """(positive literal chars, ranges) of the single IN class inside a group like [a-zA-Z%...]+"""
    for op, av in sub:
        if op in (sre_c.MAX_REPEAT, sre_c.MIN_REPEAT):
            return _class_chars(av[2])
        if op is sre_c.IN:
            lits = {chr(x[1]) for x in av if x[0] is sre_c.LITERAL}
            rngs = [(x[1][0], x[1][1]) for x in av if x[0] is sre_c.RANGE]
            if any(x[0] is sre_c.NEGATE for x in av):
                raise AnchorError("unit_re uses a negated class")
            return lits, rngs
        if op is sre_c.SUBPATTERN:
            return _class_chars(av[3])
    raise AnchorError("unit_re: character class not found")


def run(ctx) -> None:
    prog = ctx.prog
    for r, d in [("R18a", "operator lists ordered longest-containing first"), ("R18b", "line grammar group facts"),
                 ("R18c", "unit regex alphabet covers all supported units"), ("R18d", "rhs patterns anchored")]:
        ctx.rule(r, d)
    # ---- R18a
    node = prog.cls("openpectus.lang.model.ast:Node")
    n_lists = 0
    for c in [node] + node.all_subclasses():
        ops = c.class_attrs.get("operators")
        if c.module.is_test or not isinstance(ops, ast.List):
            continue
        n_lists += 1
        vals = [e.value for e in ops.elts if isinstance(e, ast.Constant)]
        bad = [(a, b) for i, a in enumerate(vals) for b in vals[i + 1:] if a in b and a != b]
        inst = f"{c.name}.operators = {vals}"
        if bad:
            ctx.fail("R18a", None, ops, inst, f"'{bad[0][0]}' precedes '{bad[0][1]}' which contains it: the first-match scan in "
                     f"_parse_tag_operator_value can never recognise '{bad[0][1]}'", function=c.qualname, file=c.module.relpath)
        else:
            ctx.ok("R18a", inst)
    if n_lists < 1:
        raise AnchorError("no `operators` list found on the node classes")
    ptov = prog.func(f"{PARSER}:PcodeParser._parse_tag_operator_value")
    ctx.analysed(ptov)
    npar = ptov.node.args.args[0].arg if ptov.is_static else ptov.node.args.args[-1].arg
    scan = [lp for lp in walk_no_nested(ptov.node) if isinstance(lp, ast.For) and norm(lp.iter) == f"{npar}.operators"
            and any(isinstance(x, ast.Break) for x in ast.walk(lp))]
    if scan:
        ctx.ok("R18a", "_parse_tag_operator_value takes the first operator of node.operators found in the argument")
    else:
        # alternative algorithm: a positional scan - walk the argument, stop at the first character of a start set, take the
        # two-character slice if it is an operator, else the character. Every operator must then *begin* with a start
        # character and be at most as long as the slice.
        from ..util import local_single_defs as _lsd
        pdefs = _lsd(ptov)
        pos = None
        for lp in walk_no_nested(ptov.node):
            if isinstance(lp, ast.For) and isinstance(lp.iter, ast.Call) and call_attr(lp.iter) == "enumerate" \
                    and isinstance(lp.target, ast.Tuple) and len(lp.target.elts) == 2 and any(isinstance(x, ast.Break) for x in ast.walk(lp)):
                ch = norm(lp.target.elts[1])
                for t in ast.walk(lp):
                    if isinstance(t, ast.Compare) and len(t.ops) == 1 and isinstance(t.ops[0], ast.In) and norm(t.left) == ch:
                        pos = (lp, t.comparators[0])
        if pos is None:
            raise AnchorError("_parse_tag_operator_value: neither a first-match scan over node.operators nor a positional scan recognised")
        lp, start_expr = pos
        sdef = pdefs.get(start_expr.id) if isinstance(start_expr, ast.Name) else start_expr
        slice_len = max([int(x.upper.right.value) for x in ast.walk(lp) if isinstance(x, ast.Slice) and isinstance(x.upper, ast.BinOp)
                         and isinstance(x.upper.op, ast.Add) and isinstance(x.upper.right, ast.Constant)] or [1])
        for c in [node] + node.all_subclasses():
            ops = c.class_attrs.get("operators")
            if c.module.is_test or not isinstance(ops, ast.List):
                continue
            vals = [e.value for e in ops.elts if isinstance(e, ast.Constant)]
            # evaluate the start set for this operator table
            if isinstance(sdef, ast.ListComp) and len(sdef.generators) == 1 and norm(sdef.generators[0].iter) == f"{npar}.operators" \
                    and len(sdef.generators[0].ifs) == 1 and norm(sdef.elt) == norm(sdef.generators[0].target):
                cond = sdef.generators[0].ifs[0]
                v = norm(sdef.generators[0].target)
                if isinstance(cond, ast.Compare) and norm(cond.left) == f"len({v})" and isinstance(cond.comparators[0], ast.Constant):
                    k_ = cond.comparators[0].value
                    opk = cond.ops[0]
                    start = {o for o in vals if (isinstance(opk, ast.Eq) and len(o) == k_) or (isinstance(opk, ast.LtE) and len(o) <= k_)
                             or (isinstance(opk, ast.Lt) and len(o) < k_)}
                else:
                    raise AnchorError("_parse_tag_operator_value: start set of the positional scan not understood")
            elif isinstance(sdef, ast.Constant) and isinstance(sdef.value, str):
                start = set(sdef.value)
            elif isinstance(sdef, (ast.List, ast.Tuple, ast.Set)) and all(isinstance(e, ast.Constant) for e in sdef.elts):
                start = {e.value for e in sdef.elts}
            else:
                raise AnchorError("_parse_tag_operator_value: start set of the positional scan not understood")
            for o in vals:
                inst = f"{c.name}: operator '{o}' is reachable by the positional scan"
                if o[0] not in start:
                    ctx.fail("R18a", ptov, lp, inst, f"the scan only stops at {sorted(start)} but '{o}' begins with '{o[0]}': a condition "
                             f"written with '{o}' is decomposed at a later character into another operator (e.g. 'A {o} 3' -> tag "
                             f"'A {o[0]}', operator '{o[1:]}')")
                elif len(o) > slice_len:
                    ctx.fail("R18a", ptov, lp, inst, f"the scan compares a slice of {slice_len} characters but '{o}' is longer")
                else:
                    ctx.ok("R18a", inst)
    # ---- R18b
    gram = prog.cls(f"{PARSER}:Grammar")
    full = fold_str(prog, gram, gram.class_attrs["full_line_re"])
    tree, groups = _groups(full)
    ctx.extra["full_line_re"] = full
    read_keys = set()
    for fq in (f"{PARSER}:PcodeParser._parse_line", f"{PARSER}:lsp_parse_line"):
        f = prog.func(fq)
        ctx.analysed(f)
        for c in walk_no_nested(f.node):
            if isinstance(c, ast.Call) and isinstance(c.func, ast.Attribute) and c.func.attr in ("get", "start", "end", "group") \
                    and c.args and isinstance(c.args[0], ast.Constant) and isinstance(c.args[0].value, str) \
                    and ("match" in norm(c.func.value)):
                read_keys.add(c.args[0].value)
    inst = f"groups read by the parser {sorted(read_keys)} exist in Grammar.full_line_re"
    if read_keys and read_keys <= set(groups):
        ctx.ok("R18b", inst)
    else:
        ctx.fail("R18b", None, gram.node, inst, f"the parser reads groups {sorted(read_keys - set(groups))} that the grammar does not define",
                 function=gram.qualname, file=gram.module.relpath)
    for gname, forbidden in (("instruction_name", ":#"), ("argument", "#")):
        if gname not in groups:
            raise AnchorError(f"group {gname} missing from full_line_re")
        sub = _find_group(tree, groups[gname])
        for ch in forbidden:
            inst = f"group `{gname}` cannot contain '{ch}'"
            if sub is not None and not _can_match_char(sub, ch):
                ctx.ok("R18b", inst)
            else:
                ctx.fail("R18b", None, gram.node, inst, f"the {gname} part could swallow '{ch}': name/argument/comment are no longer "
                         "separated exactly", function=gram.qualname, file=gram.module.relpath)
    arg_re = fold_str(prog, gram, gram.class_attrs["argument_re"])
    import re as _re1
    from ..regexlang import difference as _diff1
    _arg_plain = _re1.sub(r"\(\?P<\w+>", "(", arg_re)
    if "argument" in _groups(arg_re)[1] and _diff1(_arg_plain, r"(:( [^#]+)?)?", [":", " ", "a", "#"], only="1-2") is None \
            and _diff1(r"(: [^#]+)?", _arg_plain, [":", " ", "a", "#"], only="1-2") is None:
        ctx.ok("R18b", "argument is introduced by the literal ': '")
    else:
        ctx.fail("R18b", None, gram.node, "argument is introduced by the literal ': '", f"argument_re is {arg_re!r}",
                 function=gram.qualname, file=gram.module.relpath)
    thr_re = fold_str(prog, gram, gram.class_attrs["threshold_re"])
    import re as _re0
    from ..regexlang import difference as _diff0
    _thr_group = _find_group(sre_parse.parse(thr_re), _groups(thr_re)[1].get("threshold", -1))
    _thr_txt = _group_text(thr_re, "threshold")
    _m = _re0.match(r"(.*)", _thr_txt) if _thr_txt is not None else None
    # float(threshold) in _parse_line is total iff the group's language is inside the decimal literals float() converts
    _safe = _m is not None and _diff0(_m.group(1), r"[+-]?(\d+(\.\d*)?|\.\d+)([eE][+-]?\d+)?", ["5", ".", "+", "-", "e", " ", "x"], only="1-2") is None
    if _thr_group is not None and _safe:
        ctx.ok("R18b", "threshold is a decimal number followed by whitespace")
    else:
        ctx.fail("R18b", None, gram.node, "threshold is a decimal number followed by whitespace", f"threshold_re is {thr_re!r}",
                 function=gram.qualname, file=gram.module.relpath)
    # ---- R18g
    ctx.rule("R18g", "the line grammar covers the well-formed forms of threshold, separator, name start and empty argument")
    G = dict(function=gram.qualname, file=gram.module.relpath)
    inst = "threshold group contains every unsigned decimal literal float() converts"
    w = _diff0(r"\d+(\.\d*)?|\.\d+", _m.group(1), ["5", ".", " ", "x"], only="1-2") if _m else ("?", True, False)
    if w is None:
        ctx.ok("R18g", inst)
    else:
        ctx.fail("R18g", None, gram.node, inst, f"the threshold `{w[0]}` is a number but not to threshold_re ({thr_re}): the line does not "
                 "match at all (no name, no argument, column 0) or the number becomes part of the instruction name", **G)
    inst = "one or more blanks may separate threshold and instruction name"
    if _diff0(r"(5+ +)?", _re0.sub(r"\(\?P<\w+>", "(", thr_re), ["5", " ", "."], only="1-2") is None:
        ctx.ok("R18g", inst)
    else:
        ctx.fail("R18g", None, gram.node, inst, f"threshold_re ({thr_re}) allows exactly one blank after the number and the name must start "
                 "on a word character: `1.0  Mark: A` loses its threshold, the name becomes `1.0  Mark`", **G)
    inst = "the instruction name may start with any letter"
    name_sub = _find_group(tree, groups["instruction_name"])
    first = [it for it in name_sub if it[0] is not sre_c.AT][:1]
    if first and all(_can_match_char(first, ch) for ch in "aZ_\u00d8\u00b5\u00e9"):
        ctx.ok("R18g", inst)
    else:
        ctx.fail("R18g", None, gram.node, inst, "the first character of the name is restricted to ASCII word characters while uod command "
                 "names are unrestricted: `\u00d8kse: 5` does not match (error node, no parts); with a threshold the number is glued to the name", **G)
    inst = "a bare ':' directly followed by a comment is consumed (the comment is kept)"
    strip_names0 = lambda pat: _re0.sub(r"\(\?P<\w+>", "(", pat)
    tail = strip_names0(fold_str(prog, gram, gram.class_attrs["argument_re"]) + fold_str(prog, gram, gram.class_attrs["comment_re"]))
    w = _diff0(r"(:( [^#]+)?)? *# *[^#]*", tail.replace("$", ""), [":", " ", "#", "c"], only="1-2")
    if w is None:
        ctx.ok("R18g", inst)
    else:
        ctx.fail("R18g", None, gram.node, inst, f"after the name the grammar cannot consume `{w[0]}`: argument_re needs a character after "
                 "': ' and the comment cannot start at the colon; the match simply ends there (it is not anchored at the end) and the "
                 "comment of `Mark: # c` is lost", **G)
    # ---- R18c
    # the pattern actually applied to the right-hand side of a condition
    unit_re = fold_str(prog, gram, gram.class_attrs["condition_rhs_re"])
    ut, ug = _groups(unit_re)
    if "unit" not in ug:
        raise AnchorError("condition_rhs_re has no group `unit`")
    lits, rngs = _class_chars(_find_group(ut, ug["unit"]))
    um = prog.module("openpectus.lang.exec.units")
    units = []
    for st in um.tree.body:
        if isinstance(st, ast.Expr) and isinstance(st.value, ast.Call) and norm(st.value.func) == "QUANTITY_UNIT_MAP.update" \
                and st.value.args and isinstance(st.value.args[0], ast.Dict):
            for v in st.value.args[0].values:
                if isinstance(v, ast.List):
                    units += [e.value for e in v.elts if isinstance(e, ast.Constant)]
    if len(units) < 30:
        raise AnchorError("QUANTITY_UNIT_MAP literal not found")
    missing = {}
    for u in units:
        for ch in u:
            if not (ch in lits or any(a <= ord(ch) <= b for a, b in rngs)):
                missing.setdefault(ch, []).append(u)
    ctx.extra["unit_re"] = unit_re
    ctx.extra["units_checked"] = len(units)
    if not missing:
        ctx.ok("R18c", f"all {len(units)} supported units are spelled within the unit_re alphabet")
    for ch, us in sorted(missing.items()):
        ctx.fail("R18c", None, gram.node, f"Grammar.condition_rhs_re unit class lacks '{ch}' (units {sorted(set(us))})",
                 f"supported units {sorted(set(us))} contain '{ch}', which the unit character class of the condition grammar "
                 f"({unit_re}) does not accept: in `tag operator value unit` the unit is not recovered (the whole right-hand side "
                 f"becomes the value)", function=gram.qualname, file=gram.module.relpath)
    # ---- R18d
    for nm in ("condition_rhs_re", "condition_rhs_no_unit_re"):
        v = fold_str(prog, gram, gram.class_attrs[nm])
        inst = f"Grammar.{nm} is anchored"
        if v.startswith("^") and v.endswith("$"):
            ctx.ok("R18d", inst)
        else:
            ctx.fail("R18d", None, gram.node, inst, f"{v!r} is not anchored: trailing text would be dropped silently",
                     function=gram.qualname, file=gram.module.relpath)

    # ---- R18e: the number syntax of the right-hand side
    ctx.rule("R18e", "every decimal literal float() converts is recognised as the value")
    import re as _re
    from ..regexlang import difference, accepts_some
    fl = fold_str(prog, gram, gram.class_attrs["float_re"])
    strip_names = lambda pat: _re.sub(r"\(\?P<\w+>", "(", pat)
    REF = r"[+-]?(\d+(\.\d*)?|\.\d+)([eE][+-]?\d+)?"      # decimal literals accepted by float() (no inf/nan/underscores)
    alpha = ["5", ".", "+", "-", "e", "E", " ", "m", "2", "%", "x"]
    w = difference(REF, strip_names(fl), alpha, only="1-2")
    inst = "Grammar.float_re accepts every decimal literal that float() converts (sign, fraction, exponent)"
    if w is None:
        ctx.ok("R18e", inst, {"rule": "R18e", "float_re": fl})
    else:
        ctx.fail("R18e", None, gram.node, inst, f"the value {w[0]!r} is a number to float() but not to the right-hand-side patterns: "
                 f"'tag operator {w[0]} unit' is not split into value and unit (no numeric value, no unit, no error)",
                 function=gram.qualname, file=gram.module.relpath)
    # ---- R18f: the two right-hand-side alternatives do not overlap (the with-unit pattern is tried first)
    ctx.rule("R18f", "a value without a unit cannot also be read as a shorter value with a unit")
    with_unit = strip_names(fold_str(prog, gram, gram.class_attrs["condition_rhs_re"]))
    no_unit = strip_names(fold_str(prog, gram, gram.class_attrs["condition_rhs_no_unit_re"]))
    body = lambda pat: pat[1:-1] if pat.startswith("^") and pat.endswith("$") else pat
    amb = accepts_some(body(no_unit), alpha, lambda word: _re.fullmatch(body(with_unit), word) is not None)
    # is the with-unit pattern applied only after the unit-less one has failed?
    from ..util import cfg_of
    from ..cfg import facts_at
    gp = cfg_of(ptov)

    def uses(n_, attr):
        return n_.ast is not None and any(isinstance(x, ast.Attribute) and x.attr == attr for x in n_.walk())
    wn = [n_ for n_ in gp.nodes if n_.kind in ("stmt", "test") and uses(n_, "condition_rhs_pattern")]
    if not wn:
        raise AnchorError("_parse_tag_operator_value: application of Grammar.condition_rhs_pattern not found")
    guarded = all(any("condition_rhs_no_unit_pattern" in a_ and (a_.replace(" ", "").endswith("isNone") == pol_ or
                                                                  (a_.startswith("not ") and pol_))
                      for a_, pol_ in facts_at(gp, n_)) for n_ in wn)
    first_is_with_unit = not guarded
    inst = "Grammar.condition_rhs_re / condition_rhs_no_unit_re: no unit-less value is also a (shorter value, unit) pair"
    if amb is None or not first_is_with_unit:
        ctx.ok("R18f", inst)
    else:
        m_ = _re.fullmatch(fold_str(prog, gram, gram.class_attrs["condition_rhs_re"])[1:-1], amb)
        ctx.fail("R18f", None, gram.node, inst, f"the unit-less value {amb!r} also matches the with-unit pattern, which is tried first, as value "
                 f"{m_.group('float')!r} and unit {m_.group('unit')!r} (the exponent letters and digits belong to the unit alphabet): "
                 f"'Watch: X > {amb}' recovers the wrong value and a unit that was not written",
                 function=gram.qualname, file=gram.module.relpath)
