"""C35 - Error-log aggregation loses nothing and counts repeats: no-drop rule on the merge loop.

R35a in AggregatedErrorLog.aggregate_with every path through the loop body accounts for the entry:
     it is appended, or it is merged (occurrences incremented and the later time taken), or the path
     lies on the branch `latest.created_time == entry.created_time` (declared redelivery of the same
     entry). Any other path drops an entry.
R35b the merge branch is taken only for equal message and severity, and takes the entry's (later)
     time; a fresh entry starts with occurrences == 1 and becomes the new `latest`.
R35c faithful copy: AggregatedErrorLogEntry.from_entry builds the aggregated entry with message, created_time and severity taken
     from the entry unmodified (each keyword is `<entry>.<same field>`): the merge loop orders later entries against the
     stored time, so a rounded or shifted copy makes later repeats look like earlier duplicates and they are dropped.
Decides the loop structure for all entry sequences; does not decide what the engine logs.
"""
from __future__ import annotations

import ast

from ..model import AnchorError, norm, walk_no_nested
from ..util import cfg_of, call_attr, canon_text
from ..cfg import facts_at

EXPLANATION = __doc__


def run(ctx) -> None:
    prog = ctx.prog
    f = prog.func("openpectus.aggregator.models:AggregatedErrorLog.aggregate_with")
    ctx.analysed(f)
    ctx.rule("R35a", "no path through the merge loop drops an entry")
    ctx.rule("R35b", "merge only equal message+severity; fresh entry has count 1")
    # the per-entry loop: a `for <entry> in <parameter>.entries` in aggregate_with or in a helper of the class it calls
    cls_ = f.cls
    cands = []
    for m in cls_.methods.values():
        params = {a.arg for a in m.node.args.args}
        for lp_ in walk_no_nested(m.node):
            if isinstance(lp_, ast.For) and isinstance(lp_.iter, ast.Attribute) and lp_.iter.attr == "entries" \
                    and isinstance(lp_.iter.value, ast.Name) and lp_.iter.value.id in params and lp_.iter.value.id != "self":
                cands.append((m, lp_))
    # every change of an occurrence count in the class must happen inside such a loop, one per incoming entry
    for m in cls_.methods.values():
        for n_ in ast.walk(m.node):
            if isinstance(n_, ast.AugAssign) and isinstance(n_.target, ast.Attribute) and n_.target.attr == "occurrences":
                inside = any(mm is m and any(x is n_ for x in ast.walk(lp_)) for mm, lp_ in cands)
                by_one = isinstance(n_.value, ast.Constant) and n_.value.value == 1 and isinstance(n_.op, ast.Add)
                if not inside or not by_one:
                    ctx.fail("R35b", m, n_, f"{m.short}: {canon_text(n_, m)} counts one incoming entry inside the per-entry loop",
                             "an occurrence count is changed " + ("outside the loop over the incoming entries" if not inside else "") +
                             (" and " if not inside and not by_one else "") + ("by something other than one" if not by_one else "") +
                             ": repeats are no longer accounted entry by entry, so a redelivered (equal-time) or earlier entry inside "
                             "a pre-aggregated group is counted as a new occurrence")
    if len(cands) != 1:
        raise AnchorError(f"AggregatedErrorLog: expected one loop over the incoming entries, found {len(cands)}")
    f, lp_ast = cands[0]
    ctx.analysed(f)
    g = cfg_of(f)
    lp = next(n for n in g.nodes if n.kind == "for" and n.ast is lp_ast)
    entry = norm(lp.ast.target)

    def accounts(n) -> bool:
        if n.kind != "stmt":
            return False
        if any(call_attr(c) == "append" and "entries" in norm(c.func) for c in n.calls()):
            return True
        # appended to a result list as a fresh aggregated entry built from this entry
        for c in n.calls():
            if call_attr(c) == "append" and c.args and isinstance(c.args[0], ast.Name):
                d = [x for x in ast.walk(f.node) if isinstance(x, ast.Assign) and isinstance(x.targets[0], ast.Name)
                     and x.targets[0].id == c.args[0].id and isinstance(x.value, ast.Call) and call_attr(x.value) == "from_entry"
                     and [norm(a) for a in x.value.args] == [entry]]
                if d:
                    return True
        a = n.ast
        if isinstance(a, ast.AugAssign) and isinstance(a.target, ast.Attribute) and a.target.attr == "occurrences" \
                and isinstance(a.op, ast.Add):
            return True
        return False

    def same_time_edge(nid, d, lab) -> bool:
        nn = g.nodes[nid]
        if nn.kind != "test":
            return False
        e = nn.ast
        if isinstance(e, ast.Compare) and len(e.ops) == 1 and "created_time" in norm(e.left) and "created_time" in norm(e.comparators[0]):
            if isinstance(e.ops[0], ast.Eq):
                return lab == "T"
            if isinstance(e.ops[0], ast.NotEq):
                return lab == "F"
        return False
    p = g.search([(lp.id, "loop")], lambda n: n.id == lp.id, blocked=accounts, blocked_edge=same_time_edge, follow_exc=False)
    inst = "aggregate_with: every loop path appends, merges, or is the equal-time redelivery branch"
    if p is None:
        ctx.ok("R35a", inst)
    else:
        ctx.fail("R35a", f, p[-2].ast if len(p) > 1 and p[-2].ast is not None else lp.ast,
                 "aggregate_with: loop path drops the entry via " + (
                     canon_text(p[-2].ast, f)[:100] if len(p) > 1 and p[-2].ast is not None else "?"),
                 "an error-log entry with the same message and severity but an earlier time than the latest entry is neither "
                 "appended nor counted: the entry is lost", p)
    # R35b
    incs = [n for n in g.nodes if n.kind == "stmt" and isinstance(n.ast, ast.AugAssign) and isinstance(n.ast.target, ast.Attribute)
            and n.ast.target.attr == "occurrences"]
    if not incs:
        ctx.fail("R35b", f, f.node, "aggregate_with: occurrences incremented on merge", "repeats are never counted")
    for n in incs:
        facts = facts_at(g, n)
        msg = any("message ==" in a and pol for a, pol in facts)
        sev = any("severity ==" in a and pol for a, pol in facts)
        by_one = isinstance(n.ast.value, ast.Constant) and n.ast.value.value == 1
        inst = f"aggregate_with: {n.text()} only for equal message and severity, by one"
        if msg and sev and by_one:
            ctx.ok("R35b", inst)
        else:
            ctx.fail("R35b", f, n.ast, inst, "merge is not restricted to equal message and severity (or does not count by one)")
        # later time taken on the same path
        tset = [x for x in g.nodes if x.kind == "stmt" and isinstance(x.ast, ast.Assign) and any(
            isinstance(t, ast.Attribute) and t.attr == "created_time" for t in x.ast.targets)
            and norm(x.ast.value) == f"{entry}.created_time"]
        ok = any(g.dominates(x, n) or g.dominates(n, x) for x in tset)
        if ok:
            ctx.ok("R35b", "aggregate_with: merged entry takes the newer time")
        else:
            ctx.fail("R35b", f, n.ast, "aggregate_with: merged entry takes the newer time", "latest time not updated on merge")
    fe = prog.func("openpectus.aggregator.models:AggregatedErrorLogEntry.from_entry")
    ctx.analysed(fe)
    occ = [k for c in walk_no_nested(fe.node) if isinstance(c, ast.Call) for k in c.keywords if k.arg == "occurrences"]
    dflt = prog.cls("openpectus.aggregator.models:AggregatedErrorLogEntry").class_attrs.get("occurrences")
    if (occ and isinstance(occ[0].value, ast.Constant) and occ[0].value.value == 1) or (
            not occ and isinstance(dflt, ast.Constant) and dflt.value == 1):
        ctx.ok("R35b", "fresh aggregated entry starts with occurrences == 1")
    else:
        ctx.fail("R35b", fe, fe.node, "fresh aggregated entry starts with occurrences == 1", "initial count is not 1")
    # the appended entry becomes `latest`
    apps = [n for n in g.nodes if n.kind == "stmt" and any(call_attr(c) == "append" and "entries" in norm(c.func) for c in n.calls())]
    for n in apps:
        arg0 = [c for c in n.calls() if call_attr(c) == "append"][0].args[0]
        # `latest` by role: the local whose occurrences are incremented on a merge
        LAT = next((norm(i.ast.target.value) for i in incs if isinstance(i.ast.target.value, ast.Name)), None)
        lat = [x for x in g.nodes if x.kind == "stmt" and isinstance(x.ast, ast.Assign) and norm(x.ast.targets[0]) == LAT
               and g.dominates(x, n) and lp.id in g.search([x.id], lambda y: False, collect=True)]
        inst = "aggregate_with: appended entry becomes `latest`"
        if LAT is not None and norm(arg0) == LAT and lat:
            ctx.ok("R35b", inst)
        else:
            ctx.fail("R35b", f, n.ast, inst, "the next repeat would be compared with a stale `latest` entry")

    # ---- R35c
    ctx.rule("R35c", "the aggregated entry copies message, time and severity unmodified")
    fe = prog.func("openpectus.aggregator.models:AggregatedErrorLogEntry.from_entry")
    ctx.analysed(fe)
    epar = [a.arg for a in fe.node.args.args if a.arg not in ("self", "cls")][0]
    ctor = [c for c in walk_no_nested(fe.node) if isinstance(c, ast.Call) and isinstance(c.func, ast.Name) and c.func.id == "AggregatedErrorLogEntry"]
    if len(ctor) != 1:
        raise AnchorError("from_entry: construction of AggregatedErrorLogEntry not found")
    kws = {k.arg: k.value for k in ctor[0].keywords if k.arg}
    for fld in ("message", "created_time", "severity"):
        inst = f"from_entry: {fld} copied from the entry unmodified"
        v = kws.get(fld)
        if v is not None and norm(v) == f"{epar}.{fld}":
            ctx.ok("R35c", inst)
        else:
            ctx.fail("R35c", fe, v if v is not None else ctor[0], inst, f"{fld} of the aggregated entry is `{norm(v) if v is not None else 'missing'}`, not the "
                     "entry's own value: the merge loop compares later entries with the stored value, so repeats that are later than the "
                     "entry but not later than the altered copy are treated as redelivered duplicates and dropped")
