"""C04 - Watch runs once after its condition holds; Alarm re-arms: dominance rules in the interpreter.

R04a activation dominance: in visit_WatchNode and visit_AlarmNode the body invocation
     (_visit_children(node)) is dominated by the exit of the `while not node.activated` loop;
     node.activated = True is written only in _try_activate_node, under `node.forced` or a true
     _evaluate_condition(node), and never when node.cancelled; a cancelled Watch returns before its
     body on every path that has not yet activated.
R04b once / re-arm: the Watch body is post-dominated by node.completed = True (the generic visit
     skips completed nodes); the Alarm body is post-dominated by the sequence _unregister_interrupt ->
     reset_runtime_state(recursive=True) -> _register_interrupt.
R04c block end aborts interrupts: every `X.block_ended = True` is followed on all paths by
     _abort_block_interrupts(X), which marks children_complete and unregisters every interrupt whose
     node is a descendant of the block.
R04d nothing inside an ended block may start - in the main flow *and in interrupt handlers*: a Block inside a Watch/Alarm body is
     walked by the handler, so after an End block issued from a nested Watch the handler reaches the block's next child; if that
     is a Watch/Alarm it would be registered and run after the block that contains it has ended (before 6bffed86 there also was
     the route of an aborted Alarm that was resumed once more in the same tick and re-armed itself): in
     PInterpreter._visit_children every `self.visit(child)` is dominated by the false outcome of
     `self._is_in_ended_block(child)` itself (a conjunction with another condition does not establish it), for the
     main flow and for interrupts alike.
R04e request-state model (opstatic/condnode.py): the visitor generator of each node class is explored exhaustively over the
     boolean request/activation attributes of the node, with a user cancel or force possible at every yield - accepted
     exactly when the class' own `cancellable` / `forcible` (most derived override) says so - and a fresh generator possible
     from any reachable state. In no reachable state is the body invoked with the cancel flag set: the property that accepts
     a cancel, the tests the visitor makes after resuming and the activation helper agree.
R04f a completion that belongs to an earlier invocation does not complete the re-armed node: in Tracking.mark_completed the write
     `node.completed = True` is guarded by the invocation identity (the state's instance id is the record's latest invocation) -
     otherwise a command of the previous Alarm run (or macro call) that finishes after the re-arm marks the fresh node
     completed and the instruction is skipped in the next run.
R04g re-arm unregisters the body's interrupts: in visit_AlarmNode the recursive reset is preceded by a loop over the node's
     descendants that unregisters their interrupts - a Watch/Alarm of the body whose handler stays registered continues in the
     middle of the reset body and ignores its own (reset) cancel flag.
R04h a handler unregistered earlier in the tick is not resumed: in tick_iterate_subticks the step of each interrupt of the
     iterated copy is guarded by a test that the interrupt is still the registered one.
Decides these orderings and, for cancel/force, every interleaving of requests with the visitor's yields over the boolean
abstraction; the timing of End block relative to a tick is decided by R04c/R04d only.
R04i a handler belongs to the blocks it was registered in, not only to the blocks around its node in the method text: _register_interrupt
     records the blocks of the execution path on the Interrupt (a walk over `self.sep`), and _abort_block_interrupts tests that record
     against the ended block in addition to the lexical descendants - a Watch/Alarm in the body of a macro that was called inside a
     Block is otherwise never ended with the Block (the Alarm keeps firing for the rest of the run).
R04j a handler never parks for good: the wait on trailing whitespace (`while node.has_only_trailing_whitespace: yield`) is meant for
     the main program at the end of the method; reached by an interrupt handler it keeps a Watch from completing and an Alarm from
     re-arming. Open known finding: passing such a line in a handler contradicts C02's last sentence (R02b), so the repair needs a
     design decision.
R04k an Alarm that re-arms concludes the waiting Watches/Alarms of its body (through _abort_block_interrupts, which records Cancelled
     for a handler that was still waiting): dropped without a final state their run-log items stay open and cancel/force requests
     for them are accepted and act on the reset nodes of the next invocation.
"""
from __future__ import annotations

import ast

from ..model import AnchorError, norm, walk_no_nested
from ..util import cfg_of, call_attr, node_calls, assigned_attrs
from ..cfg import facts_at
from ..condnode import CondModel

EXPLANATION = __doc__
PI = "openpectus.lang.exec.pinterpreter:PInterpreter"


def run(ctx) -> None:
    prog = ctx.prog
    for r, d in [("R04a", "body only after activation; activation only by condition or force; never when cancelled"),
                 ("R04b", "Watch completes once; Alarm re-arms"), ("R04c", "ending a block aborts its interrupts")]:
        ctx.rule(r, d)
    pi = prog.cls(PI)
    for name in ("visit_WatchNode", "visit_AlarmNode"):
        f = pi.methods.get(name)
        if f is None:
            raise AnchorError(f"PInterpreter.{name} missing")
        ctx.analysed(f)
        g = cfg_of(f)
        npar = f.node.args.args[1].arg
        body = [n for n in g.nodes if any(call_attr(c) == "_visit_children" for c in n.calls())]
        # (CFG tests are stored without leading negation: `while not node.activated` is the test `node.activated` whose
        # F edge enters the loop body)
        loops = [n for n in g.nodes if n.kind == "test" and norm(n.ast) == f"{npar}.activated" and any(
            l == "F" and d in g.search([n.id], lambda x: False, collect=True) for d, l in g.succ[n.id])]
        wl = [n for n in loops if n.id in g.search([d for d, l in g.succ[n.id] if l == "F"], lambda x: False, collect=True)]
        if len(body) != 1 or not wl:
            raise AnchorError(f"{name}: body invocation / activation wait loop not recognised")
        b, w = body[0], wl[0]
        # on every path to the body, node.activated holds: either the loop was left through its F edge, or the enclosing
        # `if not node.activated` was false
        p = g.search(None, lambda n: n.id == b.id, blocked_edge=lambda s, d, l: g.nodes[s].kind == "test"
                     and norm(g.nodes[s].ast) == f"{npar}.activated" and l == "T")
        inst = f"{name}: body runs only with node.activated"
        if p is None:
            ctx.ok("R04a", inst)
        else:
            ctx.fail("R04a", f, b.ast, inst, "the body can be reached without the condition having been evaluated true (or forced)", p)
        if name == "visit_WatchNode":
            # cancelled: from the wait loop's body, a cancelled node must return before activation is tried
            tests = [n for n in g.nodes if n.kind == "test" and norm(n.ast) == f"{f.node.args.args[1].arg}.cancelled"]
            ok = False
            for t in tests:
                if g.edge_dominates(w.id, "T", t.id) and g.search([(t.id, "T")], lambda n: n.id == b.id) is None:
                    tries = [n for n in g.nodes if node_calls(n, "_try_activate_node")]
                    if tries and all(g.search([(t.id, "T")], lambda n, x=x: n.id == x.id, blocked=lambda n: n.id == w.id) is None for x in tries):
                        ok = True
            inst = "visit_WatchNode: a cancelled Watch leaves the wait loop without running its body"
            ta_ = pi.methods.get("_try_activate_node")
            if not ok and ta_ is not None:
                # equivalent protection: the only activation site refuses cancelled nodes (checked below as well)
                ga = cfg_of(ta_)
                tt = [n for n in ga.nodes if n.kind == "test" and norm(n.ast) == f"{ta_.node.args.args[1].arg}.cancelled"]
                aa = [n for n in ga.nodes if n.kind == "stmt" and any(t.attr == "activated" for t, v, st in assigned_attrs(n.ast))]
                ok = bool(tt and aa) and ga.search([(tt[0].id, "T")], lambda n: n.id == aa[0].id) is None
            if ok:
                ctx.ok("R04a", inst)
            else:
                ctx.fail("R04a", f, w.ast, inst, "the wait loop does not check node.cancelled before trying to activate: a cancelled "
                         "Watch whose condition becomes true still runs its body")
            comp = [n for n in g.nodes if n.kind == "stmt" and any(t.attr == "completed" and isinstance(v, ast.Constant) and v.value is True
                                                                    for t, v, st in assigned_attrs(n.ast))]
            inst = "visit_WatchNode: body post-dominated by node.completed = True"
            if comp and g.path_to_exit_avoiding([b.id], lambda n: n in comp or any(n.id == c.id for c in comp)) is None:
                ctx.ok("R04b", inst)
            else:
                ctx.fail("R04b", f, b.ast, inst, "a Watch that ran its body is not marked completed: it can run again")
        else:
            seq = ["_unregister_interrupt", "reset_runtime_state", "_register_interrupt"]
            prev = b
            good = True
            for nm in seq:
                nodes = [n for n in g.nodes if node_calls(n, nm) and g.dominates(prev, n)]
                if not nodes or g.path_to_exit_avoiding([prev.id], lambda n, nodes=nodes: any(n.id == x.id for x in nodes)) is not None:
                    good = False
                    break
                prev = nodes[0]
            rec = [c for c in walk_no_nested(f.node) if isinstance(c, ast.Call) and call_attr(c) == "reset_runtime_state"
                   and any(k.arg == "recursive" and isinstance(k.value, ast.Constant) and k.value.value is True for k in c.keywords)]
            inst = "visit_AlarmNode: body followed by unregister -> reset_runtime_state(recursive=True) -> register"
            if good and rec:
                ctx.ok("R04b", inst)
            else:
                ctx.fail("R04b", f, b.ast, inst, "a completed Alarm is not re-armed (or re-armed without resetting its body)")
    ta = pi.methods.get("_try_activate_node")
    ctx.analysed(ta)
    g = cfg_of(ta)
    acts = [n for n in g.nodes if n.kind == "stmt" and any(t.attr == "activated" and isinstance(v, ast.Constant) and v.value is True
                                                            for t, v, st in assigned_attrs(n.ast))]
    if len(acts) != 1:
        raise AnchorError("_try_activate_node: single `node.activated = True` not found")
    tpar = ta.node.args.args[1].arg
    # the local that decides the activation: a Name tested true on every path to the activation (by role, not by name)
    cond_locals = [e.id for e, pol in g.conditions_at(acts[0]) if pol and isinstance(e, ast.Name)]
    inst = "_try_activate_node: activation under condition_result"
    if cond_locals:
        ctx.ok("R04a", inst)
    else:
        ctx.fail("R04a", ta, acts[0].ast, inst, "node activated unconditionally")
    CR = cond_locals[0] if cond_locals else "condition_result"
    # condition_result True only from forced or _evaluate_condition; cancelled returns first
    tests = [n for n in g.nodes if n.kind == "test" and norm(n.ast) == f"{tpar}.cancelled"]
    inst = "_try_activate_node: a cancelled node is never activated"
    if tests and g.search([(tests[0].id, "T")], lambda n: n.id == acts[0].id) is None:
        ctx.ok("R04a", inst)
    else:
        ctx.fail("R04a", ta, ta.node, inst, "a cancelled node can still be activated")
    sets = [n for n in g.nodes if n.kind == "stmt" and isinstance(n.ast, ast.Assign) and norm(n.ast.targets[0]) == CR]
    srcs = sorted({norm(n.ast.value) for n in sets})
    inst = "_try_activate_node: condition_result comes from False / forced / _evaluate_condition"
    if set(srcs) <= {"False", "True", f"self._evaluate_condition({tpar})"}:
        true_sets = [n for n in sets if norm(n.ast.value) == "True"]
        if all((f"{tpar}.forced", True) in facts_at(g, n) for n in true_sets):
            ctx.ok("R04a", inst)
        else:
            ctx.fail("R04a", ta, ta.node, inst, "condition_result forced to True outside the `node.forced` branch")
    else:
        ctx.fail("R04a", ta, ta.node, inst, f"unexpected sources {srcs}")
    for fn in prog.iter_functions():
        for t, v, st in assigned_attrs(fn.node):
            if t.attr == "activated" and isinstance(v, ast.Constant) and v.value is True and fn is not ta and not fn.module.is_test:
                ctx.fail("R04a", fn, st, f"{fn.short}: {norm(st)}", "node.activated set outside _try_activate_node")
    # ---- R04c
    n_sites = 0
    for name in ("visit_EndBlockNode", "visit_EndBlocksNode"):
        f = pi.methods.get(name)
        ctx.analysed(f)
        g = cfg_of(f)
        for n in g.nodes:
            if n.kind != "stmt":
                continue
            for t, v, st in assigned_attrs(n.ast):
                if t.attr == "block_ended" and isinstance(v, ast.Constant) and v.value is True:
                    n_sites += 1
                    blk = norm(t.value)
                    def aborts(x, blk=blk) -> bool:
                        return any(call_attr(c) == "_abort_block_interrupts" and c.args and norm(c.args[0]) == blk for c in x.calls())
                    # all paths from here to exit / next loop iteration pass the abort
                    p = g.search([(n.id, "")], lambda x: x.id == g.exit.id or x.kind == "for", blocked=aborts, follow_exc=False)
                    inst = f"{name}: {blk}.block_ended = True followed by _abort_block_interrupts({blk})"
                    if p is None:
                        ctx.ok("R04c", inst)
                    else:
                        ctx.fail("R04c", f, n.ast, inst, "a block is ended without aborting the Watches/Alarms inside it: they can still fire "
                                 "after the block has ended", p)
    if n_sites < 2:
        raise AnchorError("fewer than 2 block_ended = True sites found")
    ab = pi.methods.get("_abort_block_interrupts")
    ctx.analysed(ab)
    txt = norm(ab.node)
    if "get_child_nodes(recursive=True)" in txt and "children_complete = True" in txt and "_unregister_interrupt(" in txt:
        ctx.ok("R04c", "_abort_block_interrupts: descendants' interrupts marked children_complete and unregistered")
    else:
        ctx.fail("R04c", ab, ab.node, "_abort_block_interrupts: descendants' interrupts marked children_complete and unregistered",
                 "interrupts of the ended block are not fully aborted")

    # ---- R04d
    ctx.rule("R04d", "no child of an ended block is visited (main flow and interrupts)")
    vc = pi.methods.get("_visit_children")
    from ..util import local_single_defs as _lsd4d
    ctx.analysed(vc)
    gv = cfg_of(vc)
    visits = [n for n in gv.nodes if any(call_attr(c) == "visit" and norm(c.func) == "self.visit" for c in n.calls())]
    if not visits:
        raise AnchorError("_visit_children: self.visit(child) not found")
    for n in visits:
        call = next(c for c in n.calls() if call_attr(c) == "visit")
        child = norm(call.args[0]) if call.args else "?"
        inst = f"_visit_children: self.visit({child}) only when the child is not in an ended block"
        facts = facts_at(gv, n, _lsd4d(vc))
        if (f"self._is_in_ended_block({child})", False) in facts:
            ctx.ok("R04d", inst)
        else:
            ctx.fail("R04d", vc, n.ast, inst, "a child can be visited although it lies in a block that has ended (the ended-block test is "
                     "missing or weakened by a further condition): a Block in a Watch/Alarm body is walked by the interrupt handler - after "
                     "`End block` from a nested Watch the handler reaches the block's next Watch/Alarm, registers it and its body runs "
                     "after the block has ended")

    # ---- R04e
    ctx.rule("R04e", "no reachable request history invokes the body of a cancelled Watch/Alarm")
    for kname, vname in (("WatchNode", "visit_WatchNode"), ("AlarmNode", "visit_AlarmNode")):
        kls = prog.cls("openpectus.lang.model.ast:" + kname)
        f = pi.methods[vname]
        m = CondModel(prog, ctx.res, kls, f)
        for q in m.b._funcs:
            ctx.analysed(q)
        inst = f"{vname}: body never invoked with the cancel flag set ({len(m.reach)} reachable points, {m.events} request interleavings)"
        bad = [bk for bk in m.body_states if m.cancelled(bk[2])]
        if len(m.reach) < 10 or not m.body_states:
            raise AnchorError(f"{vname}: request-state exploration is degenerate ({len(m.reach)} points, {len(m.body_states)} body states)")
        if not bad:
            ctx.ok("R04e", inst, {"rule": "R04e", "state": sorted(m.b.vars), "inlined": sorted(m.it.inlined),
                                  "cancel_flag": sorted(m.cancel_attrs), "body_states": len(m.body_states)})
        else:
            bn = m.g.nodes[bad[0][1]]
            ctx.fail("R04e", f, bn.ast, f"{vname}: body never invoked with the cancel flag set",
                     f"the body of a cancelled {kname[:-4]} runs: a cancel request is accepted at a point after which the visitor no "
                     f"longer tests the flag | history: {m.history(bad[0])}")

    # ---- R04f
    ctx.rule("R04f", "completion of an earlier invocation leaves the re-armed node alone")
    mc = prog.func("openpectus.lang.exec.tracking:Tracking.mark_completed")
    ctx.analysed(mc)
    gm = cfg_of(mc)
    wr = [n for n in gm.nodes if n.kind == "stmt" and any(t.attr == "completed" and isinstance(v, ast.Constant) and v.value is True
                                                           for t, v, st in assigned_attrs(n.ast))]
    if not wr:
        raise AnchorError("Tracking.mark_completed: node.completed = True not found")
    from ..util import local_single_defs as _lsd4
    inst = "Tracking.mark_completed: node.completed = True only for the record's latest invocation"
    guarded = all(any(pol and "last_instance_id" in norm(_lsd4(mc).get(a, ast.Name(id=a))) + a for a, pol in facts_at(gm, w)) for w in wr)
    if guarded:
        ctx.ok("R04f", inst)
    else:
        ctx.fail("R04f", mc, wr[0].ast, inst, "the node is marked completed whichever invocation the completion belongs to: a uod command of the "
                 "previous Alarm run (or macro call) that finishes after the body was reset marks the fresh node completed, and the "
                 "next run skips that instruction")
    # ---- R04g
    ctx.rule("R04g", "an Alarm that re-arms unregisters the interrupts of the body it resets")
    va = pi.methods["visit_AlarmNode"]
    ga = cfg_of(va)
    apar = va.node.args.args[1].arg
    resets = [n for n in ga.nodes if n.ast is not None and any(call_attr(c) == "reset_runtime_state" and norm(c.func.value) == apar for c in n.calls())]
    if not resets:
        raise AnchorError("visit_AlarmNode: reset_runtime_state on the node not found")
    unreg_loops = [n for n in ga.nodes if n.kind == "for" and "get_child_nodes" in norm(n.ast.iter) and apar in norm(n.ast.iter)
                   and any(isinstance(c, ast.Call) and call_attr(c) == "_unregister_interrupt" and c.args
                           and norm(c.args[0]) == norm(n.ast.target) for c in ast.walk(n.ast))]
    ab = pi.methods.get("_abort_block_interrupts")
    if ab is not None and any(isinstance(c, ast.Call) and call_attr(c) == "_unregister_interrupt" for c in ast.walk(ab.node)) \
            and any(isinstance(x, ast.Call) and call_attr(x) == "get_child_nodes" for x in ast.walk(ab.node)):
        # the shared helper removes (and concludes) the handlers of everything below the node it is given
        unreg_loops += [n for n in ga.nodes if any(call_attr(c) == "_abort_block_interrupts" and c.args and norm(c.args[0]) == apar for c in n.calls())]
    inst = "visit_AlarmNode: descendants' interrupts are unregistered before the recursive reset"
    if unreg_loops and all(any(ga.dominates(l, r) for l in unreg_loops) for r in resets):
        ctx.ok("R04g", inst)
    else:
        ctx.fail("R04g", va, resets[0].ast, inst, "the reset clears the state (activated, cancelled, child index) of the Watches and Alarms in the "
                 "body while their handlers stay registered: a stale handler continues in the middle of the reset body, a cancelled "
                 "inner Alarm runs anyway, and an inner handler can capture the outer Alarm")
    # ---- R04i
    ctx.rule("R04i", "interrupts are ended with the blocks they were registered in")
    reg = pi.methods["_register_interrupt"]
    ab_ = pi.methods["_abort_block_interrupts"]
    ctx.analysed(reg)
    ctx.analysed(ab_)
    rec_attrs = set()
    for x in ast.walk(reg.node):
        # <interrupt>.<attr>.add(...) / = ... inside a loop over self.sep...
        if isinstance(x, ast.For) and "sep" in norm(x.iter):
            for c in ast.walk(x):
                if isinstance(c, ast.Call) and call_attr(c) in ("add", "append") and isinstance(c.func.value, ast.Attribute):
                    rec_attrs.add(c.func.value.attr)
    inst = "_register_interrupt records the blocks of the execution path and _abort_block_interrupts consults them"
    used = [a for a in rec_attrs if any(isinstance(y, ast.Attribute) and y.attr == a for y in ast.walk(ab_.node))]
    blockish = any(isinstance(y, ast.Call) and isinstance(y.func, ast.Name) and y.func.id == "isinstance" and "BlockNode" in norm(y)
                   for y in ast.walk(reg.node))
    if used and blockish:
        ctx.ok("R04i", inst, {"rule": "R04i", "attribute": used[0]})
    else:
        ctx.fail("R04i", ab_, ab_.node, inst, "a block's end aborts the handlers of its lexical descendants only: a Watch or Alarm registered by "
                 "`Call macro` inside the block (its node sits in the macro definition) survives the block - the Watch body runs after "
                 "the block has ended, the Alarm fires for the rest of the run")
    # ---- R04j
    ctx.rule("R04j", "an interrupt handler does not park on trailing whitespace")
    for vn in ("visit_BlankNode", "visit_CommentNode"):
        v_ = pi.methods[vn]
        ctx.analysed(v_)
        for w in ast.walk(v_.node):
            if isinstance(w, ast.While) and "has_only_trailing_whitespace" in norm(w.test):
                inst = f"{vn}: the wait on trailing whitespace is not taken by an interrupt handler"
                if "_in_interrupt" in norm(w.test):
                    ctx.ok("R04j", inst)
                else:
                    ctx.fail("R04j", v_, w, inst, "`Alarm: X > 1 / Mark: A` as the last lines of a method followed by a blank or comment line: the "
                             "handler parks on that line for ever, the Alarm never re-arms (its body runs once); a Watch there never "
                             "completes, a macro called from a handler never returns")
    # ---- R04k
    ctx.rule("R04k", "an Alarm that re-arms concludes the waiting watches and alarms of its body")
    marks_cancel = any(isinstance(c, ast.Call) and call_attr(c) == "mark_cancelled" for c in ast.walk(ab_.node))
    via_helper = [n for n in ga.nodes if any(call_attr(c) == "_abort_block_interrupts" and c.args and norm(c.args[0]) == apar for c in n.calls())]
    inline = [n for n in ga.nodes if any(call_attr(c) == "mark_cancelled" for c in n.calls())]
    inst = "visit_AlarmNode: the children dropped at re-arm get a final state"
    if (via_helper and marks_cancel and all(any(ga.dominates(h_, r) for h_ in via_helper) for r in resets)) or \
            (inline and all(any(ga.dominates(h_, r) for h_ in inline) for r in resets)):
        ctx.ok("R04k", inst)
    else:
        ctx.fail("R04k", va, resets[0].ast, inst, "the handlers of the body's watches and alarms are dropped without a final state: the item of a "
                 "Watch that was still waiting stays started, cancellable and forcible with no handler - a force is accepted and never "
                 "proceeds, a cancel sets the flag on the reset node and silently cancels the next invocation's Watch")

    # ---- R04h
    ctx.rule("R04h", "an interrupt unregistered earlier in the tick is not resumed")
    ts = pi.methods["tick_iterate_subticks"]
    ctx.analysed(ts)
    gt = cfg_of(ts)
    steps = [n for n in gt.nodes if n.ast is not None and any(isinstance(c.func, ast.Name) and c.func.id == "next" and c.args
                                                              and norm(c.args[0]).endswith(".actions") for c in n.calls())]
    if not steps:
        raise AnchorError("tick_iterate_subticks: next(<interrupt>.actions) not found")
    inst = "tick_iterate_subticks: each interrupt step is guarded by `still registered`"
    ok_ = all(any("_interrupts_map" in a for a, pol in facts_at(gt, s_)) for s_ in steps)
    if ok_:
        ctx.ok("R04h", inst)
    else:
        ctx.fail("R04h", ts, steps[0].ast, inst, "the loop walks a copy of the interrupt list taken before the tick: a Watch/Alarm that was aborted "
                 "earlier in this tick (its block ended) is still resumed once, past its ended-block checks - its body runs after the "
                 "block has ended, and an Alarm re-registers itself")
