"""C17 - Parsing maps every line to one node with indentation structure: exactly-one + totality rules.

R17a exactly-one: in PcodeParser.parse_method the first loop appends exactly one node per element of
     method.lines (one `_parse_line` + one `nodes.append` per iteration, line_no incremented once); in
     the second loop every acyclic path through the loop body calls <parent>.append_child(node)
     exactly once; every return of _parse_line and _create_node yields a node constructed in that
     function that went through `.with_id(self.id_generator)` (directly or via _create_node).
R17b totality audit: partial operations in parser.py outside a `try` - str.index, float()/int() of
     non-literals, list subscripts by computed index, sequence unpacking - must each be a justified
     site (line.index('#') dominated by startswith('#'); float(threshold) safe because the language
     of group `threshold` is \\d+(\\.\\d+)?; lines[node.position.line] indexed by the enumerate index
     of the same list); a new unguarded partial operation is a violation.
R17c indentation constants: one level is 4 characters (`% 4`, `+ 4`, `/ 4` use the same constant)
     and a node whose indentation is not a multiple of it is flagged (indent_error), never re-nested
     silently: every branch of the second loop that changes `parent_node` appends the node first or
     marks node.indent_error.
R17d reference discipline: on no feasible path through the nesting loop (boolean locals and the node's indent_error flag are
     tracked along each path) is the indentation reference - the local the next line's indentation is compared with - updated
     after the current line has been flagged (flag true on entry, or set on the path): otherwise a second line with the same
     invalid indentation compares equal and is attached without an error.
R17e an opener without a body is left before the next line is placed: while an indentation increase is still owed (the
     pending flag set together with `parent = node`), a non-whitespace line that is not deeper than that opener first moves
     the parent back to the opener's parent - a statement `parent = parent.parent` at the top of the loop body, guarded by
     the pending flag and by `node column <= parent column`. Without it the line is attached to the opener it is not inside.
R17f only an instruction line settles the owed increase: every `pending = False` in the nesting loop is on paths where the
     line is known not to be a whitespace line (or the flag is already False) - a blank or comment line between an opener and
     its body must not turn the correctly indented body into an indentation error.
R17g a line keeps its column whatever its text: every Position built in _parse_line takes its character from the line, never
     a constant - a line the grammar cannot match is still placed by its own indentation.
R17h one level is four *spaces*: wherever _parse_line derives the column from leading whitespace, whitespace other than
     U+0020 is flagged (or the indent group of the grammar matches spaces only).
Decides these shapes for all method texts; the nesting law of the if/elif chain is value-level.
"""
from __future__ import annotations

import ast

from ..model import AnchorError, norm, walk_no_nested, parent_map
from ..util import cfg_of, call_attr, node_calls
from ..cfg import facts_at

EXPLANATION = __doc__
PARSER = "openpectus.lang.model.parser"
JUSTIFIED = {
    ("PcodeParser._parse_line", "<arg0>.index('#')"): "dominated by line_stripped.startswith('#'), so '#' occurs in line",
    ("PcodeParser._parse_line", "float(Grammar.instruction_line_pattern.match(<arg0>).groupdict().get('threshold'))"): "threshold comes from group `threshold` = \\d+(\\.\\d+)? (checked against the regex AST), a float literal",
    ("MethodLineIdGenerator.create_id", "self.method.lines[<arg0>.position.line]"): "position.line is the enumerate index of method.lines assigned in parse_method/_parse_line",
    ("PcodeParser._parse_tag_operator_value", "float(<arg0>.tag_operator_value.tag_value or '')"): "tag_value is group `float` of condition_rhs patterns (float syntax)",
}


def _canon(expr, f, depth: int = 3) -> str:
    import copy
    from ..util import canon_text
    # keys do not depend on how parameters are spelled: the i-th parameter (after self) is written <argi>
    params = [a.arg for a in f.node.args.posonlyargs + f.node.args.args if a.arg not in ("self", "cls")]
    e = copy.deepcopy(expr)
    txt = canon_text(e, f, depth)
    if params:
        import re
        for i, par in enumerate(params):
            txt = re.sub(rf"(?<![\w.]){re.escape(par)}\b", f"<arg{i}>", txt)
    return txt


def _acyclic_paths(g, start_edges, end_id, limit=4000):
    """All paths (as node id tuples) from the start edges to end_id that do not revisit a node."""
    out = []
    stack = []
    for sid, lab in start_edges:
        for d, l in g.succ[sid]:
            if l == lab:
                stack.append((d, (d,)))
    while stack:
        nid, path = stack.pop()
        if len(out) > limit:
            raise AnchorError("too many paths through the loop body")
        if nid == end_id:
            out.append(path)
            continue
        for d, l in g.succ[nid]:
            if l == "exc":
                continue
            if d in path and d != end_id:
                # inner loop: allow one traversal of inner loop heads
                continue
            stack.append((d, path + (d,)))
    return out


def run(ctx) -> None:
    prog = ctx.prog
    for r, d in [("R17a", "exactly one node per line; every path appends exactly once; ids assigned"),
                 ("R17b", "no unguarded partial operation in the parser"), ("R17c", "indentation unit and error flagging")]:
        ctx.rule(r, d)
    pm_ = prog.func(f"{PARSER}:PcodeParser.parse_method")
    ctx.analysed(pm_)
    g = cfg_of(pm_)
    loops = [n for n in g.nodes if n.kind == "for"]
    if len(loops) < 2:
        raise AnchorError("parse_method: expected two loops")
    mpar = pm_.node.args.args[1].arg
    first = [l for l in loops if norm(l.ast.iter) == f"{mpar}.lines"]
    # the node list: the local the first loop appends the parsed node to (by role)
    nodes_var = None
    if first:
        for c in walk_no_nested(first[0].ast):
            if isinstance(c, ast.Call) and call_attr(c) == "append" and isinstance(c.func.value, ast.Name):
                nodes_var = c.func.value.id
    second = [l for l in loops if nodes_var and f"enumerate({nodes_var})" in norm(l.ast.iter)]
    if not first or not second:
        raise AnchorError("parse_method: loops over <method>.lines / enumerate(<node list>) not found")
    node_var = norm(second[0].ast.target.elts[1]) if isinstance(second[0].ast.target, ast.Tuple) and len(second[0].ast.target.elts) == 2 else "node"
    # first loop
    paths = _acyclic_paths(g, [(first[0].id, "loop")], first[0].id)
    ok = bool(paths)
    for p in paths:
        n_parse = sum(1 for nid in p if node_calls(g.nodes[nid], "_parse_line"))
        n_app = sum(1 for nid in p if any(call_attr(c) == "append" and norm(c.func.value) == nodes_var for c in g.nodes[nid].calls()))
        if n_parse != 1 or n_app != 1:
            ok = False
    if ok:
        ctx.ok("R17a", "parse_method: first loop yields exactly one node per source line")
    else:
        ctx.fail("R17a", pm_, first[0].ast, "parse_method: first loop yields exactly one node per source line",
                 "a path through the loop body parses/appends zero or several nodes for one line")
    # second loop
    lp = second[0]
    paths = _acyclic_paths(g, [(lp.id, "loop")], lp.id)
    ctx.extra["second_loop_paths"] = len(paths)
    bad = None
    for p in paths:
        cnt = 0
        for nid in p:
            for c in g.nodes[nid].calls():
                if call_attr(c) == "append_child" and c.args and norm(c.args[0]) == node_var:
                    cnt += 1
        if cnt != 1 and bad is None:
            bad = (cnt, p)
    inst = f"parse_method: every path through the nesting loop appends the node exactly once ({len(paths)} paths)"
    if bad is None and paths:
        ctx.ok("R17a", inst)
    else:
        cnt, p = bad
        ctx.fail("R17a", pm_, lp.ast, "parse_method: every path through the nesting loop appends the node exactly once",
                 f"a path appends the node {cnt} times: " + " -> ".join(g.nodes[n].text()[:40] for n in p if g.nodes[n].kind == "test"),
                 [g.nodes[n] for n in p])
    # ---- R17d: a line flagged with an indentation error never becomes the reference the next line is compared with
    ctx.rule("R17d", "a mis-indented line does not become the indentation reference")
    # the reference local: compared with <node>.position.character in the loop's tests
    refs = set()
    for n_ in g.nodes:
        if n_.kind == "test":
            for c_ in ast.walk(n_.ast):
                if isinstance(c_, ast.Compare):
                    sides = [c_.left] + list(c_.comparators)
                    if any(norm(x) == f"{node_var}.position.character" for x in sides):
                        for x in sides:
                            # the reference is compared as a plain local (possibly +/- a constant), not through an attribute
                            if isinstance(x, ast.BinOp) and isinstance(x.right, ast.Constant):
                                x = x.left
                            if isinstance(x, ast.Name) and x.id != node_var:
                                refs.add(x.id)
    ref_writes = {n_.id: t.id for n_ in g.nodes if n_.kind == "stmt" and isinstance(n_.ast, ast.Assign)
                  for t in n_.ast.targets if isinstance(t, ast.Name) and t.id in refs}
    if not ref_writes:
        raise AnchorError("parse_method: the indentation reference (local compared with <node>.position.character) is never updated")
    FLAG = f"{node_var}.indent_error"

    def edge_label(a, b):
        labs = [l for d, l in g.succ[a] if d == b]
        return labs[0] if labs else ""

    def ev(e, env, alias):
        """(value | None, is the flag itself)"""
        if isinstance(e, ast.UnaryOp) and isinstance(e.op, ast.Not):
            v, fl = ev(e.operand, env, alias)
            return (None if v is None else (not v)), False
        if isinstance(e, ast.Name):
            return env.get(e.id), alias.get(e.id) == "flag"
        if norm(e) == FLAG:
            return env.get(FLAG), True
        if isinstance(e, ast.BoolOp):
            vals = [ev(x, env, alias)[0] for x in e.values]
            if isinstance(e.op, ast.And):
                return (False if any(v is False for v in vals) else (True if all(v is True for v in vals) else None)), False
            return (True if any(v is True for v in vals) else (False if all(v is False for v in vals) else None)), False
        return None, False

    def learn(e, outcome, env, alias):
        """facts established by test e having the given outcome"""
        if isinstance(e, ast.UnaryOp) and isinstance(e.op, ast.Not):
            learn(e.operand, not outcome, env, alias)
        elif isinstance(e, ast.Name):
            env[e.id] = outcome
            if alias.get(e.id) == "flag":
                env[FLAG] = outcome
        elif norm(e) == FLAG:
            env[FLAG] = outcome
        elif isinstance(e, ast.BoolOp):
            if isinstance(e.op, ast.And) and outcome:
                for x in e.values:
                    learn(x, True, env, alias)
            if isinstance(e.op, ast.Or) and not outcome:
                for x in e.values:
                    learn(x, False, env, alias)
    witness = None
    n_flag_paths = 0
    for p in paths:
        env, alias = {}, {}
        feasible, flagged, bad_at = True, False, None
        seq = (lp.id,) + tuple(p)
        for i_, nid in enumerate(seq[1:], start=1):
            nd = g.nodes[nid]
            prev = g.nodes[seq[i_ - 1]]
            if prev.kind == "test":
                lab = edge_label(prev.id, nid)
                if lab in ("T", "F"):
                    v, _ = ev(prev.ast, env, alias)
                    if v is not None and v != (lab == "T"):
                        feasible = False
                        break
                    learn(prev.ast, lab == "T", env, alias)
            if env.get(FLAG):
                flagged = True
            if nd.kind == "stmt" and isinstance(nd.ast, ast.Assign):
                for t in nd.ast.targets:
                    if isinstance(t, ast.Name):
                        if isinstance(nd.ast.value, ast.Constant) and isinstance(nd.ast.value.value, bool):
                            env[t.id] = nd.ast.value.value
                            alias.pop(t.id, None)
                        elif norm(nd.ast.value) == FLAG:
                            alias[t.id] = "flag"
                            if FLAG in env:
                                env[t.id] = env[FLAG]
                            else:
                                env.pop(t.id, None)
                        else:
                            env.pop(t.id, None)
                            alias.pop(t.id, None)
                    elif norm(t) == FLAG and isinstance(nd.ast.value, ast.Constant) and nd.ast.value.value is True:
                        env[FLAG] = True
                        flagged = True
                if nid in ref_writes and flagged and bad_at is None:
                    bad_at = nd
        if feasible and flagged:
            n_flag_paths += 1
        if feasible and bad_at is not None and witness is None:
            witness = (bad_at, p)
    if n_flag_paths == 0:
        raise AnchorError("parse_method: no path through the nesting loop flags an indentation error (rule would pass vacuously)")
    inst = f"parse_method: `{sorted(set(ref_writes.values()))[0]}` is not advanced by a line flagged with an indentation error ({n_flag_paths} flagging paths)"
    if witness is None:
        ctx.ok("R17d", inst)
    else:
        bad_at, p = witness
        ctx.fail("R17d", pm_, bad_at.ast, inst.split(" (")[0], "a line that was just flagged as mis-indented becomes the reference for the next line: a "
                 "following line with the same invalid indentation is compared equal, attached without an error and silently "
                 "re-nested", [g.nodes[n] for n in p])
    # ids
    for fq in (f"{PARSER}:PcodeParser._parse_line", f"{PARSER}:PcodeParser._create_node"):
        f = prog.func(fq)
        ctx.analysed(f)
        for r_ in [n for n in walk_no_nested(f.node) if isinstance(n, ast.Return) and n.value is not None]:
            v = r_.value
            txt = norm(v)
            inst = f"{f.short}: return {txt[:60]} carries an id"
            if ".with_id(self.id_generator)" in txt:
                ctx.ok("R17a", inst)
            elif isinstance(v, ast.Name):
                # local node: assigned from an expression with with_id, or from _create_node(...).with_id
                src = [n for n in walk_no_nested(f.node) if isinstance(n, ast.Assign) and norm(n.targets[0]) == v.id]
                if src and all(".with_id(self.id_generator)" in norm(s.value) for s in src):
                    ctx.ok("R17a", inst)
                else:
                    ctx.fail("R17a", f, r_, inst, "a node can be returned without an id: it is not identified by its line's id")
            elif isinstance(v, ast.Call) and f.name == "_create_node":
                # factory(position=...) - the caller (_parse_line) applies with_id to _create_node's result
                callers_ok = ".with_id(self.id_generator)" in norm(prog.func(f"{PARSER}:PcodeParser._parse_line").node) \
                    and "_create_node(" in norm(prog.func(f"{PARSER}:PcodeParser._parse_line").node)
                if callers_ok:
                    ctx.ok("R17a", inst + " (id applied by _parse_line)")
                else:
                    ctx.fail("R17a", f, r_, inst, "factory result returned without id")
            else:
                ctx.fail("R17a", f, r_, inst, "returned node has no id")
    # ---- R17b
    pmod = prog.module(PARSER)
    n_partial = 0
    for f in list(pmod.functions.values()) + [m for c in pmod.classes.values() for m in c.methods.values()]:
        pmap = parent_map(f.node)
        for n in walk_no_nested(f.node):
            key = None
            if isinstance(n, ast.Call) and isinstance(n.func, ast.Attribute) and n.func.attr == "index":
                key = _canon(n, f)
            elif isinstance(n, ast.Call) and isinstance(n.func, ast.Name) and n.func.id in ("float", "int") and n.args \
                    and not isinstance(n.args[0], (ast.Constant, ast.BinOp)):  # int(<arithmetic>) is total
                key = _canon(n, f)
            elif isinstance(n, ast.Subscript) and isinstance(n.ctx, ast.Load) and not isinstance(n.slice, (ast.Constant, ast.Slice)) \
                    and isinstance(n.value, (ast.Name, ast.Attribute)) and "lines" in norm(n.value):
                key = _canon(n, f)
            if key is None:
                continue
            n_partial += 1
            # inside a try body with a catch-all?
            cur, in_try = n, False
            while id(cur) in pmap:
                par = pmap[id(cur)]
                if isinstance(par, ast.Try) and any(cur is s for s in par.body) and any(
                        h.type is None or norm(h.type).split(".")[-1] in ("Exception", "BaseException", "ValueError") for h in par.handlers):
                    in_try = True
                cur = par
            inst = f"{f.short}: {key}"
            if in_try:
                ctx.ok("R17b", inst + " (inside try)")
            elif (f.short, key) in JUSTIFIED:
                ctx.ok("R17b", inst + " (justified)", {"rule": "R17b", "site": inst, "reason": JUSTIFIED[(f.short, key)]})
            elif f.short.startswith(("ParserMethod.", "IncrementalIdGenerator", "NegativeIdGenerator")) or f.name in ("lsp_parse_line",):
                ctx.ok("R17b", inst + " (not on the parse path)", trivial=True)
            else:
                ctx.fail("R17b", f, n, inst, "partial operation outside a try and not in the justified table: some method text may make "
                         "parsing raise instead of yielding an error node")
    # the two justifications that rest on other code are re-checked
    pl = prog.func(f"{PARSER}:PcodeParser._parse_line")
    gl = cfg_of(pl)
    idx = [n for n in gl.nodes if any(isinstance(c.func, ast.Attribute) and c.func.attr == "index" and [norm(a) for a in c.args] == ["'#'"]
                                      for c in n.calls())]
    if idx:
        from ..util import local_single_defs as _lsd
        ldefs = _lsd(pl)
        lpar = pl.node.args.args[1].arg
        # `<x>.startswith('#')` holds, where <x> is the line parameter or a local derived from it by strip()/lstrip()
        ok_guard = False
        for a, pol in facts_at(gl, idx[0]):
            if pol and a.endswith(".startswith('#')"):
                base = a[:-len(".startswith('#')")]
                d = ldefs.get(base)
                if base == lpar or (d is not None and norm(d) in (f"{lpar}.strip()", f"{lpar}.lstrip()")):
                    ok_guard = True
        if ok_guard:
            ctx.ok("R17b", "_parse_line: line.index('#') dominated by startswith('#')")
        else:
            ctx.fail("R17b", pl, idx[0].ast, "_parse_line: line.index('#') dominated by startswith('#')", "index may raise ValueError")
    # ---- R17c
    txt = norm(pm_.node) + norm(pl.node)
    consts = set()
    for f in (pm_, pl):
        for n in walk_no_nested(f.node):
            if isinstance(n, ast.BinOp) and isinstance(n.op, (ast.Mod, ast.Add, ast.Div, ast.FloorDiv)) and isinstance(n.right, ast.Constant) \
                    and isinstance(n.right.value, int) and ("position.character" in norm(n.left) or "prev_indent" in norm(n.left)):
                consts.add(n.right.value)
    if consts == {4}:
        ctx.ok("R17c", "indentation unit is 4 in every comparison")
    else:
        ctx.fail("R17c", pm_, pm_.node, "indentation unit is 4 in every comparison", f"indentation constants used: {sorted(consts)}")
    mod4 = [n for n in gl.nodes if n.kind == "test" and "% 4 != 0" in norm(n.ast)]
    if mod4 and gl.search([(mod4[0].id, "T")], lambda n: n.id == gl.exit.id, blocked=lambda n: "indent_error = True" in n.text()) is None:
        ctx.ok("R17c", "_parse_line: indentation that is not a multiple of 4 is flagged")
    else:
        ctx.fail("R17c", pl, pl.node, "_parse_line: indentation that is not a multiple of 4 is flagged", "odd indentation is accepted silently")
    if n_partial < 3:
        raise AnchorError(f"only {n_partial} partial operations found in parser.py (floor 3)")
    _nesting_rules(ctx, pm_, g, lp, node_var, pl, gl)


def _nesting_rules(ctx, pm_, g, lp, node_var, pl, gl) -> None:
    from ..util import local_single_defs, expand_local
    ctx.rule("R17e", "an opener without a body is left before the next line is placed")
    ctx.rule("R17f", "only an instruction line settles the owed indentation increase")
    ctx.rule("R17g", "every Position built in _parse_line takes its column from the line")
    ctx.rule("R17h", "whitespace other than spaces is not indentation")
    defs = local_single_defs(pm_)
    body = lp.ast.body
    # roles
    parent_var = None
    for c in ast.walk(lp.ast):
        if isinstance(c, ast.Call) and call_attr(c) == "append_child" and isinstance(c.func.value, ast.Name):
            parent_var = c.func.value.id
    pending = None
    for blk in ast.walk(lp.ast):
        stmts = getattr(blk, "body", None)
        if not isinstance(stmts, list):
            continue
        for a, b in zip(stmts, stmts[1:]):
            if isinstance(a, ast.Assign) and norm(a) == f"{parent_var} = {node_var}" and isinstance(b, ast.Assign) \
                    and isinstance(b.value, ast.Constant) and b.value.value is True and isinstance(b.targets[0], ast.Name):
                pending = b.targets[0].id
    if parent_var is None or pending is None:
        raise AnchorError("parse_method: parent / pending-increment locals of the nesting loop not recognised")

    def is_ws(e) -> bool:
        return "WhitespaceNode" in norm(expand_local(e, defs))

    def atoms(t, pol):
        """(expr, polarity) atoms known when test t has outcome pol: conjunction when True, disjunction when False."""
        if isinstance(t, ast.UnaryOp) and isinstance(t.op, ast.Not):
            return atoms(t.operand, not pol)
        if isinstance(t, ast.BoolOp) and ((isinstance(t.op, ast.And) and pol) or (isinstance(t.op, ast.Or) and not pol)):
            out = []
            for v in t.values:
                out += atoms(v, pol)
            return out
        return [(t, pol)]

    # ---- R17e
    inst = "parse_method: the parent moves back to the opener's parent when the owed increase does not come"
    first_append = min((c.lineno for c in ast.walk(lp.ast) if isinstance(c, ast.Call) and call_attr(c) == "append_child"), default=None)
    found = None
    why = "no such statement"
    for st in body:
        if not isinstance(st, ast.If) or st.lineno > (first_append or 0):
            continue
        pops = [x for x in st.body if isinstance(x, ast.Assign) and norm(x) == f"{parent_var} = {parent_var}.parent"]
        if not pops or st.orelse:
            continue
        at = atoms(st.test, True)
        has_pending = any(isinstance(e, ast.Name) and e.id == pending and pol for e, pol in at)
        cmp_ok = False
        for e, pol in at:
            if isinstance(e, ast.Compare) and len(e.ops) == 1:
                l, r, op = norm(e.left), norm(e.comparators[0]), e.ops[0]
                nc, pc = f"{node_var}.position.character", f"{parent_var}.position.character"
                if (l, r) == (nc, pc) and ((isinstance(op, ast.LtE) and pol) or (isinstance(op, ast.Gt) and not pol)):
                    cmp_ok = True
                if (l, r) == (pc, nc) and ((isinstance(op, ast.GtE) and pol) or (isinstance(op, ast.Lt) and not pol)):
                    cmp_ok = True
        extra = [norm(e) for e, pol in at if not (isinstance(e, ast.Name) and e.id == pending) and not isinstance(e, ast.Compare)
                 and not is_ws(e) and "ProgramNode" not in norm(e)]
        extra += [norm(e) for e, pol in at if isinstance(e, ast.Compare) and f"{node_var}.position.character" not in norm(e)
                  and ".parent" not in norm(e)]
        if has_pending and cmp_ok and not extra:
            found = st
            break
        why = f"`if {norm(st.test)[:110]}` does not cover exactly the case 'increase owed and line not deeper than the opener'" + (
            f" (further conditions: {extra})" if extra else "")
    if found is None:
        # the same repair written inside the branches: every branch taken for an unchanged or decreased column leaves the
        # opener (pop guarded by the pending flag) before it attaches the line
        branches = []
        for x in ast.walk(lp.ast):
            if isinstance(x, ast.If):
                for e, pol in atoms(x.test, True):
                    if isinstance(e, ast.Compare) and len(e.ops) == 1 and isinstance(e.ops[0], (ast.Eq, ast.Lt)) and pol \
                            and norm(e.left) == f"{node_var}.position.character" and isinstance(e.comparators[0], ast.Name):
                        branches.append(x)
        def _pops_first(br) -> bool:
            for st in br.body:
                if any(isinstance(c, ast.Call) and call_attr(c) == "append_child" for c in ast.walk(st)):
                    return False
                if isinstance(st, ast.If) and any(isinstance(e, ast.Name) and e.id == pending and pol for e, pol in atoms(st.test, True)) \
                        and any(isinstance(y, ast.Assign) and norm(y) == f"{parent_var} = {parent_var}.parent" for y in st.body):
                    return True
            return False
        if len(branches) >= 2 and all(_pops_first(b) for b in branches):
            found = branches[0]
    if found is not None:
        ctx.ok("R17e", inst, {"rule": "R17e", "guard": norm(found.test)})
    else:
        ctx.fail("R17e", pm_, lp.ast, inst, f"{why}: a line at the column of an opener that has no body (or to its left, or after a "
                 f"flagged line) is attached to that opener by the unchanged/decreased branches - `Watch: x > 1` / `Mark: a` puts the "
                 "Mark inside the Watch without an indentation error, and it never runs")
    # ---- R17f
    n_reset = 0
    for n in g.nodes:
        if n.kind != "stmt" or not isinstance(n.ast, ast.Assign) or norm(n.ast) != f"{pending} = False":
            continue
        if not (lp.ast.lineno <= n.lineno <= lp.ast.end_lineno):
            continue
        n_reset += 1
        known = []
        for t, pol in g.conditions_at(n):
            known += atoms(t, pol)
        safe = any((is_ws(e) and not pol) or (isinstance(e, ast.Name) and e.id == pending and not pol) for e, pol in known)
        inst = f"parse_method: `{pending} = False` at the {_branch_name(g, n)} branch is not reached by a whitespace line"
        if safe:
            ctx.ok("R17f", inst)
        else:
            ctx.fail("R17f", pm_, n.ast, inst, "a blank or comment line reaches this reset: `Block: A`, an empty line, then the "
                     "correctly indented body - the body line is flagged as an indentation error because the increase is no "
                     "longer expected")
    ctx.floor("R17f", 3)
    # ---- R17g / R17h
    line_par = pl.node.args.args[1].arg
    ldefs = local_single_defs(pl)
    n_pos = 0
    derived = {line_par}
    changed = True
    while changed:
        changed = False
        for st in ast.walk(pl.node):
            if isinstance(st, ast.Assign) and len(st.targets) == 1 and isinstance(st.targets[0], ast.Name) \
                    and st.targets[0].id not in derived and any(isinstance(x, ast.Name) and x.id in derived for x in ast.walk(st.value)):
                derived.add(st.targets[0].id)
                changed = True
    for c in ast.walk(pl.node):
        if isinstance(c, ast.Call) and norm(c.func).endswith("Position"):
            ch = next((k.value for k in c.keywords if k.arg == "character"), c.args[1] if len(c.args) > 1 else None)
            if ch is None:
                continue
            n_pos += 1
            e = expand_local(ch, ldefs)
            dep = any(isinstance(x, ast.Name) and x.id in derived for x in ast.walk(e))
            # ranges are built from match offsets - those are from the line as well
            inst = f"_parse_line: Position(character={norm(ch)[:50]}) at line-role {_owner(pl, c)}"
            if dep and not isinstance(ch, ast.Constant):
                ctx.ok("R17g", inst)
            else:
                ctx.fail("R17g", pl, c, inst, f"the column is `{norm(ch)}` whatever the line's indentation: such a line is attached at "
                         "column 0, closes the enclosing bodies, and the lines after it are flagged although they are indented correctly")
    ctx.floor("R17g", 4)
    # R17h: every `X.indent_error = True` guarded by a `% 4` test is also guarded (same test, disjunction) by a spaces-only test,
    # or the grammar's indent group matches spaces only
    from .. import regexlang as _rl  # noqa: F401
    spaces_only_grammar = False
    gcls = ctx.prog.cls(f"{PARSER}:Grammar")
    for st in gcls.node.body:
        if isinstance(st, ast.Assign) and norm(st.targets[0]) == "indent_re" and isinstance(st.value, ast.Constant):
            spaces_only_grammar = "\\s" not in st.value.value and "\\t" not in st.value.value and "." not in st.value.value
    flags = [n for n in gl.nodes if n.kind == "test" and "% 4" in norm(n.ast)]
    if not flags:
        raise AnchorError("_parse_line: no `% 4` indentation test")
    for n in flags:
        inst = f"_parse_line: `{norm(n.ast)[:60]}` also flags non-space indentation"
        has_sp = any(isinstance(x, ast.Call) and call_attr(x) in ("strip", "lstrip", "replace", "count", "startswith") and x.args
                     and isinstance(x.args[0], ast.Constant) and x.args[0].value == " " for x in ast.walk(n.ast)) \
            and isinstance(n.ast, ast.BoolOp) and isinstance(n.ast.op, ast.Or)
        if has_sp or spaces_only_grammar:
            ctx.ok("R17h", inst)
        else:
            ctx.fail("R17h", pl, n.ast, inst, "the column is the number of leading whitespace characters of any kind: four tabs (or four "
                     "no-break spaces) are taken for one four-space level and the line is nested without an indentation error")


def _branch_name(g, n) -> str:
    conds = g.conditions_at(n)
    for t, pol in conds:
        txt = norm(t)
        if "prev_indent" in txt or "indent_error" in txt or ".position.character" in txt:
            last = txt
    try:
        return f"`{last[:50]}`"
    except UnboundLocalError:
        return "top-level"


def _owner(pl, c) -> str:
    pm = parent_map(pl.node)
    x = c
    while id(x) in pm:
        x = pm[id(x)]
        if isinstance(x, ast.Call) and isinstance(x.func, ast.Attribute) and isinstance(x.func.value, ast.Name) and x.func.value.id == "p":
            return x.func.attr
        if isinstance(x, (ast.Assign,)):
            return norm(x.targets[0])
    return "?"
