"""C27 - Engine messages survive disconnects without loss or duplication: structural clauses.

The interleaving core (delivery under all task schedules, ordering of buffered run data before the
stop notification through asyncio.gather) is a schedule property and out of static reach. Decided:
R27a sequence numbers: `sequence_number` of a message has exactly one writer,
     EngineDispatcher.assign_sequence_number, guarded by `== -1` (assigned once, kept across
     resends) and drawn from a counter that only increases; both send paths - send_async and
     _buffer_message - call it before the message is used.
R27b no message is dropped by state: EngineRunner._post_async is exhaustive over the RecoverState
     literal - every state is posted, buffered, or one of the justified terminal/pre-connection
     states; the failed-send handler buffers the message on every path.
R27c caught-up discipline: in _send_buffered_batch the transition to "Reconnected" is reachable only
     when the buffer was found empty; buffered messages leave the buffer only on the path that posts
     each of them (copy -> clear -> post every element); _buffer_message appends.
R27d the periodic producer keeps buffering while disconnected: buffer_messages puts every non-None
     message it builds into the buffer.
R27e the gathered posts of a batch are awaited to completion: not under asyncio.wait_for / timeout (which cancel what is still
     pending after the messages have left the buffer), unless _post_async puts the message back when it is cancelled.
R27f every close of the connection is a network failure: the runner reconnects (and buffers) only on ProtocolNetworkException. In
     EngineDispatcher.send_async the handler that maps to it names the websockets base class `ConnectionClosed` - or both of its
     subclasses ConnectionClosedOK and ConnectionClosedError (library fact, stated as an assumption) - and lies before the
     catch-all that answers with an ErrorMessage. With ConnectionClosedError alone a normal close by the aggregator (code 1000: its
     shutdown, a refused connection, the error branch of rpc_call) falls into the catch-all: the runner stays Connected, never
     reconnects, and every later message is dropped with nothing buffered.
Does not decide delivery order or duplication under all interleavings.
"""
from __future__ import annotations

import ast

from ..model import AnchorError, norm, walk_no_nested
from ..util import cfg_of, call_attr, node_calls, assigned_attrs
from ..cfg import facts_at

EXPLANATION = __doc__
ER = "openpectus.engine.engine_runner:EngineRunner"
ED = "openpectus.protocol.engine_dispatcher:EngineDispatcher"
JUSTIFIED_STATES = {
    "Stopped": "system is shutting down: _post_async answers 'System is down' (explicit branch)",
    "Started": "before the first connection attempt nothing is produced (steady-state loop not started)",
    "ShutdownComplete": "terminal",
}


def _run_main(ctx) -> None:
    prog = ctx.prog
    for r, d in [("R27a", "single guarded writer of sequence_number; both send paths assign"), ("R27b", "_post_async exhaustive over RecoverState"),
                 ("R27c", "Reconnected only with empty buffer; buffered messages leave only when posted"), ("R27d", "producer buffers while disconnected")]:
        ctx.rule(r, d)
    # ---- R27a
    asn = prog.func(f"{ED}.assign_sequence_number")
    ctx.analysed(asn)
    writers = []
    for f in prog.iter_functions():
        for t, v, st in assigned_attrs(f.node):
            if t.attr == "sequence_number":
                writers.append((f, st))
    for f, st in writers:
        inst = f"{f.short}: {norm(st)}"
        if f is asn:
            g = cfg_of(f)
            n = g.nodes_for(st)[0]
            facts = facts_at(g, n)
            if any(a.endswith("sequence_number == -1") and pol for a, pol in facts):
                ctx.ok("R27a", inst + " guarded by == -1")
            else:
                ctx.fail("R27a", f, st, inst, "a message that already has a sequence number gets a new one on resend: the receiver cannot "
                         "recognise the resend as the same message")
        else:
            ctx.fail("R27a", f, st, inst, "sequence_number written outside assign_sequence_number")
    if not any(f is asn for f, _ in writers):
        raise AnchorError("assign_sequence_number does not write sequence_number")
    ctr = [n for n in walk_no_nested(asn.node) if isinstance(n, ast.AugAssign) and norm(n.target) == "self._sequence_number"]
    if ctr and isinstance(ctr[0].op, ast.Add) and isinstance(ctr[0].value, ast.Constant) and ctr[0].value.value >= 1:
        ctx.ok("R27a", "sequence counter only increases")
    else:
        ctx.fail("R27a", asn, asn.node, "sequence counter only increases", "sequence numbers can repeat")
    other_ctr = [(f, st) for f in prog.iter_functions() for t, v, st in assigned_attrs(f.node)
                 if t.attr == "_sequence_number" and f is not asn and f.name != "__init__"]
    for f, st in other_ctr:
        ctx.fail("R27a", f, st, f"{f.short}: {norm(st)}", "sequence counter modified outside assign_sequence_number")
    for fq, use in ((f"{ED}.send_async", "serialize"), (f"{ER}._buffer_message", "append")):
        f = prog.func(fq)
        ctx.analysed(f)
        g = cfg_of(f)
        a = [n for n in g.nodes if node_calls(n, "assign_sequence_number")]
        u = [n for n in g.nodes if node_calls(n, use)]
        inst = f"{f.short}: assign_sequence_number before {use}"
        if a and u and all(g.dominates(a[0], x) for x in u):
            ctx.ok("R27a", inst)
        else:
            ctx.fail("R27a", f, f.node, inst, "a message can be sent/buffered without a sequence number")
    # ---- R27b
    erm = prog.module("openpectus.engine.engine_runner")
    rs = erm.constants.get("RecoverState")
    if not (isinstance(rs, ast.Subscript) and norm(rs.value) == "Literal"):
        raise AnchorError("RecoverState Literal not found")
    elts = rs.slice.elts if isinstance(rs.slice, ast.Tuple) else [rs.slice]
    states = [e.value for e in elts if isinstance(e, ast.Constant)]
    pa = prog.func(f"{ER}._post_async")
    ctx.analysed(pa)
    lists = {}
    for n in walk_no_nested(pa.node):
        tgt = n.target if isinstance(n, ast.AnnAssign) else (n.targets[0] if isinstance(n, ast.Assign) else None)
        if tgt is not None and isinstance(tgt, ast.Name) and isinstance(n.value, ast.List):
            lists[tgt.id] = [e.value for e in n.value.elts if isinstance(e, ast.Constant)]
    # the two state lists by role: the list the send is guarded by / the list the plain buffering branch is guarded by
    g0 = cfg_of(pa)

    def guard_list(pred):
        for n in g0.nodes:
            if pred(n):
                for a, pol in facts_at(g0, n):
                    if pol and a.startswith("self.state in ") and a[len("self.state in "):] in lists:
                        return a[len("self.state in "):]
        return None
    POST = guard_list(lambda n: node_calls(n, "send_async"))
    BUF = guard_list(lambda n: node_calls(n, "_buffer_message") and not any(
        h.kind == "except" and g0.dominates(h, n) for h in g0.nodes))
    if POST is None or BUF is None:
        raise AnchorError("_post_async: the state lists guarding send_async / _buffer_message were not found")
    lists["states_to_post"], lists["states_to_buffer"] = lists[POST], lists[BUF]
    explicit = [norm(c.comparators[0]).strip("'\"") for c in ast.walk(pa.node) if isinstance(c, ast.Compare) and norm(c.left) == "self.state"
                and isinstance(c.ops[0], ast.Eq)]
    for s in states:
        inst = f"_post_async: state {s} is handled"
        if s in lists["states_to_post"] or s in lists["states_to_buffer"]:
            ctx.ok("R27b", inst + (" (posted)" if s in lists["states_to_post"] else " (buffered)"))
        elif s in JUSTIFIED_STATES and (s in explicit or s != "Stopped"):
            ctx.ok("R27b", inst + " (justified: " + JUSTIFIED_STATES[s] + ")", trivial=True)
        else:
            ctx.fail("R27b", pa, pa.node, inst, f"a message produced in state {s} falls into the 'invalid state' branch and is dropped: it is "
                     "neither sent nor buffered")
    both = set(lists["states_to_post"]) & set(lists["states_to_buffer"])
    if both:
        ctx.fail("R27b", pa, pa.node, "_post_async: post and buffer sets are disjoint", f"{sorted(both)} in both")
    g = cfg_of(pa)
    handlers = [n for n in g.nodes if n.kind == "except" and "ProtocolNetworkException" in n.text()]
    if not handlers:
        ctx.fail("R27b", pa, pa.node, "_post_async: failed send is buffered", "no handler for ProtocolNetworkException around send_async")
    for h in handlers:
        p = g.search([h.id], lambda n: n.id in (g.exit.id, g.raise_exit.id), blocked=lambda n: node_calls(n, "_buffer_message"))
        if p is None:
            ctx.ok("R27b", "_post_async: failed send is buffered on every path")
        else:
            ctx.fail("R27b", pa, h.ast, "_post_async: failed send is buffered on every path", "a message whose send failed is lost", p)
    sends = [n for n in g.nodes if node_calls(n, "send_async")]
    if sends and all((f"self.state in {POST}", True) in facts_at(g, n) for n in sends):
        ctx.ok("R27b", "_post_async: sends only in posting states")
    else:
        ctx.fail("R27b", pa, pa.node, "_post_async: sends only in posting states", "send attempted in a non-connected state")
    # ---- R27c
    sb = prog.func(f"{ER}._send_buffered_batch")
    ctx.analysed(sb)
    g = cfg_of(sb)
    rec = [n for n in g.nodes if any(call_attr(c) == "_set_state" and c.args and norm(c.args[0]).strip("'\"") == "Reconnected" for c in n.calls())]
    if not rec:
        raise AnchorError("_send_buffered_batch: transition to Reconnected not found")
    for n in rec:
        facts = facts_at(g, n)
        inst = "_send_buffered_batch: 'Reconnected' only when the buffer is empty"
        from ..util import local_single_defs as _lsd
        sdefs = _lsd(sb)
        # a local defined as the buffer size (self._get_buffer_size() / len(self._message_buffer)) tested `> 0` false or `== 0` true
        size_locals = {k for k, v in sdefs.items() if "_get_buffer_size" in norm(v) or "len(self._message_buffer)" in norm(v)}
        size_exprs = size_locals | {"self._get_buffer_size()", "len(self._message_buffer)"}
        if any((a in {f"{x} > 0" for x in size_exprs} and not pol) or (a in {f"{x} == 0" for x in size_exprs} and pol)
               for a, pol in facts):
            ctx.ok("R27c", inst)
        else:
            ctx.fail("R27c", sb, n.ast, inst, "the engine can report that it has caught up while messages are still stranded in the buffer")
    others = [(f, c) for f in prog.iter_functions() for c in walk_no_nested(f.node)
              if isinstance(c, ast.Call) and call_attr(c) == "_set_state" and c.args and norm(c.args[0]).strip("'\"") == "Reconnected" and f is not sb]
    for f, c in others:
        ctx.fail("R27c", f, c, f"{f.short}: _set_state('Reconnected')", "caught-up state entered outside _send_buffered_batch (buffer not checked)")
    clear = [n for n in g.nodes if any(call_attr(c) == "clear" and "_message_buffer" in norm(c.func) for c in n.calls())]
    copy = [n for n in g.nodes if n.kind == "stmt" and isinstance(n.ast, ast.Assign) and "_message_buffer.copy()" in norm(n.ast.value)]
    gather = [n for n in g.nodes if any(call_attr(c) == "gather" for c in n.calls())]
    inst = "_send_buffered_batch: buffer copied before it is cleared, every copied message is posted"
    # every element of the copied buffer is posted: a comprehension over the copy whose element is self._post_async(<var>) (or a
    # local wrapper that awaits self._post_async(<its parameter>))
    copy_var = norm(copy[0].ast.targets[0]) if copy else None
    wrappers = {fd.name for fd in ast.walk(sb.node) if isinstance(fd, (ast.FunctionDef, ast.AsyncFunctionDef)) and fd is not sb.node
                and fd.args.args and any(isinstance(c, ast.Call) and norm(c.func) == "self._post_async"
                                         and [norm(x) for x in c.args] == [fd.args.args[0].arg] for c in ast.walk(fd))}
    comps = [c for c in ast.walk(sb.node) if isinstance(c, ast.ListComp) and len(c.generators) == 1 and not c.generators[0].ifs
             and norm(c.generators[0].iter) == copy_var]
    posts_all = bool(comps) and all(
        isinstance(c.elt, ast.Call) and [norm(x) for x in c.elt.args] == [norm(c.generators[0].target)]
        and (norm(c.elt.func) == "self._post_async" or (isinstance(c.elt.func, ast.Name) and c.elt.func.id in wrappers)) for c in comps)
    if clear and copy and gather and g.dominates(copy[0], clear[0]) and g.dominates(clear[0], gather[0]) and posts_all \
            and g.path_to_exit_avoiding([clear[0].id], lambda n: n.id == gather[0].id) is None:
        ctx.ok("R27c", inst)
    else:
        ctx.fail("R27c", sb, sb.node, inst, "messages can be removed from the buffer without being posted")
    for f in prog.iter_functions():
        if f is sb or f.module.is_test:
            continue
        for c in walk_no_nested(f.node):
            if isinstance(c, ast.Call) and call_attr(c) in ("clear", "pop", "remove") and "_message_buffer" in norm(c.func):
                ctx.fail("R27c", f, c, f"{f.short}: {norm(c)}", "buffered messages discarded outside the send path")
    bm = prog.func(f"{ER}._buffer_message")
    if any(call_attr(c) == "append" and "_message_buffer" in norm(c.func) for c in walk_no_nested(bm.node) if isinstance(c, ast.Call)):
        ctx.ok("R27c", "_buffer_message appends to the buffer")
    else:
        ctx.fail("R27c", bm, bm.node, "_buffer_message appends to the buffer", "message not stored")
    # ---- R27e: the posts of a batch run to completion
    ctx.rule("R27e", "posts of buffered messages are not cancelled once the messages have left the buffer")
    from ..model import parent_map
    pm_sb = parent_map(sb.node)
    inst = "_send_buffered_batch: the gathered posts are awaited to completion (or a cancelled post puts its message back)"
    cancel_wrap = None
    for gn in gather:
        for c in gn.calls():
            if call_attr(c) != "gather":
                continue
            cur = c
            while id(cur) in pm_sb and not isinstance(pm_sb[id(cur)], ast.stmt):
                cur = pm_sb[id(cur)]
                if isinstance(cur, ast.Call) and call_attr(cur) in ("wait_for", "wait", "timeout", "timeout_at"):
                    cancel_wrap = cur
            st = pm_sb.get(id(cur))
            while st is not None and st is not sb.node:
                if isinstance(st, ast.AsyncWith) and any("timeout" in norm(i.context_expr) for i in st.items):
                    cancel_wrap = st.items[0].context_expr
                st = pm_sb.get(id(st))
    pa = prog.func(f"{ER}._post_async")
    rebuffers_on_cancel = False
    for tr in [n for n in walk_no_nested(pa.node) if isinstance(n, ast.Try)]:
        if not any(isinstance(c, ast.Call) and call_attr(c) == "send_async" for b in tr.body for c in ast.walk(b)):
            continue
        for h in tr.handlers:
            names = [norm(x).split(".")[-1] for x in (h.type.elts if isinstance(h.type, ast.Tuple) else [h.type])] if h.type is not None else ["<bare>"]
            if any(n_ in ("CancelledError", "BaseException", "<bare>") for n_ in names) and any(
                    isinstance(c, ast.Call) and call_attr(c) == "_buffer_message" for b in h.body for c in ast.walk(b)):
                rebuffers_on_cancel = True
        if any(isinstance(c, ast.Call) and call_attr(c) == "_buffer_message" for b in tr.finalbody for c in ast.walk(b)):
            rebuffers_on_cancel = True
    if cancel_wrap is None or rebuffers_on_cancel:
        ctx.ok("R27e", inst)
    else:
        ctx.fail("R27e", sb, cancel_wrap, inst, f"`{norm(cancel_wrap)[:70]}` can cancel posts that are still pending after their messages have been "
                 "taken out of the buffer; _post_async puts a message back only on ProtocolNetworkException, so a cancelled post's "
                 "message is neither delivered nor buffered - the next round finds the buffer empty and reports Reconnected")
    # ---- R27d
    bl = prog.func(f"{ER}.buffer_messages")
    ctx.analysed(bl)
    g = cfg_of(bl)
    loops = [n for n in g.nodes if n.kind == "for" and "create_tag_updates_msg" in norm(n.ast.iter)]
    inst = "buffer_messages: every built non-None message is buffered"
    if loops:
        lp = loops[0]
        p = g.search([(lp.id, "loop")], lambda n: n.id == lp.id, blocked=lambda n: node_calls(n, "_buffer_message"),
                     blocked_edge=lambda s, d, l: g.nodes[s].kind == "test" and norm(g.nodes[s].ast) == f"{norm(lp.ast.target)} is not None" and l == "F")
        if p is None:
            ctx.ok("R27d", inst)
        else:
            ctx.fail("R27d", bl, lp.ast, inst, "tag data produced while disconnected is dropped", p)
    else:
        raise AnchorError("buffer_messages: message loop not found")


def _r27f(ctx) -> None:
    prog = ctx.prog
    ctx.rule("R27f", "a normal close of the websocket is treated like an abnormal one")
    f = prog.func("openpectus.protocol.engine_dispatcher:EngineDispatcher.send_async")
    ctx.analysed(f)
    trys = [t for t in walk_no_nested(f.node) if isinstance(t, ast.Try) and any(
        isinstance(c, ast.Call) and "dispatch_message_async" in norm(c.func) for st in t.body for c in ast.walk(st))]
    if not trys:
        raise AnchorError("send_async: the try around the rpc call was not found")
    t = trys[0]
    inst = "send_async: ConnectionClosedOK and ConnectionClosedError both map to ProtocolNetworkException"
    covered: set = set()
    before_catch_all = True
    for h in t.handlers:
        names = [] if h.type is None else ([h.type] if not isinstance(h.type, ast.Tuple) else list(h.type.elts))
        nm = {norm(n).split(".")[-1] for n in names}
        raises_net = any(isinstance(x, ast.Raise) and x.exc is not None and "ProtocolNetworkException" in norm(x.exc) for st in h.body for x in ast.walk(st))
        if h.type is None or nm & {"Exception", "BaseException"}:
            if not raises_net:
                before_catch_all = False
                break
            covered |= {"ConnectionClosedOK", "ConnectionClosedError"}
            continue
        if raises_net:
            if nm & {"ConnectionClosed", "WebSocketException"}:
                covered |= {"ConnectionClosedOK", "ConnectionClosedError"}
            covered |= nm & {"ConnectionClosedOK", "ConnectionClosedError"}
    if {"ConnectionClosedOK", "ConnectionClosedError"} <= covered:
        ctx.ok("R27f", inst, {"rule": "R27f", "assumption": "websockets.exceptions: ConnectionClosedOK and ConnectionClosedError are the subclasses of ConnectionClosed"})
    else:
        missing = sorted({"ConnectionClosedOK", "ConnectionClosedError"} - covered)
        ctx.fail("R27f", f, t.handlers[0], inst, f"{missing} is not mapped to ProtocolNetworkException and falls into the catch-all that returns an "
                 "ErrorMessage: when the aggregator closes the channel with code 1000 (its shutdown, a refused connection, the error branch of "
                 "rpc_call after an rpc timeout) the runner stays Connected, never reconnects, and every later message is dropped with nothing "
                 "buffered")


def run(ctx) -> None:
    _run_main(ctx)
    _r27f(ctx)
