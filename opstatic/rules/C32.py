"""C32 - Role-based access control covers every unit and run endpoint: route x sink coverage.

Routes: every function decorated @router.get/post/put/delete/patch/websocket in a module of
openpectus.aggregator.routers whose `router` is passed to include_router in
AggregatorServer.setup_fastapi.
Sinks (reads/commands on unit or run data): Aggregator.get_registered_engine_data,
get_all_registered_engine_data, `_engine_data_map` accesses, FromFrontend methods that take a unit
id, and RecentRunRepository / PlotLogRepository / RecentEngineRepository.get_*; found in the route
body and, through resolved calls (depth 3), in its callees; for the LSP websocket the functions
decorated @hookimpl in lsp/pylsp_plugin.py are reachable from OPPythonLSPServer.consume.
R32a every single-object sink is dominated by a call of a *verified* helper (a function that raises
     unless has_access(<fetched object>, <its user_roles parameter>)) that receives the route's
     UserRolesValue parameter and the same id expression - or is the fetch inside such a helper.
R32b every collection sink is filtered per element by has_access(elem, user_roles) before the
     element reaches anything but an id comparison.
R32c has_access has the shape `no required roles or required roles intersect user roles`.
Evidence lists every route with its sinks and guards. Decides coverage of the role check for every
request; token validation itself (jwt) is outside.
R32d live data supersedes stored data: a route that lists both the registered (live) engines and the stored recent engines
     may show a stored engine only if its id is not among the ids of *all* registered engines - the collection in that
     `not in` test must be derived from the unfiltered live collection (ids only), never from the list that already
     passed the access filter. Otherwise a unit the user may not see (live required roles) falls through to its stored
     row and is judged by the roles it had when it last disconnected.
R32e unknown is not open: has_access treats an empty set of required roles as "open to everyone". The engine data of a unit is created at
     registration, before the engine has reported its roles (UodInfoMsg), with an empty set. So (1) EngineData carries a flag that the
     roles are known, initialised False and set only where roles are stored (the setter of EngineData.required_roles, or the function that stores the
     reported roles); (2) has_access
     denies - before it looks at the set - while that flag is false; (3) RecentEngineRepository.store_recent_engine overwrites the stored
     roles of an existing row only when they are known. Otherwise every unit is listed, readable and commandable by a user without any
     role between each (re)connect and its UodInfoMsg - for the whole session when that message is rejected - and a session that ends
     before it erases the stored roles of the offline unit.
"""
from __future__ import annotations

import ast

from ..model import AnchorError, FuncInfo, norm, walk_no_nested
from ..util import cfg_of, call_attr, local_single_defs
from ..cfg import facts_at

EXPLANATION = __doc__
HTTP = {"get", "post", "put", "delete", "patch", "websocket"}
SINGLE_SINKS = {"get_registered_engine_data"}
COLLECTION_SINKS = {"get_all_registered_engine_data", "get_recent_engines", "get_all", "get_by_engine_id"}
REPO_CLASSES = {"RecentRunRepository", "PlotLogRepository", "RecentEngineRepository"}
FF = "openpectus.aggregator.aggregator:FromFrontend"
FF_UNIT_METHODS = {"save_method", "request_cancel", "request_force", "excute_command", "excute_control_button_command",
                   "register_active_user", "unregister_active_user", "add_contributor"}


def _routes(ctx):
    prog = ctx.prog
    srv = prog.func("openpectus.aggregator.aggregator_server:AggregatorServer.setup_fastapi")
    included = []
    for c in walk_no_nested(srv.node):
        if isinstance(c, ast.Call) and call_attr(c) == "include_router" and c.args:
            a = c.args[0]
            if isinstance(a, ast.Attribute) and a.attr == "router" and isinstance(a.value, ast.Name):
                ent = prog.resolve_name(srv.module, a.value.id)
                if ent is not None and hasattr(ent, "functions"):
                    included.append(ent)
    if len(included) < 4:
        raise AnchorError(f"setup_fastapi: only {len(included)} include_router(<module>.router) calls recognised")
    routes = []
    for m in included:
        for f in m.functions.values():
            for d in f.node.decorator_list:
                if isinstance(d, ast.Call) and isinstance(d.func, ast.Attribute) and d.func.attr in HTTP \
                        and isinstance(d.func.value, ast.Name) and d.func.value.id == "router":
                    path = norm(d.args[0]) if d.args else "?"
                    routes.append((m, f, d.func.attr, path))
    return included, routes


def _is_has_access(c: ast.AST) -> bool:
    return isinstance(c, ast.Call) and call_attr(c) == "has_access" and len(c.args) >= 2


def _verify_helper(ctx, f: FuncInfo):
    """A helper is an access guard if it has a user-roles parameter R and every normal return is
    dominated by the true outcome of has_access(<x>, R). Returns (roles param index, id param index) or None."""
    params = [a.arg for a in f.node.args.args]
    g = cfg_of(f)
    rets = [n for n in g.nodes if n.kind == "stmt" and isinstance(n.ast, ast.Return)]
    if not rets:
        return None
    roles_param = None
    for n in g.nodes:
        for x in n.walk():
            if _is_has_access(x) and isinstance(x.args[1], ast.Name) and x.args[1].id in params:
                roles_param = x.args[1].id
    if roles_param is None:
        return None
    for r in rets:
        facts = facts_at(g, r)
        if not any(a.startswith("has_access(") and a.endswith(f", {roles_param})") and pol for a, pol in facts):
            return None
    # also the implicit fall-through exit must not exist
    p = g.search(None, lambda n: n.id == g.exit.id, blocked=lambda n: n in rets or any(n.id == r.id for r in rets), follow_exc=False)
    if p is not None:
        return None
    ann = {a.arg: norm(a.annotation) if a.annotation is not None else "" for a in f.node.args.args}
    id_params = [p for p in params if p != roles_param and ann.get(p, "") in ("str", "")]
    return params.index(roles_param), (params.index(id_params[0]) if id_params else None)


def _sink_kind(ctx, call: ast.Call, f: FuncInfo):
    """('single'|'collection'|'command', description, id expr) or None."""
    name = call_attr(call)
    if name is None or not isinstance(call.func, ast.Attribute):
        return None
    cs = ctx.res.receiver_classes(call.func.value, f)
    cn = {c.name for c in cs}
    if name in SINGLE_SINKS and (not cs or "Aggregator" in cn):
        return ("single", f"Aggregator.{name}", call.args[0] if call.args else None)
    if name == "get_all_registered_engine_data" and (not cs or "Aggregator" in cn):
        return ("collection", f"Aggregator.{name}", None)
    if cn & REPO_CLASSES and name.startswith("get_"):
        if name in COLLECTION_SINKS:
            return ("collection", f"{sorted(cn & REPO_CLASSES)[0]}.{name}", None)
        return ("single", f"{sorted(cn & REPO_CLASSES)[0]}.{name}", call.args[0] if call.args else None)
    if name in FF_UNIT_METHODS and ("FromFrontend" in cn or "from_frontend" in norm(call.func.value)):
        idarg = None
        for k in call.keywords:
            if k.arg in ("engine_id", "unit_id"):
                idarg = k.value
        if idarg is None and call.args:
            idarg = call.args[0]
        return ("command", f"FromFrontend.{name}", idarg)
    return None


def _map_access(node: ast.AST) -> bool:
    return any(isinstance(x, ast.Attribute) and x.attr == "_engine_data_map" for x in ast.walk(node))


def _run_main(ctx) -> None:
    prog, res = ctx.prog, ctx.res
    for r, d in [("R32a", "single-object sinks dominated by a verified role check"),
                 ("R32b", "collection sinks filtered per element"), ("R32c", "has_access shape")]:
        ctx.rule(r, d)
    included, routes = _routes(ctx)
    ctx.extra["routers_included"] = [m.name for m in included]
    ctx.extra["routes"] = len(routes)
    helpers: dict[int, tuple] = {}

    def helper_info(fn: FuncInfo):
        k = id(fn.node)
        if k not in helpers:
            helpers[k] = _verify_helper(ctx, fn)
        return helpers[k]

    # ---- R32c
    ha = prog.func("openpectus.aggregator.routers.auth:has_access")
    ctx.analysed(ha)
    rets = [n for n in walk_no_nested(ha.node) if isinstance(n, ast.Return) and n.value is not None]
    params = [a.arg for a in ha.node.args.args]
    defs = local_single_defs(ha)
    ok = False
    # returns of the constant False only deny; the decision proper is the one remaining return
    rets = [r for r in rets if not (isinstance(r.value, ast.Constant) and r.value.value is False)]
    if len(rets) == 1 and isinstance(rets[0].value, ast.BoolOp) and isinstance(rets[0].value.op, ast.Or) and len(params) == 2:
        vals = [norm(v) for v in rets[0].value.values]
        req = [n for n, v in defs.items() if "required_roles" in norm(v) and params[0] in norm(v)]
        if req:
            R = req[0]
            empty = {f"len({R}) == 0", f"not {R}"}
            inter = {f"len({R} & {params[1]}) > 0", f"len({params[1]} & {R}) > 0", f"bool({R} & {params[1]})",
                     f"not {R}.isdisjoint({params[1]})", f"len({R}.intersection({params[1]})) > 0"}
            ok = len(vals) == 2 and ((vals[0] in empty and vals[1] in inter) or (vals[1] in empty and vals[0] in inter))
    if ok:
        ctx.ok("R32c", "has_access: required roles empty or intersect user roles")
    else:
        ctx.fail("R32c", ha, ha.node, "has_access: required roles empty or intersect user roles",
                 f"has_access no longer has the shape `len(required)==0 or len(required & user_roles)>0` (is: "
                 f"{[norm(r.value) for r in rets]})")

    # ---- routes
    plugin = prog.module("openpectus.lsp.pylsp_plugin")
    hooks = [f for f in plugin.functions.values() if any(d.split(".")[-1] == "hookimpl" for d in f.decorators)]

    def callee_sinks(fn: FuncInfo, depth: int, seen: set) -> list[tuple[FuncInfo, ast.Call, tuple]]:
        out = []
        if id(fn.node) in seen or depth < 0:
            return out
        seen.add(id(fn.node))
        for c in walk_no_nested(fn.node):
            if not isinstance(c, ast.Call):
                continue
            sk = _sink_kind(ctx, c, fn)
            if sk is not None:
                out.append((fn, c, sk))
                continue
            for callee in res.resolve_call(c, fn, cha=False):
                if callee.module.name.startswith("openpectus.aggregator.data") or callee.cls is not None and callee.cls.name in REPO_CLASSES:
                    continue
                if callee.cls is not None and callee.cls.qualname == FF:
                    continue
                if callee.module.name.startswith(("openpectus.aggregator", "openpectus.lsp")):
                    out += callee_sinks(callee, depth - 1, seen)
        return out

    table = []
    for (m, f, verb, path) in routes:
        ctx.analysed(f)
        g = cfg_of(f)
        params = {a.arg: (norm(a.annotation) if a.annotation is not None else "") for a in f.node.args.args + f.node.args.kwonlyargs}
        roles_params = [p for p, a in params.items() if a.endswith("UserRolesValue")]
        row = {"route": f"{verb.upper()} {m.name.split('.')[-1]}{path}", "function": f.short, "sinks": [], "guard": None}
        # guards in this route: calls to verified helpers with the route's roles parameter
        guards = []  # (cfg node, id expr text, result var)
        for n in g.nodes:
            for c in n.calls():
                for callee in res.resolve_call(c, f, cha=False):
                    hi = helper_info(callee)
                    if hi is None:
                        continue
                    ri, ii = hi
                    rarg = c.args[ri] if ri < len(c.args) else None
                    iarg = c.args[ii] if ii is not None and ii < len(c.args) else None
                    for k in c.keywords:
                        pn = [a.arg for a in callee.node.args.args]
                        if k.arg == pn[ri]:
                            rarg = k.value
                        if ii is not None and k.arg == pn[ii]:
                            iarg = k.value
                    if isinstance(rarg, ast.Name) and rarg.id in roles_params:
                        resvar = None
                        if n.kind == "stmt" and isinstance(n.ast, ast.Assign) and isinstance(n.ast.targets[0], ast.Name):
                            resvar = n.ast.targets[0].id
                        guards.append((n, norm(iarg) if iarg is not None else None, resvar, callee.short))
        if guards:
            row["guard"] = sorted({gd[3] for gd in guards})
        # sinks: direct and through callees
        sinks = []
        for n in g.nodes:
            for c in n.calls():
                sk = _sink_kind(ctx, c, f)
                if sk is not None:
                    sinks.append((n, c, sk, f))
                    continue
                for callee in res.resolve_call(c, f, cha=False):
                    if helper_info(callee) is not None:
                        continue
                    if callee.cls is not None and (callee.cls.qualname == FF or callee.cls.name in REPO_CLASSES):
                        continue
                    if callee.module.name.startswith(("openpectus.aggregator", "openpectus.lsp")) \
                            and not callee.module.name.startswith("openpectus.aggregator.data"):
                        for (cf, cc, csk) in callee_sinks(callee, 3, set()):
                            sinks.append((n, cc, csk, cf))
            if n.ast is not None and any(_map_access(e) for e in n.exprs()):
                sinks.append((n, n.ast, ("single", "_engine_data_map access", None), f))
        if f.name == "lsp_server_endpoint" or any(call_attr(c) == "consume" for c in walk_no_nested(f.node) if isinstance(c, ast.Call)):
            consume_nodes = [n for n in g.nodes if any(call_attr(c) == "consume" for c in n.calls())]
            for h in hooks:
                for (cf, cc, csk) in callee_sinks(h, 4, set()):
                    for n in consume_nodes:
                        sinks.append((n, cc, csk, cf))
        seen_inst = set()
        for (n, c, (kind, desc, idexpr), where) in sinks:
            inst = f"{f.short} [{verb.upper()} {path}] -> {desc}" + (f" in {where.short}" if where is not f else "")
            if inst in seen_inst:
                continue
            seen_inst.add(inst)
            row["sinks"].append(desc)
            if kind in ("single", "command"):
                dom = [gd for gd in guards if g.dominates(gd[0], n) and gd[0].id != n.id]
                idtxt = norm(idexpr) if isinstance(idexpr, ast.AST) and where is f else None
                good = False
                for gd in dom:
                    if idtxt is None or gd[1] is None or gd[1] == idtxt:
                        good = True
                    elif gd[2] is not None and idtxt.startswith(gd[2] + "."):
                        good = True  # id derived from the authorised object
                if good:
                    ctx.ok("R32a", inst, {"rule": "R32a", "route": row["route"], "sink": desc, "guard": [gd[3] for gd in dom]})
                else:
                    why = "no role check dominates it" if not dom else \
                        f"the dominating role check is for `{dom[0][1]}` but the sink uses `{idtxt}`"
                    ctx.fail("R32a", f, c if where is f else n.ast, inst,
                             f"route reaches unit/run data ({desc}) and {why}: a user lacking every required role can read or "
                             f"command the unit/run through this endpoint")
            else:
                # collection: find how the result is consumed in `where`
                verdict = _collection_filtered(ctx, where, c)
                if verdict is True:
                    ctx.ok("R32b", inst, {"rule": "R32b", "route": row["route"], "sink": desc})
                else:
                    ctx.fail("R32b", where, c, inst, f"elements of {desc} reach the response without a per-element "
                             f"has_access(elem, user_roles) filter ({verdict})")
        if not sinks:
            ctx.ok("R32a", f"{f.short} [{verb.upper()} {path}] touches no unit/run data", trivial=True)
        table.append(row)
    ctx.extra["route_table"] = table
    ctx.floor("R32a", 35)
    # ---- R32d
    ctx.rule("R32d", "stored engines are listed only when no live engine has the id (test against the unfiltered live ids)")
    from ..util import local_single_defs as _lsd
    n_sup = 0
    for (f, verb, path) in [(r_[1], r_[2], r_[3]) for r_ in routes]:
        calls_ = [c for c in walk_no_nested(f.node) if isinstance(c, ast.Call)]
        live = [c for c in calls_ if call_attr(c) == "get_all_registered_engine_data"]
        stored = [c for c in calls_ if call_attr(c) == "get_recent_engines"]
        if not live or not stored:
            continue
        defs_ = _lsd(f)
        live_locals = {k for k, v in defs_.items() if isinstance(v, ast.Call) and call_attr(v) == "get_all_registered_engine_data"}
        # lists that are filled under an access filter in this function
        filtered_lists = set()
        for x in walk_no_nested(f.node):
            if isinstance(x, ast.Call) and call_attr(x) == "append" and isinstance(x.func.value, ast.Name):
                filtered_lists.add(x.func.value.id)
        tests_ = [n for n in walk_no_nested(f.node) if isinstance(n, ast.Compare) and len(n.ops) == 1 and isinstance(n.ops[0], ast.NotIn)
                  and isinstance(n.left, ast.Attribute) and n.left.attr in ("engine_id", "id")]
        for t in tests_:
            n_sup += 1
            inst = f"{f.short} [{verb.upper()} {path}]: `{norm(t)[:80]}` tests against all registered engine ids"
            coll = t.comparators[0]
            coll = defs_.get(coll.id, coll) if isinstance(coll, ast.Name) else coll
            srcs = {x.id for x in ast.walk(coll) if isinstance(x, ast.Name) and isinstance(x.ctx, ast.Load)}
            iters = []
            for comp in ast.walk(coll):
                if isinstance(comp, (ast.ListComp, ast.SetComp, ast.GeneratorExp)):
                    iters += [norm(g_.iter) for g_ in comp.generators]
            if iters and all(it in live_locals or it.endswith("get_all_registered_engine_data()") for it in iters):
                ctx.ok("R32d", inst)
            elif any(it in filtered_lists for it in iters) or (srcs & filtered_lists):
                ctx.fail("R32d", f, t, inst, f"the 'already online' test uses `{norm(t.comparators[0])}`, which is built from the list that "
                         "already passed the access filter: a registered engine the user may not see is not recognised as online, "
                         "its stored recent-engine row is then judged by the roles it had at its last disconnect and the unit is "
                         "listed")
            else:
                raise AnchorError(f"{f.short}: collection of the 'already online' test not understood ({norm(t.comparators[0])[:60]})")
    if n_sup < 1:
        raise AnchorError("no route combining live and stored engines found (R32d would pass vacuously)")
    if len(routes) < 40:
        raise AnchorError(f"only {len(routes)} routes found (floor 40)")


def _collection_filtered(ctx, f: FuncInfo, call: ast.Call):
    """True or a reason string."""
    g = cfg_of(f)
    from ..model import parent_map
    pm = parent_map(f.node)
    par = pm.get(id(call))
    # filter(lambda x: has_access(x, roles), <call>)
    if isinstance(par, ast.Call) and call_attr(par) == "filter" and len(par.args) == 2 and par.args[1] is call:
        lam = par.args[0]
        if isinstance(lam, ast.Lambda) and _is_has_access(lam.body) and isinstance(lam.body.args[0], ast.Name) \
                and lam.body.args[0].id == lam.args.args[0].arg:
            return True
        return "filter() predicate is not has_access(elem, user_roles)"
    # comprehension directly over the call with has_access condition
    if isinstance(par, ast.comprehension) and par.iter is call:
        if any(_is_has_access(i) for i in par.ifs):
            return True
        return "comprehension has no has_access condition"
    # assigned to a variable, then looped
    if isinstance(par, ast.Assign) and len(par.targets) == 1 and isinstance(par.targets[0], ast.Name):
        var = par.targets[0].id
        uses_ok = True
        found_loop = False
        for n in g.nodes:
            if n.kind == "for" and isinstance(n.ast.iter, ast.Name) and n.ast.iter.id == var and isinstance(n.ast.target, ast.Name):
                found_loop = True
                elem = n.ast.target.id
                # every path from the loop edge to a use of elem (other than in has_access) passes has_access true edge
                def uses_elem(x, elem=elem) -> bool:
                    if x.id == n.id:
                        return False
                    for y in x.walk():
                        if isinstance(y, ast.Name) and y.id == elem:
                            # inside a has_access call?
                            if x.kind == "test" and any(_is_has_access(z) and isinstance(z.args[0], ast.Name) and z.args[0].id == elem
                                                        for z in ast.walk(x.ast)):
                                return False
                            return True
                    return False

                def denied_edge(nid, d, lab, elem=elem) -> bool:
                    nn = g.nodes[nid]
                    if nn.kind != "test":
                        return False
                    e, pol = nn.ast, True
                    while isinstance(e, ast.UnaryOp) and isinstance(e.op, ast.Not):
                        e, pol = e.operand, not pol
                    if _is_has_access(e) and isinstance(e.args[0], ast.Name) and e.args[0].id == elem:
                        # block the edge on which access is granted: we look for uses reachable WITHOUT grant
                        return lab == ("T" if pol else "F")
                    return False
                p = g.search([(n.id, "loop")], uses_elem, blocked_edge=denied_edge, blocked=lambda x: x.id == n.id)
                if p is not None:
                    uses_ok = False
        # other uses of var: only id projections allowed
        for x in walk_no_nested(f.node):
            if isinstance(x, ast.Name) and x.id == var and isinstance(x.ctx, ast.Load):
                px = pm.get(id(x))
                if isinstance(px, (ast.For,)) and px.iter is x:
                    continue
                if isinstance(px, ast.comprehension) and px.iter is x:
                    comp = pm.get(id(px))
                    elt = getattr(comp, "elt", None)
                    if isinstance(elt, ast.Attribute) and elt.attr in ("engine_id", "run_id", "id"):
                        continue
                    if any(_is_has_access(i) for i in px.ifs):
                        continue
                    return "collection used in an unfiltered comprehension"
                return f"collection variable `{var}` escapes unfiltered"
        if not found_loop:
            return "no filtered loop over the collection"
        return True if uses_ok else "loop body uses an element before/without has_access"
    return "unrecognised consumption of the collection"


def _r32e(ctx) -> None:
    from ..model import AnchorError, norm, walk_no_nested
    from ..util import cfg_of, assigned_attrs
    from ..cfg import facts_at
    import ast
    prog = ctx.prog
    ctx.rule("R32e", "a unit whose required roles have not been reported yet is not open to everyone")
    ed = prog.cls("openpectus.aggregator.models:EngineData")
    init = ed.methods["__init__"]
    ha = prog.func("openpectus.aggregator.routers.auth:has_access")
    ctx.analysed(ha)
    gh = cfg_of(ha)
    # the flag: a boolean attribute of EngineData initialised False that has_access tests
    flags = {t.attr for t, v, st in assigned_attrs(init.node) if isinstance(v, ast.Constant) and v.value is False and isinstance(t.value, ast.Name)}
    tested = {x.attr for x in ast.walk(ha.node) if isinstance(x, ast.Attribute) and x.attr in flags}
    inst = "has_access denies while the unit's required roles are not known"
    empty_open = any(isinstance(x, ast.Compare) and "len(" in norm(x) and norm(x).endswith("== 0") for x in ast.walk(ha.node))
    if not empty_open:
        ctx.ok("R32e", inst + " (an empty role set is not treated as open)", trivial=True)
        return
    flag = next(iter(sorted(tested)), None)
    ok1 = False
    if flag is not None:
        for n in gh.nodes:
            if n.kind == "stmt" and isinstance(n.ast, ast.Return) and isinstance(n.ast.value, ast.Constant) and n.ast.value.value is False:
                if any(a.endswith("." + flag) and not pol for a, pol in facts_at(gh, n)):
                    # ... and it comes before the emptiness test
                    empt = [m for m in gh.nodes if m.ast is not None and "len(" in norm(m.ast) and "== 0" in norm(m.ast)]
                    if all(gh.search([n.id], lambda y, m=m: y.id == m.id, follow_exc=False) is None for m in empt):
                        ok1 = True
    if ok1:
        ctx.ok("R32e", inst)
    else:
        ctx.fail("R32e", ha, ha.node, inst, "EngineData starts with required_roles = set() and has_access reads an empty set as 'open': between "
                 "registration and the engine's UodInfoMsg (every connect and reconnect; for the whole session if that message is rejected) a "
                 "user without any role sees the unit listed, gets GET unit 200, reads the plot log of the restored run, and execute_command, "
                 "POST method, force_line and cancel_line reach the engine")
    # (1) the flag is set only together with the reported roles
    inst = "the roles-known flag is set only where the reported roles are stored"
    if flag is None:
        ctx.fail("R32e", init, init.node, inst, "EngineData has no such flag")
    else:
        setters = []
        for fn in prog.iter_functions():
            if "/test" in fn.module.path or ".test." in fn.module.name:
                continue
            for t, v, st in assigned_attrs(fn.node):
                if t.attr == flag and isinstance(v, ast.Constant) and v.value is True:
                    setters.append((fn, st))
        bad = [(fn, st) for fn, st in setters if not any(t.attr.endswith("required_roles") for t, v, s_ in assigned_attrs(fn.node))]
        if setters and not bad:
            ctx.ok("R32e", inst, {"rule": "R32e", "set_in": sorted({fn.short for fn, _ in setters})})
        elif not setters:
            ctx.fail("R32e", init, init.node, inst, f"`{flag}` is never set: every unit stays closed")
        else:
            ctx.fail("R32e", bad[0][0], bad[0][1], inst, f"`{flag}` is set in a function that does not store reported roles")
    # (3) stored roles are not erased by a session that never learned them
    sre = prog.func("openpectus.aggregator.data.repository:RecentEngineRepository.store_recent_engine")
    ctx.analysed(sre)
    gs = cfg_of(sre)
    writes = [n for n in gs.nodes if n.kind == "stmt" and any(t.attr == "required_roles" for t, v, st in assigned_attrs(n.ast))]
    if not writes:
        raise AnchorError("store_recent_engine: write of required_roles not found")
    inst = "store_recent_engine keeps the stored roles of an existing row when the session never learned them"
    if flag is not None and all(any(flag in norm(e) for e, pol in gs.conditions_at(w)) for w in writes):
        ctx.ok("R32e", inst)
    else:
        ctx.fail("R32e", sre, writes[0].ast, inst, "the stored roles are overwritten with the (empty) roles of a session that ended before the engine's "
                 "UodInfoMsg: the offline unit (name, location, last seen) is then listed to everyone for up to 30 days")


def run(ctx) -> None:
    _run_main(ctx)
    _r32e(ctx)
