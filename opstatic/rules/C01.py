"""C01 - Live method edits never re-run or lose run progress: four structural necessary conditions.

R01a state-carriage completeness: every runtime attribute that the interpreter layer (pinterpreter.py,
     tracking.py, command_manager.py) writes on an ast.Node object is emitted by extract_state and
     restored by apply_state of the class that declares it, under the same key, and the key sets of
     the two methods agree per class.
R01b self-lookup: Node.get_child_by_id(id) never returns the receiver unless include_self=True. A call
     `R.get_child_by_id(E.id)` where E may be the node that corresponds to R itself (the root of the
     edited program looked up in the old program) must pass include_self=True - otherwise the
     hot-swap visitor returns at the root, the merged tree state is empty and every edit restarts
     the method.
R01c program/interpreter alias consistency: at every normal exit of MethodManager.set_method,
     reset_interpreter and merge_method, self._program is the program object the installed
     interpreter runs (origin tokens propagated through the helpers) - it carries the `started` flag
     Engine.set_method uses to choose merge vs. set and the node flags reported as method state.
R01d validate-before-commit: in merge_method every write of _interpreter/_method/_program is dominated
     by the call that must-reach _validate_liveedit_method, which raises MethodEditError for a
     started/executed line whose content differs; Engine.set_method merges exactly under
     `_runstate_started and program_is_started`.
R01e coverage: the started/executed line ids that _validate_liveedit_method locks come from a loop over a *complete*
     traversal of the program (opstatic/traversal.py: the called helper, with the call's constant arguments bound, never
     lets the class of a node decide whether it is part of the result - e.g. get_instructions() without include_blanks
     drops blank lines, so an edit that turns a passed blank line into an instruction would be merged); ProgramNode.
     extract_tree_state / apply_tree_state visit every node likewise.
R01f the validation sees deleted lines too: _validate_liveedit_method rejects (raises MethodEditError) when a started/executed
     line of the *old* method is missing from the new one - a loop over the old method's lines whose raise is guarded by
     membership in the started/executed ids and by absence from the new method's ids. A validation that only walks the new
     method's lines never looks at a line that was removed.
R01g macro guard compares what the line does: Node.matches_source (used for macros that have started) compares the
     instruction name as well as class, name, arguments and threshold - two UOD commands, or Pause and Hold, are nodes of one
     class, so `CmdA: x` -> `CmdB: x` in an executed macro body would pass.
Decides these shapes; equality of the edited run with a fresh run is out of static reach.
"""
from __future__ import annotations

import ast

from ..model import AnchorError, norm, walk_no_nested
from ..util import cfg_of, call_attr, assigned_attrs, node_calls, local_single_defs, follow_delegate
from ..cfg import facts_at

EXPLANATION = __doc__
MM = "openpectus.engine.method_manager:MethodManager"
IDENTITY_KEYS = {"id", "class_name", "name"}


def _state_keys(m, param: str | None):
    """keys written to the state dict (extract) or read from it (apply)."""
    keys = set()
    # the state dict: a parameter of the method (apply_state) or the local it returns (extract_state) - by role, not by name
    state_names = {a.arg for a in m.node.args.args[1:]}
    for n in ast.walk(m.node):
        if isinstance(n, ast.Return) and isinstance(n.value, ast.Name):
            state_names.add(n.value.id)
    for n in ast.walk(m.node):
        if isinstance(n, ast.Subscript) and isinstance(n.slice, ast.Constant) and isinstance(n.slice.value, str) \
                and isinstance(n.value, ast.Name) and n.value.id in state_names:
            keys.add(n.slice.value)
        if isinstance(n, ast.Call) and call_attr(n) == "NodeState":
            keys |= {k.arg for k in n.keywords if k.arg}
    return keys


def run(ctx) -> None:
    prog, res = ctx.prog, ctx.res
    for r, d in [("R01a", "runtime node state written by the interpreter is carried by extract_state/apply_state"),
                 ("R01b", "lookups that may target the receiver pass include_self=True"),
                 ("R01c", "MethodManager._program is the installed interpreter's program at every exit"),
                 ("R01d", "validation dominates the commit of a merge")]:
        ctx.rule(r, d)
    node = prog.cls("openpectus.lang.model.ast:Node")
    node_classes = [node] + node.all_subclasses()

    # ---- R01a
    writers: dict[tuple[str, str], list] = {}
    for mn in ("openpectus.lang.exec.pinterpreter", "openpectus.lang.exec.tracking", "openpectus.engine.command_manager"):
        m = prog.module(mn)
        for f in list(m.functions.values()) + [x for c in m.classes.values() for x in c.methods.values()]:
            for t, v, st in assigned_attrs(f.node):
                cs = [c for c in res.receiver_classes(t.value, f) if c.is_subclass_of(node)]
                if not cs:
                    continue
                # declaring class: the one whose __init__ assigns the attribute
                for c in cs:
                    decl = None
                    for k in c.mro():
                        if t.attr in k.inst_attr_vals or t.attr in k.inst_attr_ann:
                            decl = k
                    if decl is None:
                        continue
                    writers.setdefault((decl.qualname, t.attr), []).append((f, st))
    flag_alias = {"_cancelled": "cancelled", "_forced": "forced"}
    for (dq, attr), sites in sorted(writers.items()):
        decl = prog.cls(dq)
        ex = decl.find_method("extract_state")
        ap = decl.find_method("apply_state")
        if ex is None or ap is None:
            raise AnchorError(f"{decl.name}: extract_state/apply_state missing")
        # walk up: the carrier is the extract/apply defined on decl or nearest ancestor that mentions the key
        key = flag_alias.get(attr, attr)
        ex_keys, ap_keys = set(), set()
        for k in decl.mro():
            if "extract_state" in k.methods:
                ex_keys |= _state_keys(k.methods["extract_state"], None)
            if "apply_state" in k.methods:
                ap_keys |= _state_keys(k.methods["apply_state"], None)
        # restricted to decl and its ancestors (a subclass carrying it would not cover sibling classes)
        f0, st0 = sites[0]
        inst = f"{decl.name}.{attr} (written by {sorted({s[0].short for s in sites})[0]}{' ...' if len(sites) > 1 else ''})"
        if attr in ("parent", "position", "id", "threshold", "indent_error"):
            continue
        if key in ex_keys and key in ap_keys:
            ctx.ok("R01a", inst, {"rule": "R01a", "attribute": f"{decl.name}.{attr}", "writers": len(sites)})
        else:
            miss = [w for w, s in (("extract_state", ex_keys), ("apply_state", ap_keys)) if key not in s]
            ctx.fail("R01a", f0, st0, inst, f"the interpreter writes runtime state `{attr}` of {decl.name} but {' and '.join(miss)} of "
                     f"{decl.name} do(es) not carry it: a live edit (or state restore) silently resets it")
    ctx.floor("R01a", 12)
    for c in node_classes:
        if c.module.is_test or "extract_state" not in c.methods and "apply_state" not in c.methods:
            continue
        ek = _state_keys(c.methods["extract_state"], None) if "extract_state" in c.methods else set()
        ak = _state_keys(c.methods["apply_state"], None) if "apply_state" in c.methods else set()
        ek -= IDENTITY_KEYS
        ak -= IDENTITY_KEYS
        inst = f"{c.name}: extract_state and apply_state agree on keys"
        if ek == ak:
            ctx.ok("R01a", inst, trivial=not ek)
        else:
            m = c.methods.get("extract_state") or c.methods.get("apply_state")
            ctx.fail("R01a", m, m.node, inst, f"extract_state emits {sorted(ek - ak)} that apply_state ignores / apply_state reads "
                     f"{sorted(ak - ek)} that extract_state does not emit")

    # ---- R01b
    gcb = node.methods.get("get_child_by_id")
    if gcb is None:
        raise AnchorError("Node.get_child_by_id missing")
    n_sites = 0
    for f in prog.iter_functions():
        for c in walk_no_nested(f.node):
            if not (isinstance(c, ast.Call) and call_attr(c) == "get_child_by_id" and isinstance(c.func, ast.Attribute) and c.args):
                continue
            if f is gcb:
                continue
            rc = [k for k in res.receiver_classes(c.func.value, f) if k.is_subclass_of(node)]
            if not rc:
                continue
            n_sites += 1
            ctx.analysed(f)
            a = c.args[0]
            incl = any(k.arg == "include_self" and isinstance(k.value, ast.Constant) and k.value.value is True for k in c.keywords) \
                or (len(c.args) > 1 and isinstance(c.args[1], ast.Constant) and c.args[1].value is True)
            # may the looked-up id be the receiver's own id? only if it is `<E>.id` with E a node whose class set intersects the receiver's
            self_possible = False
            if isinstance(a, ast.Attribute) and a.attr == "id":
                ec = [k for k in res.receiver_classes(a.value, f) if k.is_subclass_of(node)]
                ts = res.infer(a.value, f)
                untyped = not ts
                for k in ec:
                    for r_ in rc:
                        if k.is_subclass_of(r_) or r_.is_subclass_of(k):
                            self_possible = True
                if untyped:
                    self_possible = True
            inst = f"{f.short}: {norm(c)}"
            if not self_possible:
                ctx.ok("R01b", inst, trivial=True)
            elif incl:
                ctx.ok("R01b", inst)
            else:
                # a macro / interrupt node id can never be the program root: receiver ProgramNode and argument known not to be one
                ec = [k for k in res.receiver_classes(a.value, f)] if isinstance(a, ast.Attribute) else []
                prog_node = prog.cls("openpectus.lang.model.ast:ProgramNode")
                if ec and all(not (prog_node.is_subclass_of(k) or k.is_subclass_of(prog_node)) for k in ec):
                    ctx.ok("R01b", inst + " (argument cannot be a ProgramNode)")
                    continue
                ctx.fail("R01b", f, c, inst,
                         f"`{norm(a)}` can be the id of the node that corresponds to the receiver itself (the program root), and "
                         f"get_child_by_id without include_self=True never returns the receiver: the lookup yields None for the root")
    if n_sites < 5:
        raise AnchorError(f"only {n_sites} get_child_by_id call sites found (floor 5)")

    # ---- R01c : origin-token propagation
    mm = prog.cls(MM)
    for mname in ("set_method", "reset_interpreter", "merge_method"):
        f = mm.methods.get(mname)
        if f is None:
            raise AnchorError(f"MethodManager.{mname} missing")
        ctx.analysed(f)
        tok = _final_tokens(ctx, mm, f)
        inst = f"MethodManager.{mname}: self._program is the program of self._interpreter at exit"
        if tok is None:
            raise AnchorError(f"MethodManager.{mname}: could not follow the program/interpreter origins")
        p_tok, i_tok, where = tok
        if p_tok == i_tok:
            ctx.ok("R01c", inst, {"rule": "R01c", "function": mname, "origin": p_tok})
        else:
            ctx.fail("R01c", f, where, inst,
                     f"at exit self._program originates from `{p_tok}` but the installed interpreter runs the program from "
                     f"`{i_tok}`: MethodManager.program (its `started` flag and the node flags reported as method state) is a "
                     f"state-less copy, so program_is_started is False after the edit and the next save replaces the method and "
                     f"restarts the run")
    # ---- R01d
    mg = mm.methods["merge_method"]
    g = cfg_of(mg)
    val_nodes = [n for n in g.nodes if node_calls(n, "_create_interpreter_merge_state") or node_calls(n, "_validate_liveedit_method")]
    cms = mm.methods.get("_create_interpreter_merge_state")
    if cms is None or not val_nodes:
        raise AnchorError("merge_method: call of _create_interpreter_merge_state not found")
    gc = cfg_of(cms)
    if gc.path_to_exit_avoiding(None, lambda n: node_calls(n, "_validate_liveedit_method")) is not None:
        ctx.fail("R01d", cms, cms.node, "_create_interpreter_merge_state must-call _validate_liveedit_method",
                 "a merge state can be created without validating the edit against started lines")
    else:
        ctx.ok("R01d", "_create_interpreter_merge_state must-call _validate_liveedit_method")
    for n in g.nodes:
        if n.kind != "stmt":
            continue
        commits = [t.attr for t, v, st in assigned_attrs(n.ast) if t.attr in ("_interpreter", "_method", "_program")
                   and isinstance(t.value, ast.Name) and t.value.id == "self"]
        is_handler = any(call_attr(c) == "_interpreter_reset_handler" for c in n.calls())
        if not commits and not is_handler:
            continue
        inst = f"merge_method: `{n.text()[:60]}` dominated by validation"
        if any(g.dominates(v, n) for v in val_nodes):
            ctx.ok("R01d", inst)
        else:
            ctx.fail("R01d", mg, n.ast, inst, "the edit is committed on a path that has not validated it: an edit of a started line "
                     "could change the running method")
    vl = mm.methods.get("_validate_liveedit_method")
    ctx.analysed(vl)
    gv = cfg_of(vl)
    raises = [n for n in gv.nodes if n.kind == "stmt" and isinstance(n.ast, ast.Raise) and "MethodEditError" in norm(n.ast)]
    ok = False
    for rn in raises:
        conds = " && ".join(norm(c) for c, pol in gv.conditions_at(rn) if pol)
        if "content != " in conds and ("executed_line_ids" in conds or "started_line_ids" in conds):
            ok = "executed_line_ids" in conds and "started_line_ids" in conds
    if ok:
        ctx.ok("R01d", "_validate_liveedit_method rejects a changed started/executed line")
    else:
        ctx.fail("R01d", vl, vl.node, "_validate_liveedit_method rejects a changed started/executed line",
                 "no raise MethodEditError under `line started or executed, content differs`")
    es = follow_delegate(prog.func("openpectus.engine.engine:Engine.set_method"))   # (lock wrapper -> implementation)
    ctx.analysed(es)
    ge = cfg_of(es)
    mnodes = [n for n in ge.nodes if node_calls(n, "merge_method")]
    snodes = [n for n in ge.nodes if any(call_attr(c) == "set_method" and "_method_manager" in norm(c.func) for c in n.calls())]
    if not mnodes or not snodes:
        raise AnchorError("Engine.set_method: merge/set calls not found")
    fm = facts_at(ge, mnodes[0])
    fs = facts_at(ge, snodes[0])
    cond_ok = any(a == "self._runstate_started" and pol for a, pol in fm) and any(a.endswith("program_is_started") and pol for a, pol in fm)
    else_ok = any("self._runstate_started and" in a and not pol for a, pol in fs)
    if cond_ok and else_ok:
        ctx.ok("R01d", "Engine.set_method merges exactly under _runstate_started and program_is_started")
    else:
        ctx.fail("R01d", es, mnodes[0].ast, "Engine.set_method merges exactly under _runstate_started and program_is_started",
                 "the merge/replace decision changed")

    # ---- R01f
    ctx.rule("R01f", "removing a started or executed line is rejected")
    vl_ = mm.methods["_validate_liveedit_method"]
    gvl = cfg_of(vl_)
    rs_ = [n for n in gvl.nodes if n.kind == "stmt" and isinstance(n.ast, ast.Raise) and "MethodEditError" in norm(n.ast)]
    ok_rm = False
    for rn in rs_:
        conds = [(norm(e), pol) for e, pol in gvl.conditions_at(rn)]
        if any((a, pol) in (("False", True), ("True", False)) for a, pol in facts_at(gvl, rn)):
            continue        # guarded by a constant: the raise is dead
        loops = [n for n in gvl.nodes if n.kind == "for" and gvl.dominates(n, rn)]     # the loop variable in the guards ties the raise to its loop
        for lp in loops:
            it = norm(lp.ast.iter)
            src = local_single_defs(vl_).get(it.split(".")[0])
            over_old = it.startswith("self._method") or (src is not None and norm(src).startswith("self._method"))
            if not over_old or not isinstance(lp.ast.target, ast.Name):
                continue
            var = lp.ast.target.id + ".id"
            has_state = any(pol and var in c and ("executed_line_ids" in c or "started_line_ids" in c) for c, pol in conds)
            missing = any((var + " not in ") in c and pol and "method_state" not in c for c, pol in conds) or any(
                (var + " in ") in c and not pol and "method_state" not in c for c, pol in conds)
            if has_state and missing:
                ok_rm = True
    inst = "_validate_liveedit_method: a started/executed line missing from the new method raises MethodEditError"
    if ok_rm:
        ctx.ok("R01f", inst)
    else:
        ctx.fail("R01f", vl_, vl_.node, inst, "only the new method's lines are examined: deleting the running Wait or a completed Mark is merged, the "
                 "line disappears from the reported method state and the work it stands for is discarded")
    # ---- R01g
    ctx.rule("R01g", "the started-macro guard compares the instruction name")
    ms = prog.func("openpectus.lang.model.ast:Node.matches_source")
    ctx.analysed(ms)
    cmp_attrs = {x.left.attr for x in ast.walk(ms.node) if isinstance(x, ast.Compare) and isinstance(x.left, ast.Attribute)
                 and isinstance(x.ops[0], ast.NotEq) and isinstance(x.comparators[0], ast.Attribute) and x.comparators[0].attr == x.left.attr
                 and norm(x.comparators[0].value) != norm(x.left.value)}
    inst = "Node.matches_source compares instruction_name, arguments and threshold"
    need = {"instruction_name", "arguments", "threshold"}
    if need <= cmp_attrs:
        ctx.ok("R01g", inst, {"rule": "R01g", "compared": sorted(cmp_attrs)})
    else:
        ctx.fail("R01g", ms, ms.node, inst, f"{sorted(need - cmp_attrs)} not compared (compared: {sorted(cmp_attrs)}): an already executed line of a started "
                 "macro can be changed to another instruction of the same node class (CmdA: x -> CmdB: x, Pause -> Hold) during the macro's "
                 "second call and the edit is merged")
    # ---- R01e
    ctx.rule("R01e", "the lock set of the validation and the carried state cover every line of the method")
    from .. import traversal
    gms = mm.methods.get("_get_method_state")
    if gms is None:
        raise AnchorError("MethodManager._get_method_state missing")
    ctx.analysed(gms)
    lds = local_single_defs(gms)
    loops = [n for n in walk_no_nested(gms.node) if isinstance(n, ast.For) and any(
        isinstance(c, ast.Call) and call_attr(c) == "append" and isinstance(c.func.value, ast.Attribute)
        and c.func.value.attr in ("executed_line_ids", "started_line_ids") for c in ast.walk(n))]
    if len(loops) != 1:
        raise AnchorError("_get_method_state: the loop that collects started/executed line ids was not recognised")
    it = loops[0].iter
    if isinstance(it, ast.Name):
        it = lds.get(it.id, it)
    inst = "_get_method_state: started/executed ids are collected over every node of the program"
    probs = traversal.problems(ctx, it, gms) if isinstance(it, ast.Call) else [f"iterates `{norm(it)}`"]
    if not probs:
        ctx.ok("R01e", inst)
    else:
        ctx.fail("R01e", gms, loops[0].iter, inst, "; ".join(probs[:3]) + ": lines of that kind that have already been passed are missing from "
                 "the lock set, so an edit of such a line is merged instead of being rejected")
    pn = prog.cls("openpectus.lang.model.ast:ProgramNode")
    for mname in ("extract_tree_state", "apply_tree_state"):
        fn = pn.methods.get(mname)
        if fn is None:
            raise AnchorError(f"ProgramNode.{mname} missing")
        ctx.analysed(fn)
        probs = traversal.func_problems(ctx, fn, {})
        inst = f"ProgramNode.{mname} visits every node"
        if not probs:
            ctx.ok("R01e", inst)
        else:
            ctx.fail("R01e", fn, fn.node, inst, "; ".join(probs[:3]) + ": progress of those nodes is not carried over a live edit")


def _final_tokens(ctx, mm, f):
    """Symbolic origins of self._program and of the program inside self._interpreter at the exit of f.
    Straight-line interpretation with inlining of the MethodManager helpers that assign them."""
    prog = ctx.prog
    env = {"self._program": "self._program@entry", "self._interpreter": "interp(self._program@entry)"}
    counter = [0]
    last_site = [f.node]

    def fresh(tag):
        counter[0] += 1
        return f"{tag}#{counter[0]}"

    def eval_expr(e, fn, local):
        if isinstance(e, ast.Name):
            return local.get(e.id, f"?{e.id}")
        if isinstance(e, ast.Attribute) and isinstance(e.value, ast.Name) and e.value.id == "self":
            if e.attr in ("_program", "program"):
                return env["self._program"]
            if e.attr in ("_interpreter", "interpreter"):
                return env["self._interpreter"]
        if isinstance(e, ast.Attribute) and e.attr == "_program":
            base = eval_expr(e.value, fn, local)
            if base.startswith("interp(") and base.endswith(")"):
                return base[len("interp("):-1]
        if isinstance(e, ast.Call):
            nm = call_attr(e)
            if nm in ("_parse", "parse_method", "parse_pcode"):
                return fresh(f"parse@{fn.name}")
            if nm == "PInterpreter" and e.args:
                return f"interp({eval_expr(e.args[0], fn, local)})"
            if nm in mm.methods and isinstance(e.func, ast.Attribute) and norm(e.func.value) == "self":
                callee = mm.methods[nm]
                args = [eval_expr(a, fn, local) for a in e.args]
                return run_fn(callee, args)
        return "?"

    def run_fn(fn, args, depth=0):
        if depth > 4:
            return "?"
        params = [a.arg for a in fn.node.args.args[1:]]
        local = dict(zip(params, args))
        ret = "?"
        for st in _linear(fn.node.body):
            if isinstance(st, ast.Assign) and len(st.targets) == 1:
                t = st.targets[0]
                v = eval_expr(st.value, fn, local)
                if isinstance(t, ast.Name):
                    local[t.id] = v
                elif isinstance(t, ast.Attribute) and isinstance(t.value, ast.Name) and t.value.id == "self" \
                        and t.attr in ("_program", "_interpreter"):
                    env[f"self.{t.attr}"] = v
                    if fn is f:
                        last_site[0] = st
            elif isinstance(st, ast.Expr) and isinstance(st.value, ast.Call):
                eval_expr(st.value, fn, local)
            elif isinstance(st, ast.Return) and st.value is not None:
                ret = eval_expr(st.value, fn, local)
        return ret

    run_fn(f, [])
    return env["self._program"], (env["self._interpreter"][len("interp("):-1] if env["self._interpreter"].startswith("interp(")
                                   else env["self._interpreter"]), last_site[0]


def _linear(body):
    """Statements on the normal (non-raising) path, descending into try bodies and if-bodies are skipped
    unless they assign the tracked attributes (none do in the checked functions)."""
    for st in body:
        if isinstance(st, ast.Try):
            yield from _linear(st.body)
            yield from _linear(st.orelse)
            yield from _linear(st.finalbody)
        elif isinstance(st, (ast.If, ast.For, ast.While, ast.With)):
            continue
        else:
            yield st
