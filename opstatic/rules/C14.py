"""C14 - Injected code runs once in the current scope, even across edits: lookup-domain agreement.

R14a interrupts must survive a live edit: the merge re-creates interrupts by looking their node ids up
     in the new program tree (_create_interpreter_from_state). Therefore every node handed to
     _register_interrupt must be attached to the program tree - it is a visitor parameter (reached by
     the traversal) or a freshly constructed node that is appended under self._program before it is
     registered - or the merge must also consult the registry that does hold it
     (runtimeinfo._injected_node_map). _get_interpreter_state emits one InterruptState per interrupt.
R14b PInterpreter.inject_node writes no progress attribute (started/completed/child_index/...) of
     a node of self._program: only the new InjectedNode, the interrupt map and tracking records.
R14c injected interrupts are advanced only by tick_iterate_subticks, called from PInterpreter.tick,
     which Engine.tick reaches only under started and not paused/holding/stopping.
Decides where injected code lives relative to what an edit preserves; exactly-once execution of
arbitrary snippets is not decided.
R14d one injection per request: PInterpreter.inject_node and MethodManager.parse_inject_code are called only from the
     engine's inject entry point (Engine.inject_code / _inject_code), once per call and not inside a loop - injecting a
     snippet a second time (for instance "again after a merge, because its node is not completed yet") re-parses it
     from source, so nothing of its progress is kept and its instructions run twice.
R14e injected node ids are fresh for the whole run: runtime records, instance maps and interrupts are keyed by node id, so two
     injected snippets with the same ids shadow each other (the later snippet's node is marked completed by the earlier
     one and never runs). The id generator of the inject parser (the class constructed for it in MethodManager) keeps a
     counter that, outside __init__, is only ever moved on by a non-zero constant (`-= 1` / `+= 1`) - never re-assigned.
R14f commands survive the interpreter swap of a live edit: Engine.on_interpreter_reset builds a new CommandManager for the new
     interpreter. The requests that are executing (and those queued) in the old manager must be handed to the new one - the
     way the pending Restart request already is - or be cancelled and finalized there; dropped, a UOD command started by
     injected code (or by the method, or by the user) is never ticked again, never finalized and stays registered.
R14g an injected `Call macro` makes its own invocation (opstatic/macrocall.py): a caller that arrives while another call of the macro is in
     progress does not join it (see C02 R02e) - joined, the injected code executes zero times or stops the run in the error state.
R14h an injected Block is a block: the block lock (visit_BlockNode.try_acquire_lock), End block and End blocks all take "the locked
     blocks" from one lookup (ProgramNode.get_locked_blocks, which walks the program tree). A Block in injected code runs through
     visit_BlockNode like any other, so its node must be inside that lookup's domain: the injected node is attached under the program
     tree, or the lookup (or each of its callers) also consults the registry of injected nodes. Outside the domain the injected block
     is invisible to the lock (a method block and the injected block are active at once) and to its own `End block` (which ends the
     method's block, or nothing).
"""
from __future__ import annotations

import ast

from ..model import AnchorError, norm, walk_no_nested
from ..util import cfg_of, call_attr, node_calls, assigned_attrs, canon_text

EXPLANATION = __doc__
PI = "openpectus.lang.exec.pinterpreter:PInterpreter"
MM = "openpectus.engine.method_manager:MethodManager"


def run(ctx) -> None:
    _run_main(ctx)
    _r14f(ctx)
    _r14h(ctx)
    ctx.rule("R14g", "an injected Call macro makes its own invocation")
    from ..macrocall import check as _macro_owner
    _macro_owner(ctx, "R14g")


def _run_main(ctx) -> None:
    prog, res = ctx.prog, ctx.res
    for r, d in [("R14a", "registered interrupt nodes are findable by the merge"), ("R14b", "inject_node leaves method progress untouched"),
                 ("R14c", "injected code advances only while the run progresses")]:
        ctx.rule(r, d)
    pi = prog.cls(PI)
    cfs = prog.func(f"{MM}._create_interpreter_from_state")
    ctx.analysed(cfs)
    # where does the merge look interrupt nodes up?
    lookups = set()
    for lp in walk_no_nested(cfs.node):
        if isinstance(lp, ast.For) and "interrupt_states" in norm(lp.iter):
            for c in walk_no_nested(lp):
                if isinstance(c, ast.Call) and call_attr(c) in ("get_child_by_id", "get_node_by_id", "get_known_node_by_id", "get"):
                    lookups.add(norm(c.func))
    if not lookups:
        raise AnchorError("_create_interpreter_from_state: interrupt re-creation loop not recognised")
    consults_injected = any("_injected_node_map" in l or "get_known_node_by_id" in l for l in lookups)
    ctx.extra["merge_interrupt_lookups"] = sorted(lookups)
    n_sites = 0
    for f in pi.methods.values():
        for c in walk_no_nested(f.node):
            if not (isinstance(c, ast.Call) and call_attr(c) == "_register_interrupt" and c.args):
                continue
            n_sites += 1
            ctx.analysed(f)
            a = c.args[0]
            inst = f"{f.short}: _register_interrupt({canon_text(a, f)})"
            params = [p.arg for p in f.node.args.args]
            if isinstance(a, ast.Name) and a.id in params and f.name.startswith("visit_"):
                ctx.ok("R14a", inst + " - node comes from the tree traversal")
                continue
            # locally constructed node?
            constructed = None
            for st in walk_no_nested(f.node):
                if isinstance(st, ast.Assign) and isinstance(st.targets[0], ast.Name) and isinstance(a, ast.Name) \
                        and st.targets[0].id == a.id and isinstance(st.value, ast.Call):
                    constructed = st
            if constructed is None:
                ctx.ok("R14a", inst + " - not a fresh node", trivial=True)
                continue
            g = cfg_of(f)
            cn = g.node_containing(c)[0]
            attached = [n for n in g.nodes if any(call_attr(x) == "append_child" and x.args and norm(x.args[0]) == norm(a)
                                                  and "_program" in norm(x.func) for x in n.calls()) and g.dominates(n, cn)]
            if attached or consults_injected:
                ctx.ok("R14a", inst)
            else:
                ctx.fail("R14a", f, c, inst,
                         f"`{norm(a)}` is constructed here ({norm(constructed.value)[:50]}), never attached to the program tree, and "
                         f"registered as interrupt; the live-edit merge looks interrupt nodes up only via {sorted(lookups)} in the new "
                         f"program tree, does not find it, logs 'cannot be recreated' and drops it: injected code that has not "
                         f"finished vanishes on the next method edit")
    if n_sites < 3:
        raise AnchorError(f"only {n_sites} _register_interrupt call sites found (floor 3)")
    gis = prog.func(f"{MM}._get_interpreter_state")
    ctx.analysed(gis)
    if "InterruptState(" in norm(gis.node) and ".interrupts" in norm(gis.node):
        ctx.ok("R14a", "_get_interpreter_state emits one InterruptState per registered interrupt")
    else:
        ctx.fail("R14a", gis, gis.node, "_get_interpreter_state emits one InterruptState per registered interrupt", "interrupts not exported")
    # ---- R14b
    inj = pi.methods.get("inject_node")
    if inj is None:
        raise AnchorError("PInterpreter.inject_node missing")
    ctx.analysed(inj)
    progress = {"started", "completed", "failed", "child_index", "children_complete", "activated", "block_ended", "lock_acquired"}
    bad = [st for t, v, st in assigned_attrs(inj.node) if t.attr in progress]
    touches_prog = [c for c in walk_no_nested(inj.node) if isinstance(c, ast.Call) and "_program" in norm(c.func)
                    and call_attr(c) in ("reset_runtime_state", "apply_tree_state", "append_child")]
    if not bad and not touches_prog:
        ctx.ok("R14b", "inject_node writes no progress attribute of method nodes")
    else:
        ctx.fail("R14b", inj, (bad or touches_prog)[0], "inject_node writes no progress attribute of method nodes",
                 "injecting code changes which method lines count as started/completed")
    # ---- R14c
    tick = pi.methods["tick"]
    callers = []
    for f in prog.iter_functions():
        for c in walk_no_nested(f.node):
            if isinstance(c, ast.Call) and call_attr(c) == "tick_iterate_subticks":
                callers.append(f)
    inst = "tick_iterate_subticks is driven only by PInterpreter.tick"
    if callers and all(f is tick for f in callers):
        ctx.ok("R14c", inst)
    else:
        ctx.fail("R14c", callers[0] if callers else tick, (callers[0] if callers else tick).node, inst,
                 f"also called from {[f.short for f in callers if f is not tick]}")
    et = prog.func("openpectus.engine.engine:Engine.tick")
    ctx.analysed(et)
    g = cfg_of(et)
    itn = [n for n in g.nodes if any(norm(c.func).endswith("interpreter.tick") for c in n.calls())]
    if not itn:
        raise AnchorError("Engine.tick: interpreter.tick call not found")
    from ..cfg import facts_at
    facts = facts_at(g, itn[0])
    need = {("self._runstate_started", True), ("self._runstate_paused", False), ("self._runstate_holding", False), ("self._runstate_stopping", False)}
    if need <= facts:
        ctx.ok("R14c", "Engine.tick runs the interpreter only when started and not paused/holding/stopping")
    else:
        ctx.fail("R14c", et, itn[0].ast, "Engine.tick runs the interpreter only when started and not paused/holding/stopping",
                 f"guard lacks {sorted(need - facts)}")

    # ---- R14d
    ctx.rule("R14d", "injected code is parsed and injected exactly once per request")
    from ..model import parent_map
    allowed_top = "openpectus.engine.engine_message_handlers"
    targets = [prog.func("openpectus.lang.exec.pinterpreter:PInterpreter.inject_node"),
               prog.func("openpectus.engine.method_manager:MethodManager.parse_inject_code")]
    seen_t = set()
    n_sites = 0
    while targets:
        tgt = targets.pop()
        if tgt.qualname in seen_t:
            continue
        seen_t.add(tgt.qualname)
        sites = []
        for fn in prog.iter_functions():
            for c in walk_no_nested(fn.node):
                if isinstance(c, ast.Call) and call_attr(c) == tgt.name:
                    res_ = ctx.res.resolve_call(c, fn, cha=False)
                    if any(r is tgt for r in res_) or (not res_ and tgt.name.startswith(("inject", "_inject", "parse_inject"))):
                        sites.append((fn, c))
        n_sites += len(sites)
        callers = {f_.qualname for f_, _ in sites}
        for fn, c in sites:
            inst = f"{fn.short}: {norm(c.func)}(...)"
            pm_ = parent_map(fn.node)
            cur, in_loop = pm_.get(id(c)), False
            while cur is not None:
                if isinstance(cur, (ast.For, ast.While, ast.AsyncFor, ast.ListComp, ast.GeneratorExp)):
                    in_loop = True
                cur = pm_.get(id(cur))
            if in_loop:
                ctx.fail("R14d", fn, c, inst, f"{tgt.short} is called inside a loop: injected code is (re-)injected more than once per "
                         "request - a snippet injected again (e.g. after a live edit because its node is not completed yet) is "
                         "re-parsed from source, keeps none of its progress and runs twice")
            elif len(callers) > 1 and fn.module.name != allowed_top:
                ctx.fail("R14d", fn, c, inst, f"{tgt.short} is called from {sorted(x.split(':')[-1] for x in callers)}: code can be injected "
                         "by a path other than the user's request, i.e. a second time")
            else:
                ctx.ok("R14d", inst)
        if len(callers) == 1:
            only = sites[0][0]
            if only.module.name != allowed_top:
                targets.append(only)
    if n_sites < 3:
        raise AnchorError(f"only {n_sites} call sites on the inject chain found (floor 3)")

    # ---- R14e
    ctx.rule("R14e", "the inject parser's id generator never restarts")
    cip = prog.func("openpectus.lang.model.parser:create_inject_parser")
    ctx.analysed(cip)
    gen_cls = None
    for c in walk_no_nested(cip.node):
        if isinstance(c, ast.Call) and call_attr(c) == "PcodeParser":
            for a in list(c.args) + [k.value for k in c.keywords if k.arg == "id_generator"]:
                if isinstance(a, ast.Call):
                    k_ = prog.resolve_class_expr(cip.module, a.func)
                    if k_ is not None:
                        gen_cls = k_
    if gen_cls is None:
        raise AnchorError("method_manager: id generator of the inject parser not found")
    init = gen_cls.methods.get("__init__")
    counters = {t.attr for t, v, st in assigned_attrs(init.node)} if init is not None else set()
    if not counters:
        raise AnchorError(f"{gen_cls.name}.__init__: counter attribute not found")
    n_w = 0
    for k in gen_cls.mro():
        for name, m in k.methods.items():
            if name == "__init__":
                continue
            for n in walk_no_nested(m.node):
                tgt = n.targets[0] if isinstance(n, ast.Assign) and len(n.targets) == 1 else (n.target if isinstance(n, (ast.AugAssign, ast.AnnAssign)) else None)
                if not (isinstance(tgt, ast.Attribute) and tgt.attr in counters and norm(tgt.value) == "self"):
                    continue
                n_w += 1
                inst = f"{k.name}.{name}: {norm(n)}"
                if isinstance(n, ast.AugAssign) and isinstance(n.op, (ast.Add, ast.Sub)) and isinstance(n.value, ast.Constant) \
                        and isinstance(n.value.value, int) and n.value.value != 0:
                    ctx.ok("R14e", inst)
                else:
                    ctx.fail("R14e", m, n, inst, "the counter of the inject parser's id generator is re-assigned: the ids of a later "
                             "injected snippet repeat those of an earlier one in the same run, its records are shadowed and its nodes "
                             "are marked completed by the earlier snippet - the later snippet never runs")
    if n_w == 0:
        raise AnchorError(f"{gen_cls.name}: no counter update found")


def _r14f(ctx, rid: str = "R14f", extra: str = ""):
    ctx.rule(rid, "executing commands are carried over (or finalized) when a live edit swaps the interpreter")
    prog = ctx.prog
    f = prog.func("openpectus.engine.engine:Engine.on_interpreter_reset")
    ctx.analysed(f)
    ctors = [c for c in walk_no_nested(f.node) if isinstance(c, ast.Call) and call_attr(c) == "CommandManager" or (
        isinstance(c, ast.Call) and isinstance(c.func, ast.Name) and c.func.id == "CommandManager")]
    if not ctors:
        raise AnchorError("Engine.on_interpreter_reset: construction of the new CommandManager not found")
    txt = norm(f.node)
    carried = any(x in txt for x in ("cmd_executing", "cmd_queue", "currently_executing"))
    settled = any(isinstance(c, ast.Call) and call_attr(c) in ("cancel_commands", "finalize_commands", "cancel_all_commands") for c in walk_no_nested(f.node))
    inst = "Engine.on_interpreter_reset: the old manager's executing/queued requests reach the new manager or are finalized"
    if carried or settled:
        ctx.ok(rid, inst)
    else:
        ctx.fail(rid, f, ctors[0], inst, "the new CommandManager only receives the pending Restart request: after a live edit (merge) every command "
                 "that was executing is orphaned - a UOD command started by injected code is never ticked again, never completes, is "
                 "never finalized and stays in uod.command_instances (also across Stop); a timed Pause/Hold never ends" + extra)


def _r14h(ctx) -> None:
    ctx.rule("R14h", "blocks of injected code are inside the domain of the block lock and of End block")
    prog = ctx.prog
    pi = prog.cls(PI)
    inj = pi.methods.get("inject_node")
    if inj is None:
        raise AnchorError("PInterpreter.inject_node missing")
    glb = prog.func("openpectus.lang.model.ast:ProgramNode.get_locked_blocks")
    ctx.analysed(glb)
    users = []
    for f in pi.methods.values():
        for c in walk_no_nested(f.node):
            if isinstance(c, ast.Call) and call_attr(c) == "get_locked_blocks":
                users.append((f, c))
        for d in ast.walk(f.node):
            if isinstance(d, ast.FunctionDef) and d is not f.node:
                for c in ast.walk(d):
                    if isinstance(c, ast.Call) and call_attr(c) == "get_locked_blocks" and (f, c) not in users:
                        users.append((f, c))
    if len(users) < 3:
        raise AnchorError(f"only {len(users)} uses of get_locked_blocks in PInterpreter (block lock, End block, End blocks expected)")
    attaches = any(isinstance(c, ast.Call) and call_attr(c) in ("append_child", "add_child", "insert_child") and "_program" in norm(c.func)
                   for c in walk_no_nested(inj.node))
    lookup_sees = "_injected_node_map" in norm(glb.node) or "injected" in norm(glb.node)
    inst = "a Block of injected code is found by ProgramNode.get_locked_blocks"
    blind = [(f, c) for f, c in users if "injected" not in norm(f.node)]
    if attaches or lookup_sees or not blind:
        ctx.ok("R14h", inst, {"rule": "R14h", "users": sorted({f.short for f, _ in users})})
    else:
        f, c = blind[0]
        ctx.fail("R14h", inj, inj.node, inst, f"inject_node keeps the InjectedNode detached from the program tree and {sorted({u.short for u, _ in blind})} "
                 "take the locked blocks from the program tree only: inject `Block: I / Mark: i1 / End block` + `Mark: i2` into `Mark: A / Wait: 1s / "
                 "Mark: B` - the injected End block finds no block to end, Block I waits for ever and `Mark: i2` never runs; injected while the "
                 "method's `Block: X` is about to start, both blocks hold the lock at once and the injected End block ends X (its `Mark: x2` "
                 "and End block never run)")
