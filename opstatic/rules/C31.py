"""C31 - Method saves use optimistic concurrency without lost updates: async check-then-act rule.

R31a atomicity: in the coroutine that saves a method, the branch on the stored method version
     (check) and the assignment of the new method to the engine data (act) must not be separated by
     an `await` unless both lie inside one `async with <asyncio.Lock>` region - either lexically, or
     because every call site of the function is inside such a region (caller-held lock) and awaits the coroutine there
     directly: handed to asyncio.shield / create_task / ensure_future it outlives the region when the caller is cancelled,
     the lock is released in the middle of the check-then-write and a queued save passes its own check.
R31b the rpc to the engine and the write are reachable only under `stored version == submitted version`.
R31c the accepted path bumps `.version` by exactly 1, exactly once, before the write.
R31d ownership: EngineData.method is assigned only by the save path (and the constructor).
R31f the version outlives the connection: the aggregator's engine data is created anew (method version 0) whenever the engine
     re-registers, while the engine keeps the version of the last accepted save and sends its method on every (re)connection. The
     handler that takes over the engine's method lines (handle_MethodMsg) must take over its version as well - `version` assigned
     from an expression that reads `msg.method.version` - and never lower it. Otherwise two saves based on the same version are both
     accepted when the engine reconnects between them.
Decides the shape that makes concurrent saves serialise; does not model the asyncio scheduler itself.
"""
from __future__ import annotations

import ast

from ..model import AnchorError, norm, walk_no_nested, parent_map
from ..util import cfg_of, self_name, assigned_attrs, local_single_defs, expand_local, call_attr
from ..cfg import facts_at

EXPLANATION = __doc__
FF = "openpectus.aggregator.aggregator:FromFrontend"


def _has_await(n) -> bool:
    return any(isinstance(x, ast.Await) for x in n.walk()) or (
        n.kind == "with" and isinstance(n.ast, ast.AsyncWith)) or (n.kind == "for" and isinstance(n.ast, ast.AsyncFor))


def _lock_withs(ctx, f):
    """async-with statements in f whose context expression is (typed as / named like) a lock."""
    out = []
    defs = local_single_defs(f)
    for n in walk_no_nested(f.node):
        if isinstance(n, ast.AsyncWith):
            for it in n.items:
                ts = ctx.res.infer(it.context_expr, f)
                txt = norm(it.context_expr).lower()
                if (any(t.name in ("Lock", "asyncio.Lock") or t.name.endswith("Lock") for t in ts) or "lock" in txt) \
                        and _shared_lock(it.context_expr, f, defs):
                    out.append(n)
    return out


def _shared_lock(e: ast.AST, f, defs) -> bool:
    """The lock object must outlive one invocation: it is read from instance/module state, not
    constructed afresh for this call (`async with asyncio.Lock():` serialises nothing)."""
    e2 = expand_local(e, defs)
    if isinstance(e2, ast.Call) and norm(e2.func).split(".")[-1].endswith("Lock"):
        return False
    for x in ast.walk(e2):
        if isinstance(x, ast.Attribute) and isinstance(x.value, ast.Name) and f.cls is not None \
                and f.node.args.args and x.value.id == f.node.args.args[0].arg:
            return True
        if isinstance(x, ast.Name) and x.id in f.module.constants:
            return True
    return False


def _inside(pm, node, containers) -> bool:
    cur = pm.get(id(node))
    while cur is not None:
        if any(cur is c for c in containers):
            return True
        cur = pm.get(id(cur))
    return False


def _callers_hold_lock(ctx, f) -> tuple[bool, list[str]]:
    """Every call site of f (resolved by name+class) is inside an async-with-lock region."""
    sites = []
    for fn in ctx.prog.iter_functions():
        for c in walk_no_nested(fn.node):
            if isinstance(c, ast.Call) and call_attr(c) == f.name and f in ctx.res.resolve_call(c, fn):
                sites.append((fn, c))
    if not sites:
        return False, []
    ok = True
    desc = []
    for fn, c in sites:
        pm = parent_map(fn.node)
        locked = _inside(pm, c, _lock_withs(ctx, fn))
        # the coroutine must run *within* the region: awaited directly. Wrapped in shield / create_task / ensure_future it
        # keeps running after the awaiting caller was cancelled and the lock released (or is never awaited there at all)
        par = pm.get(id(c))
        direct = isinstance(par, ast.Await)
        if locked and not direct:
            desc.append(f"{fn.short}:DETACHED ({norm(par)[:60] if par is not None else '?'})")
            ok = False
            continue
        desc.append(f"{fn.short}:{'locked' if locked else 'UNLOCKED'}")
        ok = ok and locked
    return ok, desc


def _run_main(ctx) -> None:
    prog = ctx.prog
    ed = prog.cls("openpectus.aggregator.models:EngineData")
    entry = prog.func(f"{FF}.save_method")
    ctx.rule("R31a", "no await between version check and method write outside a lock")
    ctx.rule("R31b", "rpc and write only under version equality")
    ctx.rule("R31c", "version bumped by exactly one, once")
    ctx.rule("R31d", "EngineData.method writers")

    # locate the function that contains the write `X.method = ...` on an EngineData (save_method or a helper it calls)
    cands = [entry]
    for c in walk_no_nested(entry.node):
        if isinstance(c, ast.Call):
            for callee in ctx.res.resolve_call(c, entry):
                if callee.cls is entry.cls and callee not in cands:
                    cands.append(callee)
    target = None
    for f in cands:
        for t, v, st in assigned_attrs(f.node):
            if t.attr == "method" and any(c is ed for c in ctx.res.receiver_classes(t.value, f)):
                target = f
    if target is None:
        raise AnchorError("no assignment `<EngineData>.method = ...` found in save_method or its same-class helpers")
    f = target
    ctx.analysed(entry)
    ctx.analysed(f)
    g = cfg_of(f)
    defs = local_single_defs(f)
    pm = parent_map(f.node)

    writes = [n for n in g.nodes if n.kind == "stmt" and any(
        t.attr == "method" and any(c is ed for c in ctx.res.receiver_classes(t.value, f)) for t, v, st in assigned_attrs(n.ast))]

    def reads_version(e: ast.AST) -> bool:
        e2 = expand_local(e, defs)
        for x in ast.walk(e2):
            if isinstance(x, ast.Name) and x.id in defs and x is not e2:
                if reads_version(defs[x.id]):
                    return True
            if isinstance(x, ast.Attribute) and x.attr == "version" and isinstance(x.value, ast.Attribute) \
                    and x.value.attr == "method" and any(c is ed for c in ctx.res.receiver_classes(x.value.value, f)):
                return True
        return False

    checks = [n for n in g.nodes if n.kind == "test" and reads_version(n.ast)]
    if not checks:
        ctx.fail("R31b", f, f.node, "version check in save path", "no branch on the stored method version found: saves based "
                 "on a stale version would be accepted")
        return
    locks = _lock_withs(ctx, f)
    caller_locked, caller_desc = _callers_hold_lock(ctx, f) if f is not entry else (False, [])
    # ---- R31a
    for chk in checks:
        for w in writes:
            inst = f"{f.short}: check `{norm(chk.ast)}` .. write `{w.text()}`"
            # path chk -> await -> w ?
            awaits = [n for n in g.nodes if _has_await(n)]
            reach_from_chk = g.search([chk.id], lambda n: False, collect=True)
            offending = []
            for a in awaits:
                if a.id in reach_from_chk and w.id in g.search([a.id], lambda n: False, collect=True):
                    offending.append(a)
            if not offending:
                ctx.ok("R31a", inst, {"rule": "R31a", "reason": "no await between check and write"})
                continue
            same_lock = [l for l in locks if _inside(pm, chk.ast, [l]) and _inside(pm, w.ast, [l])
                         and all(_inside(pm, a.ast, [l]) for a in offending)]
            if same_lock or caller_locked:
                ctx.ok("R31a", inst, {"rule": "R31a", "awaits_between": [a.text() for a in offending],
                                      "lock": "lexical async with" if same_lock else f"held by all callers: {caller_desc}"})
            else:
                p = g.search([chk.id], lambda n, a=offending[0]: n.id == a.id) or []
                p2 = g.search([offending[0].id], lambda n: n.id == w.id) or []
                ctx.fail("R31a", f, chk.ast, f"{f.short}: version check .. await .. {norm(w.ast)}",
                         f"`{offending[0].text()}` suspends the coroutine between the version check and the write of the new "
                         f"method and no asyncio lock covers both: two saves based on the same version both pass the check "
                         f"and both are accepted (lost update)", p + p2[1:])
    # ---- R31e: the lock guarding an engine must be the same object for every save of that engine
    lock_attrs = set()
    for fn in (entry, f):
        d = local_single_defs(fn)
        for n in walk_no_nested(fn.node):
            if isinstance(n, ast.AsyncWith):
                for it in n.items:
                    e2 = expand_local(it.context_expr, d)
                    for x in ast.walk(e2):
                        if isinstance(x, ast.Attribute) and isinstance(x.value, ast.Name) and fn.node.args.args \
                                and x.value.id == fn.node.args.args[0].arg:
                            lock_attrs.add(x.attr)
    ctx.rule("R31e", "the per-engine lock object is never removed or replaced")
    for la in sorted(lock_attrs):
        removed = []
        for fn in prog.iter_functions():
            for n in walk_no_nested(fn.node):
                hit = None
                if isinstance(n, ast.Call) and isinstance(n.func, ast.Attribute) and n.func.attr in ("pop", "clear", "popitem") \
                        and isinstance(n.func.value, ast.Attribute) and n.func.value.attr == la:
                    hit = n
                if isinstance(n, ast.Delete) and any(isinstance(t, ast.Subscript) and isinstance(t.value, ast.Attribute)
                                                     and t.value.attr == la for t in n.targets):
                    hit = n
                if isinstance(n, ast.Assign) and fn.name != "__init__" and any(
                        (isinstance(t, ast.Attribute) and t.attr == la) or
                        (isinstance(t, ast.Subscript) and isinstance(t.value, ast.Attribute) and t.value.attr == la) for t in n.targets):
                    hit = n
                if hit is not None:
                    removed.append((fn, hit))
        inst = f"lock table self.{la}: entries are only ever added (setdefault), never removed or replaced"
        if not removed:
            ctx.ok("R31e", inst)
        for fn, hit in removed:
            ctx.fail("R31e", fn, hit, f"{fn.short}: {norm(hit)[:80]}",
                     f"the lock table self.{la} loses or replaces an entry: a coroutine already waiting on (or about to take) the "
                     f"old lock and a later save that creates a fresh lock are no longer serialised, so two saves based on the same "
                     f"version can both pass the version check")
    # ---- R31b
    for n in [x for x in g.nodes if _has_await(x) and any(call_attr(c) == "rpc_call" for c in x.calls())] + writes:
        facts = facts_at(g, n, defs)
        eq = False
        for a, pol in facts:
            if "==" in a and pol and "version" in a:
                eq = True
            if a in defs:
                pass
        # expand: the check uses locals; recompute by looking at dominating test nodes that read the version
        if not eq:
            for chk in checks:
                lab = "F" if _is_neq(expand_local(chk.ast, defs)) else "T"
                if g.edge_dominates(chk.id, lab, n.id):
                    eq = True
        inst = f"{f.short}: {n.text()}"
        if eq:
            ctx.ok("R31b", inst)
        else:
            ctx.fail("R31b", f, n.ast, inst, "reachable without the stored version having been compared equal to the submitted one")
    # ---- R31c
    bumps = []
    for n in g.nodes:
        if n.kind != "stmt":
            continue
        a = n.ast
        if isinstance(a, ast.AugAssign) and isinstance(a.target, ast.Attribute) and a.target.attr == "version":
            bumps.append((n, isinstance(a.op, ast.Add) and isinstance(a.value, ast.Constant) and a.value.value == 1))
        elif isinstance(a, ast.Assign) and any(isinstance(t, ast.Attribute) and t.attr == "version" for t in a.targets):
            v = a.value
            good = isinstance(v, ast.BinOp) and isinstance(v.op, ast.Add) and isinstance(v.right, ast.Constant) \
                and v.right.value == 1 and "version" in norm(v.left)
            bumps.append((n, good))
    if len(bumps) != 1 or not bumps[0][1]:
        ctx.fail("R31c", f, f.node, f"{f.short}: version bump", f"expected exactly one `.version += 1`; found {[b[0].text() for b in bumps]}")
    else:
        b = bumps[0][0]
        in_loop = any(b.id in g.search([s for s, _ in [(d, l) for d, l in g.succ[b.id]]], lambda n: False, collect=True) for _ in [0])
        if in_loop:
            ctx.fail("R31c", f, b.ast, f"{f.short}: {b.text()}", "version bump can execute more than once (lies on a cycle)")
        elif not all(g.dominates(b, w) for w in writes):
            ctx.fail("R31c", f, b.ast, f"{f.short}: {b.text()}", "version bump does not dominate the write of the new method")
        else:
            ctx.ok("R31c", f"{f.short}: {b.text()}")
    # ---- R31d
    for fn in prog.iter_functions():
        for t, v, st in assigned_attrs(fn.node):
            if t.attr == "method" and any(c is ed for c in ctx.res.receiver_classes(t.value, fn)):
                inst = f"{fn.short}: {norm(st)}"
                if fn is f or (fn.cls is ed and fn.name == "__init__"):
                    ctx.ok("R31d", inst)
                else:
                    ctx.fail("R31d", fn, st, inst, "EngineData.method (and its version) assigned outside the versioned save path")
    ctx.floor("R31d", 2)


def _r31f(ctx) -> None:
    prog = ctx.prog
    ctx.rule("R31f", "the method version survives an engine reconnect")
    h = prog.func("openpectus.aggregator.aggregator_message_handlers:AggregatorMessageHandlers.handle_MethodMsg")
    ctx.analysed(h)
    mpar = h.node.args.args[1].arg
    lines_w = [st for t, v, st in assigned_attrs(h.node) if t.attr == "lines" and f"{mpar}.method.lines" in norm(v)]
    if not lines_w:
        raise AnchorError("handle_MethodMsg: adoption of the engine's method lines not found")
    ver_w = [(t, v, st) for t, v, st in assigned_attrs(h.node) if t.attr == "version"]
    inst = "handle_MethodMsg: the engine's method version is adopted together with its lines, never lowered"
    good = False
    for t, v, st in ver_w:
        txt = norm(v)
        if f"{mpar}.method.version" in txt and (txt.startswith("max(") or any(
                f"{mpar}.method.version >" in norm(e) or f"< {mpar}.method.version" in norm(e) for e, pol in cfg_of(h).conditions_at(cfg_of(h).node_containing(st)[0]))):
            good = True
    if good:
        ctx.ok("R31f", inst)
    else:
        ctx.fail("R31f", h, lines_w[0], inst, "only the lines are taken over: after a websocket drop the re-registered engine data starts at version 0 "
                 "although the engine (and every editor that loaded the method) is at version 1 - users A and B load version 0, A saves "
                 "(accepted, version 1), the engine reconnects, B saves on version 0 and is accepted as well, overwriting A's text on the "
                 "aggregator and on the engine")


def _is_neq(e) -> bool:
    return isinstance(e, ast.Compare) and len(e.ops) == 1 and isinstance(e.ops[0], ast.NotEq)


def run(ctx) -> None:
    _run_main(ctx)
    _r31f(ctx)
