"""C13 - Engine ticks never crash; method errors pause the run: the error *discipline* that makes it true.

R13a handler completeness: in Engine.tick the calls self.interpreter.tick(...) and self._command_manager.tick(...)
     lie in the body of a try whose handler list contains a catch-all (except Exception / bare) and in which
     *every* handler reaches self.set_error_state(...) on all of its paths and never re-raises.
R13b set_error_state writes Method Status=Error on every path and System State=Paused and _runstate_paused=True on every
     path on which a run is active (they may be skipped only under `not self._runstate_started`), and the listener fan-out it ends with cannot raise: every EventEmitter.emit_* method
     wraps each listener call in a try with a catch-all handler that does not re-raise.
R13c failure marking and propagation. PInterpreter.visit runs the concrete visitor (super().visit + yield from)
     inside a try whose catch-all handler sets node.failed = True and records self._last_error, without
     re-raising; PInterpreter.tick drains the sub-ticks inside a try with a catch-all handler that records
     _last_error, and afterwards raises an InterpretationError (sub)class on every path where _last_error is
     set; CommandManager._execute_command wraps both execute calls in a try whose catch-all handler calls
     tracking.mark_failed(request) and re-raises (so that Engine.tick pauses the run), every handler of
     CommandManager.execute_commands re-raises, and Tracking.mark_failed sets node.failed.
R13d escape audit of the unprotected part of Engine.tick: for every call in tick that is not inside one of
     the two try bodies (this includes the handler bodies), the transitive set of explicit raise/assert sites
     that can leave it (class-hierarchy resolved callees, depth 4, handlers on the way honoured) is reduced
     to (exception type, raising function) pairs; each pair must be in the justified table below (reason per
     entry) or be raised by a hardware-layer implementation (HardwareLayerBase subclass - the property
     assumes hardware that answers in its declared domain; HardwareLayerException is handled locally).
     The builtins that raise on an empty argument when called without a fallback - next(it), max(xs), min(xs) - count
     as raise sites too (StopIteration / ValueError); other partial builtins need value reasoning and are not tracked.
     A new pair is a violation: an exception out of Engine.tick silently stops the tick timer thread.
R13e responsiveness: Stop is not refused in the Paused state by _validate_control_command, and the merge
     branch of Engine._set_method clears the error state after a successful merge.
R13f the engine's own bookkeeping reads real values: in the tick-phase functions of Engine (update_calculated_tags,
     notify_tag_updates, _validate_control_command, tick itself) and in the control commands' _run, a system tag is read through
     `.value`, never through get_value()/as_float()/as_number(): those return the *simulated* value, and `Simulate: <tag> = <any
     text>` is legal P-code for every tag - a non-numeric Run Time made every tick raise outside the try, a simulated Connection
     Status tripped an assert every tick, a simulated System State made Stop invalid for the rest of the run.
R13g only the user ends the error pause: set_error_state pauses by setting the same `_runstate_paused` flag the Pause command uses. The
     timed Pause resumes by itself when its duration is over (PauseEngineCommand._run calls Unpause's _run after its wait loop); that
     self-resume must be conditional on the engine not being in the error state - otherwise `Pause: 0.3 s` running (or queued) when
     another instruction fails un-pauses the failed run a few ticks later.
R13h marked failed on every path: every normal path through Tracking.mark_failed reaches `node.failed = True` - an early return
     (the run-log exemption for Start/Stop/Restart) leaves `Stop: x` / `Restart: x` out of failed_line_ids although the run is
     paused on their error.
R13i a failed start leaves nothing behind: in CommandManager._execute_internal_command every explicitly raising path after the
     instance was registered (create_internal_command) finalizes/disposes it - left registered, the instance of `Pause: x` is taken
     for the running command by the corrected `Pause: 0.5 s`, which then never ends.
Decides the error discipline; does not decide exceptions raised inside user UOD callbacks or by partial
builtins on runtime values (those need value reasoning), nor RecursionError from deep programs.
"""
from __future__ import annotations

import ast

from ..model import AnchorError, norm, walk_no_nested, parent_map
from ..util import cfg_of, node_calls, call_attr, assigned_attrs
from ..cfg import handler_is_catch_all
from ..effects import Effects

EXPLANATION = __doc__
ENGINE = "openpectus.engine.engine:Engine"
PI = "openpectus.lang.exec.pinterpreter:PInterpreter"
CM = "openpectus.engine.command_manager:CommandManager"

# (exception type, raising function) -> reason it cannot fire from the unprotected part of Engine.tick
JUSTIFIED = {
    ("AssertionError", "Engine.notify_tag_updates"):
        "the *real* value (`.value`, R13f) of Connection Status is only written by ErrorRecoveryDecorator."
        "_update_connection_status with str(enum) of the two-member ConnectionStatusEnum",
    ("AssertionError", "MarkTag.set_value"):
        "class-hierarchy over-approximation of Tag.set_value: the system tags written in tick/set_error_state/"
        "update_calculated_tags are plain Tag objects (Mark is written by the interpreter only, inside the try)",
    ("AssertionError", "SelectTag.set_value"):
        "class-hierarchy over-approximation: SelectTag instances are UOD tags written from read_process_image with "
        "hardware values in their declared domain (property assumption)",
    ("ValueError", "ReadingTag.set_value"):
        "class-hierarchy over-approximation: ReadingTag instances are UOD tags written from read_process_image with "
        "hardware values in their declared domain (property assumption)",
    ("NotImplementedError", "DerivedTag.clear_changes"):
        "class-hierarchy over-approximation: Engine._system_listener/_uod_listener are constructed as ChangeListener",
    ("ValueError", "TagCollection.get"):
        "keys are SystemTagName constants registered by create_system_tags, or register names validated against the "
        "tag collection when the UOD is built (configuration level)",
    ("ValueError", "batched"):
        "OPC-UA batching helper called with the constant positive batch size of the hardware layer",
}


def _handlers_with_call(f, call_pred):
    """(try stmt, call) pairs: calls satisfying call_pred lexically inside the *body* of a try in f."""
    pm = parent_map(f.node)
    out = []
    for c in walk_no_nested(f.node):
        if isinstance(c, ast.Call) and call_pred(c):
            cur, par, tr = c, pm.get(id(c)), None
            while par is not None and par is not f.node:
                if isinstance(par, ast.Try) and any(cur is s for s in par.body):
                    tr = par
                    break
                cur, par = par, pm.get(id(par))
            out.append((tr, c))
    return out


def _handler_reraises(h: ast.ExceptHandler) -> bool:
    return any(isinstance(n, ast.Raise) for st in h.body for n in walk_no_nested(st))


def _handler_must_call(g, h: ast.ExceptHandler, name: str):
    """Witness path from the handler entry to anywhere outside the handler that avoids a call to `name`, or None."""
    hn = [n for n in g.nodes if n.kind == "except" and n.ast is h]
    if not hn:
        raise AnchorError("handler node missing in CFG")
    inside = {id(x) for st in h.body for x in ast.walk(st)}

    def outside(n):
        return n.id != hn[0].id and (n.ast is None or id(n.ast) not in inside)
    return g.search([hn[0].id], outside, blocked=lambda n: node_calls(n, name), follow_exc=True)


def _recv_text(c: ast.Call) -> str:
    return norm(c.func)


def run(ctx) -> None:
    prog, res = ctx.prog, ctx.res
    tick = prog.func(f"{ENGINE}.tick")
    ctx.analysed(tick)
    g = cfg_of(tick)
    ctx.rule("R13a", "interpreter.tick / command_manager.tick inside try with catch-all; every handler must-calls set_error_state")
    ctx.rule("R13b", "set_error_state writes the three state items on all paths; emit_* loops swallow listener exceptions")
    ctx.rule("R13c", "failing instruction is marked failed and the error reaches Engine.tick as an exception")
    ctx.rule("R13d", "escape audit of the unprotected part of Engine.tick against the justified table")
    ctx.rule("R13e", "Stop accepted while Paused; successful merge clears the error state")

    # ---------------------------------------------------------------- R13a
    guarded_trys = []
    for label, pred in (("self.interpreter.tick", lambda c: norm(c.func) in ("self.interpreter.tick", "self._interpreter.tick")),
                        ("self._command_manager.tick", lambda c: norm(c.func) in ("self._command_manager.tick", "self.command_manager.tick"))):
        sites = _handlers_with_call(tick, pred)
        if not sites:
            raise AnchorError(f"Engine.tick no longer calls {label}(...)")
        for tr, c in sites:
            inst = f"Engine.tick: {norm(c)}"
            if tr is None:
                ctx.fail("R13a", tick, c, inst, f"{label} is called outside any try: an exception from the method or a "
                         "command leaves Engine.tick and silently stops the tick timer")
                continue
            guarded_trys.append(tr)
            if not any(handler_is_catch_all(h) for h in tr.handlers):
                ctx.fail("R13a", tick, tr, inst, "the try around the call has no catch-all handler (except Exception): "
                         f"only {[norm(h.type) for h in tr.handlers if h.type is not None]} are handled, anything else leaves Engine.tick")
                continue
            # a catch-all must not be shadowed into uselessness: handlers before it are fine; check each handler
            bad = False
            for h in tr.handlers:
                hname = norm(h.type) if h.type is not None else "<bare>"
                if _handler_reraises(h):
                    ctx.fail("R13a", tick, h, f"{inst} / except {hname}", "handler re-raises: the exception leaves Engine.tick")
                    bad = True
                    continue
                p = _handler_must_call(g, h, "set_error_state")
                if p is not None:
                    ctx.fail("R13a", tick, h, f"{inst} / except {hname}",
                             "a path through this handler does not call set_error_state: the failing method keeps running "
                             "(no pause, Method Status stays OK)", p)
                    bad = True
                else:
                    ctx.ok("R13a", f"{inst} / except {hname}", trivial=True)
            if not bad:
                ctx.ok("R13a", inst, {"rule": "R13a", "call": norm(c), "handlers": [norm(h.type) if h.type else "<bare>" for h in tr.handlers]})
    ctx.floor("R13a", 2)

    # ---------------------------------------------------------------- R13b
    ses = prog.func(f"{ENGINE}.set_error_state")
    ctx.analysed(ses)
    gs = cfg_of(ses)

    def writes_tag(n, tagmember, valmember):
        for c in n.calls():
            if call_attr(c) == "set_value" and tagmember in norm(c.func) and c.args and norm(c.args[0]).endswith(valmember):
                return True
        return False

    def sets_paused(n):
        if n.kind != "stmt" or n.ast is None:
            return False
        return any(t.attr == "_runstate_paused" and isinstance(v, ast.Constant) and v.value is True
                   for t, v, st in assigned_attrs(n.ast))
    for what, pred in (("Method Status := Error", lambda n: writes_tag(n, "METHOD_STATUS", "MethodStatusEnum.ERROR")),
                       ("System State := Paused", lambda n: writes_tag(n, "SYSTEM_STATE", "SystemStateEnum.Paused")),
                       ("_runstate_paused := True", sets_paused)):
        inst = f"set_error_state: {what}"
        if not any(pred(n) for n in gs.nodes):
            ctx.fail("R13b", ses, ses.node, inst, f"set_error_state no longer performs '{what}': a failing instruction does "
                     "not pause the run / is not reported as a method error")
            continue
        # "a failing instruction pauses the run": there is a run to pause. The two pause writes may be skipped when no run is active
        # (the false outcome of a test of the started flag) - an error while idle must not leave the engine Paused without a run.
        def no_run(sid, dd, lab, gs=gs):
            nd = gs.nodes[sid]
            return what != "Method Status := Error" and nd.kind == "test" and norm(nd.ast) == "self._runstate_started" and lab == "F"
        p = gs.search(None, lambda n: n.id == gs.exit.id, blocked=pred, blocked_edge=no_run, follow_exc=False)
        if p is not None:
            ctx.fail("R13b", ses, ses.node, inst, f"a path through set_error_state skips '{what}'", p)
        else:
            ctx.ok("R13b", inst)
    # no explicit raise / assert inside set_error_state itself
    own = [n for n in walk_no_nested(ses.node) if isinstance(n, (ast.Raise, ast.Assert))]
    if own:
        ctx.fail("R13b", ses, own[0], "set_error_state: no raise", "set_error_state itself can raise "
                 f"({norm(own[0])[:80]}): it is called from the exception handlers of Engine.tick")
    else:
        ctx.ok("R13b", "set_error_state: no raise", trivial=True)
    # listener fan-out
    ee = prog.cls("openpectus.lang.exec.events:EventEmitter")
    n_emit = 0
    for name, m in sorted(ee.methods.items()):
        if not name.startswith("emit_"):
            continue
        ctx.analysed(m)
        pm = parent_map(m.node)
        loops = [n for n in walk_no_nested(m.node) if isinstance(n, ast.For) and "_listeners" in norm(n.iter)]
        for lp in loops:
            if not isinstance(lp.target, ast.Name):
                continue
            var = lp.target.id
            for c in walk_no_nested(lp):
                if not (isinstance(c, ast.Call) and isinstance(c.func, ast.Attribute) and isinstance(c.func.value, ast.Name)
                        and c.func.value.id == var):
                    continue
                n_emit += 1
                inst = f"EventEmitter.{name}: {norm(c.func)}"
                cur, par, tr = c, pm.get(id(c)), None
                while par is not None and par is not lp:
                    if isinstance(par, ast.Try) and any(cur is s for s in par.body):
                        tr = par
                        break
                    cur, par = par, pm.get(id(par))
                if tr is None:
                    ctx.fail("R13b", m, c, inst, "listener call not wrapped in try/except inside the fan-out loop: an exception "
                             "in one listener (a tag's lifecycle hook) leaves the emitter - from set_error_state/"
                             "update_calculated_tags that is out of Engine.tick")
                elif not any(handler_is_catch_all(h) for h in tr.handlers):
                    ctx.fail("R13b", m, tr, inst, "the try around the listener call has no catch-all handler")
                elif any(_handler_reraises(h) for h in tr.handlers):
                    ctx.fail("R13b", m, tr, inst, "a handler around the listener call re-raises")
                else:
                    ctx.ok("R13b", inst, trivial=True)
    if n_emit < 16:
        raise AnchorError(f"only {n_emit} listener fan-out calls found in EventEmitter.emit_* (floor 16)")
    # set_error_state ends in the swallowing emitter
    if not any(call_attr(c) == "emit_on_method_error" for c in walk_no_nested(ses.node) if isinstance(c, ast.Call)):
        ctx.notes.append("set_error_state does not call emit_on_method_error (listeners are not told about the error)")

    # ---------------------------------------------------------------- R13c
    visit = prog.func(f"{PI}.visit")
    ctx.analysed(visit)
    sites = _handlers_with_call(visit, lambda c: norm(c.func) == "super().visit")
    if not sites:
        raise AnchorError("PInterpreter.visit no longer dispatches through super().visit(node)")
    for tr, c in sites:
        inst = f"PInterpreter.visit: {norm(c)}"
        if tr is None:
            ctx.fail("R13c", visit, c, inst, "the concrete visitor runs outside any try: a failing instruction is not marked "
                     "failed and its exception tears down the generator chain")
            continue
        # the `yield from` of the result must be in the same try body
        yf = [n for st in tr.body for n in walk_no_nested(st) if isinstance(n, ast.YieldFrom)]
        ca = [h for h in tr.handlers if handler_is_catch_all(h)]
        if not yf:
            ctx.fail("R13c", visit, tr, inst, "the generator returned by the visitor is not driven (yield from) inside the "
                     "try body: exceptions raised while the instruction executes bypass the handler")
        elif not ca:
            ctx.fail("R13c", visit, tr, inst, "no catch-all handler around the concrete visitor: exceptions other than "
                     f"{[norm(h.type) for h in tr.handlers if h.type is not None]} are not recorded as instruction failures")
        else:
            ok = True
            for h in tr.handlers:
                hname = norm(h.type) if h.type is not None else "<bare>"
                sets_failed = any(t.attr == "failed" and isinstance(v, ast.Constant) and v.value is True
                                  for st in h.body for t, v, s in assigned_attrs(st))
                sets_err = any(t.attr == "_last_error" for st in h.body for t, v, s in assigned_attrs(st))
                if _handler_reraises(h):
                    ctx.fail("R13c", visit, h, f"{inst} / except {hname}", "handler re-raises out of the visit generator: the "
                             "main generator is torn down and later ticks find it exhausted")
                    ok = False
                elif not sets_failed:
                    ctx.fail("R13c", visit, h, f"{inst} / except {hname}", "handler does not set node.failed = True: the "
                             "failing instruction is not marked failed in the method state")
                    ok = False
                elif not sets_err:
                    ctx.fail("R13c", visit, h, f"{inst} / except {hname}", "handler does not record self._last_error: "
                             "PInterpreter.tick will not raise, the engine is not paused")
                    ok = False
            if ok:
                ctx.ok("R13c", inst)
    # PInterpreter.tick
    ptick = prog.func(f"{PI}.tick")
    ctx.analysed(ptick)
    sites = _handlers_with_call(ptick, lambda c: call_attr(c) == "tick_iterate_subticks")
    if not sites:
        raise AnchorError("PInterpreter.tick no longer drains tick_iterate_subticks")
    for tr, c in sites:
        inst = f"PInterpreter.tick: {norm(c)}"
        if tr is None or not any(handler_is_catch_all(h) for h in tr.handlers):
            ctx.fail("R13c", ptick, c, inst, "sub-tick iteration is not inside a try with a catch-all handler")
            continue
        ok = True
        for h in tr.handlers:
            if not any(t.attr == "_last_error" for st in h.body for t, v, s in assigned_attrs(st)):
                ctx.fail("R13c", ptick, h, f"{inst} / except {norm(h.type) if h.type else ''}",
                         "handler does not record _last_error: an error raised between instructions is lost")
                ok = False
        if ok:
            ctx.ok("R13c", inst)
    gp = cfg_of(ptick)
    tests = [n for n in gp.nodes if n.kind == "test" and "_last_error" in norm(n.ast) and not any(
        isinstance(x, ast.ExceptHandler) for x in _ancestors(ptick, n.ast))]
    final = [n for n in tests if isinstance(n.ast, ast.Compare) and isinstance(n.ast.ops[0], ast.IsNot)]
    if not final:
        raise AnchorError("PInterpreter.tick: `if self._last_error is not None` test not found")
    interp_err = prog.cls("openpectus.lang.exec.errors:InterpretationError")
    for t in final:
        inst = f"PInterpreter.tick: {t.text()} -> raise"
        p = gp.search([(t.id, "T")], lambda n: n.id == gp.exit.id, follow_exc=False)
        if p is not None:
            ctx.fail("R13c", ptick, t.ast, inst, "a path with _last_error set returns normally: the engine does not learn of "
                     "the failure and keeps running the method", p)
            continue
        # the raised classes are InterpretationError subclasses
        reach = gp.reachable([(t.id, "T")], follow_exc=False)
        bad = []
        for nid in reach:
            a = gp.nodes[nid].ast
            if isinstance(a, ast.Raise) and a.exc is not None:
                e = a.exc.func if isinstance(a.exc, ast.Call) else a.exc
                k = prog.resolve_class_expr(ptick.module, e)
                if k is None or not k.is_subclass_of(interp_err):
                    bad.append(norm(a))
        if bad:
            ctx.fail("R13c", ptick, t.ast, inst, f"raises something that is not an InterpretationError: {bad}")
        else:
            ctx.ok("R13c", inst)
    # CommandManager._execute_command / execute_commands
    xc = prog.func(f"{CM}._execute_command")
    ctx.analysed(xc)
    sites = _handlers_with_call(xc, lambda c: call_attr(c) in ("_execute_internal_command", "_execute_uod_command"))
    if len(sites) < 2:
        raise AnchorError("CommandManager._execute_command: internal/uod execute calls not found")
    for tr, c in sites:
        inst = f"CommandManager._execute_command: {norm(c.func)}"
        ca = [h for h in (tr.handlers if tr is not None else []) if handler_is_catch_all(h)]
        if not ca:
            ctx.fail("R13c", xc, c, inst, "command execution is not inside a try with a catch-all handler: a failing command "
                     "is not marked failed in the run log / method state")
            continue
        h = ca[0]
        marks = any(isinstance(n, ast.Call) and call_attr(n) == "mark_failed" for st in h.body for n in walk_no_nested(st))
        if not marks:
            ctx.fail("R13c", xc, h, inst, "catch-all handler does not call tracking.mark_failed(request)")
        elif not _handler_ends_in_raise(h):
            ctx.fail("R13c", xc, h, inst, "catch-all handler swallows the exception: Engine.tick never sees the failure, the "
                     "run is not paused")
        else:
            ctx.ok("R13c", inst)
    xcs = prog.func(f"{CM}.execute_commands")
    ctx.analysed(xcs)
    sites = _handlers_with_call(xcs, lambda c: call_attr(c) == "_execute_command")
    if not sites:
        raise AnchorError("CommandManager.execute_commands no longer calls _execute_command")
    for tr, c in sites:
        if tr is None:
            ctx.ok("R13c", "CommandManager.execute_commands: no handler (exception propagates)", trivial=True)
            continue
        for h in tr.handlers:
            inst = f"CommandManager.execute_commands / except {norm(h.type) if h.type else ''}"
            if _handler_ends_in_raise(h):
                ctx.ok("R13c", inst)
            else:
                ctx.fail("R13c", xcs, h, inst, "handler swallows the command's exception: Engine.tick never pauses the run")
    mf = prog.func("openpectus.lang.exec.tracking:Tracking.mark_failed")
    ctx.analysed(mf)
    if any(t.attr == "failed" and isinstance(v, ast.Constant) and v.value is True for t, v, s in assigned_attrs(mf.node)):
        ctx.ok("R13c", "Tracking.mark_failed sets node.failed = True")
    else:
        ctx.fail("R13c", mf, mf.node, "Tracking.mark_failed sets node.failed = True", "mark_failed no longer marks the node failed")
    ctx.floor("R13c", 7)

    # ---------------------------------------------------------------- R13d
    depth = 4 if ctx.tier == "quick" else 6
    orig = res.resolve_call
    eff = Effects(prog, _CHA(res, orig), partial_builtins=True)
    hw = prog.cls("openpectus.engine.hardware:HardwareLayerBase")
    hw_names = {hw.name} | {c.name for c in hw.all_subclasses()}
    protected = {id(x) for tr in guarded_trys for st in tr.body for x in ast.walk(st)}
    seen_pairs: dict[tuple, list] = {}
    n_calls = 0
    for c in walk_no_nested(tick.node):
        if not isinstance(c, ast.Call) or id(c) in protected:
            continue
        n_calls += 1
        for e in eff.call_escapes(c, tick, depth):
            fn = e.site.split(":")[0]
            seen_pairs.setdefault((e.exc, fn), []).append((c, e))
    # explicit raise/assert directly in the unprotected part of tick
    for n in walk_no_nested(tick.node):
        if isinstance(n, (ast.Raise, ast.Assert)) and id(n) not in protected:
            seen_pairs.setdefault(("AssertionError" if isinstance(n, ast.Assert) else "raise", "Engine.tick"), []).append((n, None))
    # partial builtins called directly in the unprotected part (handled by no enclosing try of tick itself)
    pm_tick = parent_map(tick.node)
    for n in walk_no_nested(tick.node):
        if isinstance(n, ast.Call) and id(n) not in protected and isinstance(n.func, ast.Name) and n.func.id in ("next", "max", "min") \
                and len(n.args) == 1 and not n.keywords and not isinstance(n.args[0], (ast.List, ast.Tuple, ast.Set, ast.Dict, ast.Constant)):
            exc = "StopIteration" if n.func.id == "next" else "ValueError"
            if not eff._caught(pm_tick, n, tick, exc):
                seen_pairs.setdefault((exc, "Engine.tick"), []).append((n, None))
    ctx.extra["r13d_unprotected_calls"] = n_calls
    ctx.extra["r13d_inline_depth"] = depth
    ctx.extra["r13d_pairs"] = sorted(f"{a} in {b}" for a, b in seen_pairs)
    for (exc, fn), lst in sorted(seen_pairs.items()):
        inst = f"Engine.tick unprotected: {exc} from {fn}"
        cls_name = fn.split(".")[0]
        if cls_name in hw_names:
            ctx.ok("R13d", inst, {"rule": "R13d", "pair": inst, "exempt": "hardware-layer implementation (property assumption)"},
                   trivial=True)
        elif (exc, fn) in JUSTIFIED:
            ctx.ok("R13d", inst, {"rule": "R13d", "pair": inst, "justified": JUSTIFIED[(exc, fn)]})
        else:
            c, e = lst[0]
            chain = " > ".join(e.chain) if e is not None else "Engine.tick"
            ctx.fail("R13d", tick, c, inst, f"a {exc} raised in {fn} can leave Engine.tick through the unprotected call "
                     f"`{norm(c)[:70]}` (chain {chain}; site {e.site if e else norm(c)[:80]}): an exception out of tick "
                     "stops the engine's tick timer thread silently")
    if n_calls < 8:
        raise AnchorError(f"only {n_calls} unprotected calls found in Engine.tick (floor 8)")

    # ---------------------------------------------------------------- R13f
    ctx.rule("R13f", "engine bookkeeping reads the real value of system tags, not the simulation mask")
    from ..util import local_single_defs as _lsd13
    eng_cls = prog.cls(ENGINE)
    impl_mod = prog.module("openpectus.engine.internal_commands_impl")
    scope = [eng_cls.methods[m_] for m_ in ("tick", "update_calculated_tags", "notify_tag_updates", "_validate_control_command") if m_ in eng_cls.methods]
    scope += [c_.methods["_run"] for c_ in impl_mod.classes.values() if "_run" in c_.methods]
    n_reads = 0
    for fn in scope:
        d_ = _lsd13(fn)
        for c in walk_no_nested(fn.node):
            if not (isinstance(c, ast.Call) and isinstance(c.func, ast.Attribute) and c.func.attr in ("get_value", "as_float", "as_number", "as_str")):
                continue
            recv = c.func.value
            recv = d_.get(recv.id, recv) if isinstance(recv, ast.Name) else recv
            if "_system_tags" not in norm(recv):
                continue
            n_reads += 1
            ctx.analysed(fn)
            ctx.fail("R13f", fn, c, f"{fn.short}: `{norm(c)[:60]}` reads a system tag's real value", "this returns the simulated value while the tag is "
                     "simulated; a method may simulate any tag with any text, so the engine's arithmetic / state tests / asserts on it can "
                     "raise in every tick outside the try, or refuse Stop for the rest of the run")
    vals = sum(1 for fn in scope for a in walk_no_nested(fn.node) if isinstance(a, ast.Attribute) and a.attr == "value" and isinstance(a.ctx, ast.Load)
               and "_system_tags" in norm(_lsd13(fn).get(a.value.id, a.value) if isinstance(a.value, ast.Name) else a.value))
    if n_reads == 0:
        if vals < 3:
            raise AnchorError(f"R13f: only {vals} real-value reads of system tags found in the engine's bookkeeping (floor 3)")
        ctx.ok("R13f", f"{vals} reads of system tags in the engine's bookkeeping use `.value`", {"rule": "R13f", "functions": [f_.short for f_ in scope]})
    # ---------------------------------------------------------------- R13g
    ctx.rule("R13g", "a timed Pause does not resume a run that is paused on an error")
    pc = impl_mod.classes.get("PauseEngineCommand")
    if pc is None or "_run" not in pc.methods:
        raise AnchorError("PauseEngineCommand._run missing")
    prun = pc.methods["_run"]
    ctx.analysed(prun)
    gp = cfg_of(prun)
    d13 = _lsd13(prun)

    def is_yield13(n):
        return n.kind == "stmt" and isinstance(n.ast, ast.Expr) and isinstance(n.ast.value, (ast.Yield, ast.YieldFrom))
    resumes = []
    for n in gp.nodes:
        for c in n.calls():
            if call_attr(c) == "_run" and isinstance(c.func.value, ast.Name) and "Unpause" in norm(d13.get(c.func.value.id, c.func.value)):
                resumes.append(n)
            elif call_attr(c) == "_run" and "Unpause" in norm(c.func.value):
                resumes.append(n)
    after_wait = [n for n in resumes if any(is_yield13(y) and gp.search([y.id], lambda x, n=n: x.id == n.id, follow_exc=False) is not None for y in gp.nodes)]
    if not after_wait:
        raise AnchorError("PauseEngineCommand._run: the self-resume (Unpause._run after the wait loop) was not found")
    inst = "PauseEngineCommand._run: the resume at the end of the duration is conditional on the error state"
    ok_g = all(any("error" in norm(e).lower() for e, pol in gp.conditions_at(n)) for n in after_wait)
    if ok_g:
        ctx.ok("R13g", inst)
    else:
        ctx.fail("R13g", prun, after_wait[0].ast, inst, "the timer expiry un-pauses unconditionally, and the error pause is the same _runstate_paused "
                 "flag: `Watch: Run Counter >= 0 / Wait: 0.2 s / CmdWithArgs: FAIL`, `Wait: 0.3 s`, `Pause: 0.3 s`, `Mark: B` - the command "
                 "fails in the tick in which the Pause is queued (Paused/Error); the Pause starts, expires 0.3 s later and resumes: System "
                 "State Running, Method Status still Error, Mark: B runs")
    # ---------------------------------------------------------------- R13h
    ctx.rule("R13h", "mark_failed marks the node on every path")
    mf_ = prog.func("openpectus.lang.exec.tracking:Tracking.mark_failed")
    gmf = cfg_of(mf_)
    sets = [n for n in gmf.nodes if n.kind == "stmt" and any(t.attr == "failed" and isinstance(v, ast.Constant) and v.value is True for t, v, st in assigned_attrs(n.ast))]
    if not sets:
        raise AnchorError("Tracking.mark_failed: node.failed = True not found")
    upar = [a.arg for a in mf_.node.args.args if a.arg not in ("self",)][1:2]

    def upd_off(sid, dd, lab):
        nd = gmf.nodes[sid]
        return nd.kind == "test" and upar and norm(nd.ast) == upar[0] and lab == "F"      # update_node=False is the caller's choice
    inst0 = "Tracking.mark_failed: every normal path sets node.failed = True"
    cut: set = set()        # (test id, label) edges of exits already reported: each early exit is its own construct
    n_bad = 0
    while n_bad < 8:
        pth = gmf.search(None, lambda n: n.id == gmf.exit.id, blocked=lambda n: any(n.id == s_.id for s_ in sets), follow_exc=False,
                         blocked_edge=lambda sid, dd, lab: upd_off(sid, dd, lab) or (sid, lab) in cut)
        if pth is None:
            break
        n_bad += 1
        tests_on = [(i, n) for i, n in enumerate(pth) if n.kind == "test"]
        if not tests_on:
            ctx.fail("R13h", mf_, mf_.node, inst0, "mark_failed reaches its end without marking the node", pth)
            break
        i, lt = tests_on[-1]
        lab = next((l for d, l in gmf.succ[lt.id] if d == pth[i + 1].id), "")
        cut.add((lt.id, lab))
        ctx.fail("R13h", mf_, lt.ast, inst0 + f" [exit after `{norm(lt.ast)[:60]}`]", "mark_failed returns early without touching the node: `Mark: A / "
                 "Stop: x / Mark: B` enters the error state (EngineError: Failed to initialize arguments 'x') but failed_line_ids stays [] - "
                 "the failing instruction is not marked failed in the method state (same for `Restart: x`)", pth)
    if n_bad == 0:
        ctx.ok("R13h", inst0)
    # ---------------------------------------------------------------- R13i
    ctx.rule("R13i", "an internal command that fails to start is not left registered")
    xi = prog.func(f"{CM}._execute_internal_command")
    ctx.analysed(xi)
    gx = cfg_of(xi)
    acq = [n for n in gx.nodes if n.ast is not None and any(call_attr(c) == "create_internal_command" for c in n.calls())]
    if not acq:
        raise AnchorError("_execute_internal_command: create_internal_command not found")

    def disposes(n) -> bool:
        return n.ast is not None and any(call_attr(c) in ("finalize", "_finalize_command", "dispose_command") for c in n.calls())

    def implicit(sid, dd, lab):
        # only explicit raise statements (and what handlers re-raise) are followed to the raising exit
        src = gx.nodes[sid]
        if lab != "exc":
            return False
        if src.kind == "stmt" and isinstance(src.ast, ast.Raise):
            return False
        if dd == gx.raise_exit.id:
            return True
        return not src.calls()         # into a handler: only a call can raise what the handlers of this function catch
    for n in acq:
        inst = "_execute_internal_command: the registered instance is finalized on every explicitly raising exit"
        pth = gx.search([(n.id, "")], lambda x: x.id == gx.raise_exit.id, blocked=disposes, blocked_edge=implicit, follow_exc=True)
        if pth is None:
            ctx.ok("R13i", inst)
        else:
            ctx.fail("R13i", xi, n.ast, inst, "the instance is registered before its arguments are validated and the failure path raises without "
                     "disposing it: `Mark: A / Pause: x / Mark: B` fails (correct), the user corrects the line to `Pause: 0.5 s` - the new "
                     "request finds the stale instance as 'running', ticks it (no duration in its kvargs) and the pause never ends; the "
                     "instance also survives Stop/Start", pth)
    # ---------------------------------------------------------------- R13e
    vcc = prog.func(f"{ENGINE}._validate_control_command")
    ctx.analysed(vcc)
    gv = cfg_of(vcc)
    stop_tests = [n for n in gv.nodes if n.kind == "test" and "EngineCommandEnum.STOP" in norm(n.ast)]
    if not stop_tests:
        raise AnchorError("_validate_control_command: STOP branch not found")
    st = stop_tests[0]
    reach = gv.reachable([(st.id, "T")], follow_exc=False)
    refused = []
    for nid in reach:
        n = gv.nodes[nid]
        if n.kind == "test" and n.id != st.id and "EngineCommandEnum" not in norm(n.ast):
            refused.append(norm(n.ast))
    # only tests before the next elif belong to the branch: restrict to tests dominated by T edge and not by F edge
    branch_tests = [gv.nodes[nid] for nid in reach if gv.nodes[nid].kind == "test" and nid != st.id
                    and gv.edge_dominates(st.id, "T", nid)]
    txt = " ; ".join(norm(n.ast) for n in branch_tests)
    if "Paused" in txt or "_runstate_paused" in txt or "has_error_state" in txt or "_last_error" in txt:
        ctx.fail("R13e", vcc, branch_tests[0].ast, "Stop is accepted while Paused", "the STOP branch of _validate_control_command "
                 f"tests the paused/error state ({txt}): an engine paused by a method error may refuse Stop")
    else:
        ctx.ok("R13e", "Stop is accepted while Paused", {"rule": "R13e", "stop_branch_tests": txt})
    sm = prog.func(f"{ENGINE}._set_method") if prog.try_func(f"{ENGINE}._set_method") else prog.func(f"{ENGINE}.set_method")
    ctx.analysed(sm)
    gm = cfg_of(sm)
    merges = [n for n in gm.nodes if node_calls(n, "merge_method")]
    if not merges:
        raise AnchorError("Engine._set_method: merge_method call not found")
    for mnode in merges:
        inst = "Engine._set_method: merge then clear_error_state"
        # every normal path from the merge to a return passes `clear_error_state` or the F edge of has_error_state()
        def cleared(n):
            return node_calls(n, "clear_error_state")
        p = gm.search([mnode.id], lambda n: n.id == gm.exit.id, blocked=cleared, follow_exc=False,
                      blocked_edge=lambda s, d, l: gm.nodes[s].kind == "test" and "has_error_state" in norm(gm.nodes[s].ast) and l == "F")
        if p is not None:
            ctx.fail("R13e", sm, mnode.ast, inst, "after a successful merge a path returns with the error state still set: a "
                     "corrected method does not bring the engine out of Method Status Error", p)
        else:
            ctx.ok("R13e", inst)


def _ancestors(f, node):
    pm = parent_map(f.node)
    cur = pm.get(id(node))
    while cur is not None:
        yield cur
        cur = pm.get(id(cur))


def _handler_ends_in_raise(h: ast.ExceptHandler) -> bool:
    """Every path through the handler body ends in `raise` (body's last top-level statement is a raise, and no return/continue/break before)."""
    if not h.body or not isinstance(h.body[-1], ast.Raise):
        return False
    for st in h.body[:-1]:
        for n in walk_no_nested(st):
            if isinstance(n, (ast.Return, ast.Continue, ast.Break)):
                return False
    return True


class _CHA:
    """Resolver proxy that always resolves with class-hierarchy analysis (all subclass overrides)."""

    def __init__(self, res, orig):
        self._res, self._orig = res, orig

    def resolve_call(self, call, f, cha=True):
        return self._orig(call, f, cha=True)

    def __getattr__(self, k):
        return getattr(self._res, k)
