"""C26 - Protocol messages round-trip through JSON: type-level JSON safety + envelope structure.

R26a For every MessageBase subclass defined in the three protocol namespaces (messages,
     engine_messages, aggregator_messages) the closure of its field annotations (through every
     pydantic model / enum it mentions) contains no JSON-lossy type: a dict whose key type is not
     str (JSON object keys are strings: int/float keys come back as str), bytes, Decimal, complex,
     bare Any/object/Callable, or a non-pydantic, non-enum repo class.
R26c no model in the field closure of a protocol message customises its own serialisation or validation (no @model_serializer /
     @field_serializer / validators / computed fields / Annotated serialisers, no override of model_dump / model_validate /
     __init__): with plain pydantic models the JSON form is determined by the field types R26a examines.
R26b envelope: serialize() writes `_type` (= type(msg).__qualname__) and `_ns` (= msg.__module__);
     deserialize()'s body is one try whose handler raises ProtocolDeserializationException; the
     namespace is selected from the fixed list of exactly the three protocol modules and unknown
     names are rejected before use; the constructed object is checked to be a MessageBase; no two
     message classes in one namespace share a name; every concrete subclass of MessageBase lives in
     one of the three namespaces.
R26d one encoder: what serialize() returns is a python-mode dump, not JSON text; the only encoder whose output json.loads
     restores for every value R26a admits (non-finite floats as Infinity/NaN tokens, lone surrogates escaped) is json.dumps.
     Every call of the protocol serialize() must therefore be the argument of json.dumps - a dump handed as a dict to a
     library's own encoder (the rpc library's pydantic model_dump_json, httpx `json=`) writes null for inf/nan and cannot
     encode surrogates.
R26e the python-mode dump is accepted by that encoder: while serialize() calls model_dump() without mode="json", no field in
     the closure of a protocol message is a set/frozenset (json.dumps raises TypeError on a set).
Decides the type-level necessary condition; float edge values (NaN) and value equality after the
round trip are not decided.
"""
from __future__ import annotations

import ast

from ..model import AnchorError, ClassInfo, norm, walk_no_nested
from ..util import cfg_of, call_attr
from ..cfg import handler_is_catch_all
from ..resolve import class_type

EXPLANATION = __doc__
NAMESPACES = ["openpectus.protocol.aggregator_messages", "openpectus.protocol.engine_messages", "openpectus.protocol.messages"]
LOSSY_NAMES = {"bytes": "bytes is not JSON serialisable", "bytearray": "bytearray is not JSON serialisable",
               "Decimal": "Decimal does not survive model_dump()+json", "complex": "complex is not JSON serialisable",
               "Any": "untyped field: nothing guarantees a JSON-safe value", "object": "untyped field",
               "Callable": "callables cannot be serialised"}
SCALARS = {"str", "int", "float", "bool", "None", "NoneType", "datetime", "date", "UUID"}


def _ancestors(pm, n):
    while id(n) in pm:
        n = pm[id(n)]
        yield n


def _is_model(c: ClassInfo) -> bool:
    return c.has_ext_base("BaseModel")


def _is_enum(c: ClassInfo) -> bool:
    return any(c.has_ext_base(b) for b in ("Enum", "StrEnum", "IntEnum"))


def _is_str_enum(c: ClassInfo) -> bool:
    return c.has_ext_base("StrEnum") or (c.has_ext_base("Enum") and c.has_ext_base("str"))


def run(ctx) -> None:
    prog, res = ctx.prog, ctx.res
    ctx.rule("R26a", "no JSON-lossy type in the field closure of any protocol message")
    ctx.rule("R26b", "serialize/deserialize envelope structure")
    base = prog.cls("openpectus.protocol.messages:MessageBase")
    msgs = [base] + base.all_subclasses()
    msgs = [c for c in msgs if not c.module.is_test]
    checked_fields = 0
    seen_models: set[str] = set()

    def fields(c: ClassInfo):
        out = []
        for k in reversed(c.mro()):
            for name, ann in k.class_attr_ann.items():
                if name.startswith("_") or norm(ann).startswith("ClassVar"):
                    continue
                out.append((k, name, ann))
        return out

    set_fields: list = []

    def check_type(ts, owner: ClassInfo, field: str, path: str, depth: int = 0):
        nonlocal checked_fields
        if depth > 8:
            return
        for t in ts:
            if t.cls is not None:
                if _is_enum(t.cls):
                    continue
                if _is_model(t.cls):
                    if t.cls.qualname not in seen_models:
                        seen_models.add(t.cls.qualname)
                        for (k, name, ann) in fields(t.cls):
                            checked_fields += 1
                            inst = f"{t.cls.name}.{name}: {norm(ann)}"
                            before = len(ctx.findings)
                            check_type(res.ann_types(k.module, ann), t.cls, name, inst, depth + 1)
                            if len(ctx.findings) == before:
                                ctx.ok("R26a", inst, trivial=norm(ann) in SCALARS)
                    continue
                ctx.fail("R26a", None, owner.node, path, f"field type {t.cls.qualname} is neither a pydantic model nor an enum",
                         function=owner.qualname, file=owner.module.relpath)
                continue
            if t.name in ("set", "Set", "frozenset", "FrozenSet", "AbstractSet"):
                set_fields.append((owner, field, path))
            if t.name in LOSSY_NAMES:
                ctx.fail("R26a", None, owner.class_attr_ann.get(field, owner.node), path, LOSSY_NAMES[t.name],
                         function=owner.qualname, file=owner.module.relpath)
                continue
            if t.name in ("dict", "Dict", "Mapping"):
                if t.args:
                    bad = []
                    for kt in t.args[0]:
                        if kt.name == "str" or (kt.cls is not None and _is_str_enum(kt.cls)):
                            continue
                        bad.append(repr(kt))
                    if bad:
                        ctx.fail("R26a", None, owner.class_attr_ann.get(field, owner.node), path,
                                 f"dict key type {sorted(bad)} does not survive JSON: object keys are strings, so the key 1 comes "
                                 f"back as '1' and the deserialised message differs from the original",
                                 function=owner.qualname, file=owner.module.relpath)
                    if len(t.args) > 1:
                        check_type(t.args[1], owner, field, path, depth + 1)
                continue
            for a in t.args:
                check_type(a, owner, field, path, depth + 1)

    for c in msgs:
        if c.qualname in seen_models:
            continue
        check_type(frozenset({class_type(c)}), c, "", c.name)
    ctx.extra["message_classes"] = len(msgs)
    ctx.extra["models_in_closure"] = len(seen_models)
    ctx.extra["fields_checked"] = checked_fields
    if len(msgs) < 20 or checked_fields < 80:
        raise AnchorError(f"only {len(msgs)} message classes / {checked_fields} fields found (floors 20 / 80)")

    # ---- R26d / R26e
    ctx.rule("R26d", "every serialize() result is encoded by json.dumps")
    ctx.rule("R26e", "the python-mode dump contains nothing json.dumps rejects")
    ser = prog.func("openpectus.protocol.serialization:serialize")
    ctx.analysed(ser)
    dumps = [c for c in walk_no_nested(ser.node) if isinstance(c, ast.Call) and call_attr(c) == "model_dump"]
    if not dumps:
        raise AnchorError("serialize(): no model_dump() call")
    json_mode = all(any(k.arg == "mode" and isinstance(k.value, ast.Constant) and k.value.value == "json" for k in c.keywords) for c in dumps)
    for owner, field, path in set_fields:
        inst = f"{path} is a set in a python-mode dump"
        if json_mode:
            ctx.ok("R26e", inst)
        else:
            ctx.fail("R26e", None, owner.class_attr_ann.get(field, owner.node), inst, "serialize() returns model_dump() in python mode, "
                     "which keeps this field a set: json.dumps(serialize(msg)) - the encoding both dispatchers use for rpc results - "
                     "raises TypeError, so the message does not survive serialization to JSON", function=owner.qualname,
                     file=owner.module.relpath)
    if not set_fields:
        ctx.ok("R26e", "no set-typed field in the closure")
    from ..model import parent_map
    n_sites = 0
    for mod in prog.modules.values():
        if mod.is_test or not mod.name.startswith("openpectus.protocol") or mod is ser.module:
            continue
        imports_ser = any(isinstance(st, ast.ImportFrom) and (st.module or "").endswith("protocol.serialization")
                          and any(a.name == "serialize" for a in st.names) for st in mod.tree.body)
        if not imports_ser:
            continue
        pm = parent_map(mod.tree)
        for c in ast.walk(mod.tree):
            if not (isinstance(c, ast.Call) and isinstance(c.func, ast.Name) and c.func.id == "serialize"):
                continue
            n_sites += 1
            names = [x.name for x in _ancestors(pm, c) if isinstance(x, (ast.FunctionDef, ast.AsyncFunctionDef, ast.ClassDef))]
            where = ".".join(reversed(names))
            scope = next((x for x in _ancestors(pm, c) if isinstance(x, (ast.FunctionDef, ast.AsyncFunctionDef))), mod.tree)
            par = pm.get(id(c))
            direct = isinstance(par, ast.Call) and norm(par.func) in ("json.dumps", "dumps") and par.args and par.args[0] is c
            via_local = False
            if isinstance(par, ast.Assign) and len(par.targets) == 1 and isinstance(par.targets[0], ast.Name):
                v = par.targets[0].id
                uses = [u for u in ast.walk(scope) if isinstance(u, ast.Name) and u.id == v and isinstance(u.ctx, ast.Load)
                        and u.lineno >= par.lineno]
                via_local = bool(uses) and all(isinstance(pm.get(id(u)), ast.Call) and norm(pm[id(u)].func) in ("json.dumps", "dumps")
                                               and pm[id(u)].args and pm[id(u)].args[0] is u for u in uses)
            inst = f"{where}: `{norm(par if par is not None else c)[:70]}` is encoded by json.dumps"
            if direct or via_local:
                ctx.ok("R26d", inst)
            else:
                ctx.fail("R26d", None, c, inst, "the python-mode dump is handed on as a dict and encoded by the transport's own encoder "
                         "(pydantic model_dump_json inside the rpc library): inf/-inf/nan are written as null - a tag value arrives "
                         "as None, a required float field makes the receiver reject the whole message - and a str with a lone "
                         "surrogate cannot be encoded at all; the same message does round-trip through json.dumps/json.loads",
                         function=f"{mod.name}:{where}", file=mod.relpath)
    ctx.floor("R26d", 6)

    # ---- R26c: no model in the closure customises its own (de)serialisation
    ctx.rule("R26c", "no protocol model customises how it is dumped or validated")
    HOOKS = ("model_serializer", "field_serializer", "model_validator", "field_validator", "validator", "root_validator",
             "computed_field", "PlainSerializer", "WrapSerializer", "BeforeValidator", "AfterValidator", "WrapValidator", "PlainValidator")
    OVERRIDES = ("model_dump", "model_dump_json", "dict", "json", "model_validate", "model_post_init", "__get_pydantic_core_schema__",
                 "__init__")
    n_models = 0
    for q in sorted(seen_models | {c.qualname for c in msgs}):
        k = prog.cls(q)
        if k is None or k.module.is_test:
            continue
        n_models += 1
        bad = []
        for mname, m_ in k.methods.items():
            decos = [d.split("(")[0].split(".")[-1] for d in m_.decorators]
            if any(d in HOOKS for d in decos):
                bad.append((m_, f"@{[d for d in decos if d in HOOKS][0]} {mname}"))
            elif mname in OVERRIDES:
                bad.append((m_, f"override of {mname}"))
        for name, ann in k.class_attr_ann.items():
            txt = norm(ann)
            if any(h + "(" in txt for h in HOOKS):
                bad.append((None, f"field {name}: {txt[:60]}"))
        inst = f"{k.name}: plain pydantic dump / validate"
        if not bad:
            ctx.ok("R26c", inst, trivial=True)
        else:
            m_, what = bad[0]
            ctx.fail("R26c", m_, (m_.node if m_ is not None else k.node), inst, f"{what}: a hook that rewrites the dumped or the validated form of a "
                     "protocol model makes the JSON form depend on code, not on the field types - values the hook drops or maps "
                     "(False, 0, '', an empty list) do not come back as sent", function=(None if m_ is not None else k.qualname),
                     file=(None if m_ is not None else k.module.relpath))
    if n_models < 20:
        raise AnchorError(f"R26c examined only {n_models} models")
    # ---- R26b
    ser = prog.func("openpectus.protocol.serialization:serialize")
    des = prog.func("openpectus.protocol.serialization:deserialize")
    ctx.analysed(ser)
    ctx.analysed(des)
    writes = {}
    for n in walk_no_nested(ser.node):
        if isinstance(n, ast.Assign) and isinstance(n.targets[0], ast.Subscript) and isinstance(n.targets[0].slice, ast.Constant):
            writes[n.targets[0].slice.value] = norm(n.value)
    p = [a.arg for a in ser.node.args.args]
    want = {"_type": f"type({p[0]}).__qualname__", "_ns": f"{p[0]}.__module__"}
    for k, v in want.items():
        if writes.get(k) in (v, v.replace("__qualname__", "__name__")) and k == "_type" or writes.get(k) == v:
            ctx.ok("R26b", f"serialize writes {k} = {v}")
        else:
            ctx.fail("R26b", ser, ser.node, f"serialize writes {k} = {v}", f"found {writes.get(k)!r}")
    mod = prog.module("openpectus.protocol.serialization")
    nslist = mod.constants.get("_message_namespaces")
    if not isinstance(nslist, ast.List):
        raise AnchorError("_message_namespaces list not found")
    resolved = []
    for e in nslist.elts:
        ent = prog.resolve_expr_entity(mod, e)
        resolved.append(getattr(ent, "name", None))
    if sorted(x or "" for x in resolved) == sorted(NAMESPACES):
        ctx.ok("R26b", "namespace list is exactly the three protocol modules")
    else:
        ctx.fail("R26b", des, nslist, "namespace list is exactly the three protocol modules", f"is {resolved}", function=mod.name)
    body = [s for s in des.node.body if not (isinstance(s, ast.Expr) and isinstance(s.value, ast.Constant))]
    if len(body) == 1 and isinstance(body[0], ast.Try) and any(handler_is_catch_all(h) for h in body[0].handlers) and all(
            any(isinstance(x, ast.Raise) and "ProtocolDeserializationException" in norm(x) for x in ast.walk(h)) for h in body[0].handlers):
        ctx.ok("R26b", "deserialize: single try, every handler raises ProtocolDeserializationException")
    else:
        ctx.fail("R26b", des, des.node, "deserialize: single try, every handler raises ProtocolDeserializationException",
                 "an exception other than the protocol error can escape deserialize, or errors are swallowed")
    g = cfg_of(des)
    ctor = [n for n in g.nodes if n.kind == "stmt" and isinstance(n.ast, ast.Assign) and isinstance(n.ast.value, ast.Call)
            and any(k.arg is None for k in n.ast.value.keywords)]
    if not ctor:
        raise AnchorError("deserialize: construction `cls(**json_dict)` not found")
    conds = [(norm(c), pol) for c, pol in g.conditions_at(ctor[0])]
    if any("not in _message_namespace_names" in c and not pol for c, pol in conds):
        ctx.ok("R26b", "deserialize: unknown namespace rejected before construction")
    else:
        ctx.fail("R26b", des, ctor[0].ast, "deserialize: unknown namespace rejected before construction", "namespace not validated")
    after = g.search([ctor[0].id], lambda n: n.kind == "stmt" and isinstance(n.ast, ast.Return),
                     blocked=lambda n: n.kind == "stmt" and isinstance(n.ast, ast.Assert) and "isinstance" in norm(n.ast)
                     and "MessageBase" in norm(n.ast))
    if after is None:
        ctx.ok("R26b", "deserialize: result asserted to be a MessageBase before return")
    else:
        ctx.fail("R26b", des, ctor[0].ast, "deserialize: result asserted to be a MessageBase before return",
                 "an arbitrary attribute of the namespace module could be instantiated and returned", after)
    missing_cls = g.search(None, lambda n: n.id == ctor[0].id, blocked=lambda n: n.kind == "stmt" and isinstance(n.ast, ast.Assert)
                           and ("NoneType" in norm(n.ast) or "is not None" in norm(n.ast)))
    if missing_cls is None:
        ctx.ok("R26b", "deserialize: unknown type name rejected before construction")
    else:
        ctx.fail("R26b", des, ctor[0].ast, "deserialize: unknown type name rejected before construction", "getattr result unchecked")
    # placement / uniqueness
    for c in msgs:
        inst = f"{c.qualname} lives in a protocol namespace"
        if c.module.name in NAMESPACES:
            ctx.ok("R26b", inst, trivial=True)
        else:
            ctx.fail("R26b", None, c.node, inst, "a MessageBase subclass outside the three namespaces cannot be deserialised",
                     function=c.qualname, file=c.module.relpath)
