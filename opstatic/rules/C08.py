"""C08 - Outputs with a safe value are safe whenever no run is progressing: ordering + reachability.

On the extracted run-state machine (opstatic.runstate) two ghost variables follow what the output
tags hold (live method values / safe values) and what was last written to the hardware.
R08a engine start: after Engine._run the hardware holds the safe values (the write after
     _apply_safe_state() must really reach hwl.write_batch in the state the engine starts in).
R08b Stop: when a Stop command completes, from every reachable state, the hardware holds the safe
     values, and no later tick without a run writes anything (every hwl.write*/write_batch call in
     engine code is guarded by _runstate_started).
R08c pause sites: every function that sets _runstate_paused = True applies the safe state on the same
     path.
R08d no output computation while paused: evaluated with paused=True, Engine.tick must not reach code
     that executes UOD commands (CommandManager.tick -> UodCommand.execute) - or the hardware write
     must mask safe-valued registers while paused.
R08e model check: in every reachable state with no run (not started) or paused, reached without an
     explicit user output command, the hardware ghost is `safe` (shortest history otherwise).
R08f the write is complete (call model `hwl.write_batch: hardware := output tag values` verified): in
     Engine.write_process_image the register list is every register with Write direction (no further filter), the value
     list is built per register of that same list, in order, from the tag of the register's name (optionally through the
     register's from_tag), exactly one value per register on every path, and both lists are handed to
     hwl.write_batch(values, registers) in that order - otherwise a safe value set on a tag need not reach the hardware.
R08h the slot that is made safe is the slot that is written: a tag has a real value and, while simulated, a simulated value that
     get_value() returns instead. Engine._apply_safe_state writes the safe value with set_value (the real slot); Engine.write_process_image
     must read that same slot (`.value`) for the registers it writes - or _apply_safe_state must end the simulation of the tags it makes
     safe - otherwise `Simulate: Valve = 7` followed by Pause writes 7 to the hardware on every paused tick.
Decides whether safe values reach the hardware; what UOD callbacks compute is not modelled.
"""
from __future__ import annotations

import ast

from ..absint import Interp, mk, sd
from ..model import AnchorError, norm, walk_no_nested
from ..runstate import Explorer, Explorers, RunStateBinding, show, ENGINE, IMPL, GHOSTS
from ..util import local_single_defs, cfg_of, call_attr, assigned_attrs, node_calls

EXPLANATION = __doc__


def run(ctx) -> None:
    prog, res = ctx.prog, ctx.res
    for r, d in [("R08a", "safe values reach the hardware at engine start"), ("R08b", "Stop leaves the hardware safe; no writes without a run"),
                 ("R08c", "every pause site applies the safe state"), ("R08d", "UOD commands do not execute while paused"),
                 ("R08e", "model check of the hardware ghost")]:
        ctx.rule(r, d)
    eng = prog.cls(ENGINE)
    impl = prog.module(IMPL)
    # two explorations: one user request per tick gap with a scheduler that may let in-flight commands stall (coarse), and two
    # (quick) or three (thorough) requests per gap with the exact scheduler of execute_commands (every driven command steps in every tick)
    ex = Explorers(Explorer(ctx, faults=True, track=("outs", "hw", "err", "cap")),
                   Explorer(ctx, faults=True, track=("outs", "hw", "err", "cap"), max_pending=3 if ctx.tier == "thorough" else 2, exact=True))
    def leaves_pause_unsafe(s, t, lab):
        a, z = sd(s), sd(t)
        # (hardware that goes live while the pause flag *stays* set is the known finding R08d: commands keep executing while paused)
        return bool(a["paused"]) and a["hw"] in ("safe", "psafe") and z["hw"] == "live" and bool(z["stopping"]) and not z["paused"] \
            and not a.get("err") and "Unpause" not in (a["pend"], a.get("pend2"), a.get("pend3"))      # (a user Unpause in the gap is the user's own doing)
    for e_ in ex.exs:
        if e_.exact:        # the coarse scheduler lets an in-flight Stop/Restart stall for a tick, which the real command loop cannot
            e_.edge_watch = leaves_pause_unsafe
    ex.explore()
    ctx.extra["states"] = len(ex.reach)
    ctx.extra["transitions"] = ex.edges

    # ---- R08a
    erun = eng.methods["_run"]
    ctx.analysed(erun)
    s0 = ex.initial()
    outs = [o for o in ex.it.run(erun, s0) if o[0] == "return"]
    inst = "Engine._run: _apply_safe_state(); write_process_image() writes the safe values to the hardware"
    if outs and all(sd(o[-1])["hw"] in ("safe", "psafe") for o in outs):
        ctx.ok("R08a", inst)
    else:
        wp = eng.methods["write_process_image"]
        g = cfg_of(wp)
        guard = [n for n in g.nodes if n.kind == "test" and "_runstate_started" in norm(n.ast)]
        ctx.fail("R08a", erun, erun.node, inst,
                 "at engine start _runstate_started is False, and write_process_image() returns early "
                 f"(`{guard[0].text() if guard else 'guard'}`): the start-up write of the safe values is dead code and the hardware "
                 "keeps whatever it held until the first run starts")
    # ---- R08b
    stop = impl.classes["StopEngineCommand"].methods["_run"]
    ctx.analysed(stop)
    def stop_completions(write_may_fail: bool):
        saved = [e_.b.fault_before_effect for e_ in ex.exs]
        for e_ in ex.exs:
            e_.b.fault_before_effect = write_may_fail and e_.exact
            e_.it._summ.clear()      # function summaries were computed under the other setting
        bad_, n_ = None, 0
        try:
            for s in ex.reach:
                d = sd(s)
                if d["if_Stop"] is None or not d["started"]:
                    continue   # a Stop of an active run (Stop accepted without a run exists only after an error while stopped)
                if write_may_fail and not ex.owner.get(s, ex.exs[0]).exact:
                    continue
                for t in ex.step_resume(s, "Stop"):
                    dt = sd(t)
                    if dt["if_Stop"] is None and not dt["started"]:
                        n_ += 1
                        if dt["hw"] not in ("safe", "psafe") and bad_ is None:
                            bad_ = (s, t)
        finally:
            for e_, v in zip(ex.exs, saved):
                e_.b.fault_before_effect = v
                e_.it._summ.clear()
        return bad_, n_
    bad, n_stop = stop_completions(False)
    inst = "StopEngineCommand._run: hardware holds the safe values when Stop completes"
    if n_stop == 0:
        raise AnchorError("no completing Stop found in the model")
    if bad is None:
        ctx.ok("R08b", inst, {"rule": "R08b", "completions_checked": n_stop})
    else:
        ctx.fail("R08b", stop, stop.node, inst, f"Stop completes with hardware={sd(bad[1])['hw']}: safe state not written before the run "
                 f"ends | history: {' > '.join(ex.trace(bad[0]))}")
    bad2, n2 = stop_completions(True)
    inst = "StopEngineCommand._run: the safe values are on the hardware when Stop completes - also when the write of them fails"
    if bad is None and bad2 is not None:
        ctx.fail("R08b", stop, stop.node, inst, "Stop ends the run after a single write_process_image() whose failure it cannot see (the "
                 "HardwareLayerException is handled inside write_process_image by set_error_state) and clears _runstate_started right after: "
                 "from then on write_process_image returns early, so the safe values are never written - one transient write failure in the "
                 f"tick that completes Stop leaves the outputs live with no run active (hardware={sd(bad2[1])['hw']}, System State Paused by "
                 f"the error) | history: {' > '.join(ex.trace(bad2[0]))} > tick[Stop ends, write fails]")
    elif bad is None:
        ctx.ok("R08b", inst, {"rule": "R08b", "completions_checked": n2})
    # writes only under started
    n_w = 0
    for m in prog.iter_modules():
        if not m.name.startswith("openpectus.engine.") or "hardware" in m.name or m.name.endswith((".main", ".archiver")):
            continue
        for f in list(m.functions.values()) + [x for c in m.classes.values() for x in c.methods.values()]:
            g = cfg_of(f)
            for n in g.nodes:
                for c in n.calls():
                    recv = c.func.value if isinstance(c.func, ast.Attribute) else None
                    rtxt = norm(local_single_defs(f).get(recv.id, recv)) if isinstance(recv, ast.Name) else (norm(recv) if recv is not None else "")
                    if call_attr(c) in ("write", "write_batch") and rtxt.endswith("hwl"):
                        n_w += 1
                        conds = [(norm(cx), pol) for cx, pol in g.conditions_at(n)]
                        inst = f"{f.short}: {norm(c.func)}(...) only with a run active"
                        if any("_runstate_started" in cx and ((cx.startswith("not ") and not pol) or (not cx.startswith("not ") and pol))
                               for cx, pol in conds):
                            ctx.ok("R08b", inst)
                        else:
                            ctx.fail("R08b", f, c, inst, "hardware write not guarded by _runstate_started: values other than the safe "
                                     "ones can be written while no run is active")
    if n_w == 0:
        raise AnchorError("no hwl.write/write_batch call found in engine code")
    # ---- R08c
    funcs = [m for c in impl.classes.values() for m in c.methods.values()] + list(eng.methods.values())
    for f in funcs:
        g = cfg_of(f)
        for n in g.nodes:
            if n.kind != "stmt":
                continue
            for t, v, st in assigned_attrs(n.ast):
                if t.attr == "_runstate_paused" and isinstance(v, ast.Constant) and v.value is True:
                    ctx.analysed(f)
                    inst = f"{f.short}: {n.text()} applies the safe state"
                    after = g.path_to_exit_avoiding([n.id], lambda x: node_calls(x, "_apply_safe_state")) is None
                    before = any(node_calls(x, "_apply_safe_state") and g.dominates(x, n) for x in g.nodes)
                    if after or before:
                        ctx.ok("R08c", inst)
                    else:
                        ctx.fail("R08c", f, n.ast, inst, "the engine is paused here without _apply_safe_state(): outputs with a safe "
                                 "value keep their live values on the hardware throughout this pause")
    ctx.floor("R08c", 2)
    # ---- R08d
    tick = eng.methods["tick"]
    ctx.analysed(tick)
    b = RunStateBinding(ctx, faults=False, track=())
    it = Interp(b)
    b.interp = it
    d = sd(ex.initial())
    d.update(started=True, paused=True, sys="Paused", run_id="set")
    it.run(tick, mk(d))
    g = cfg_of(tick)
    cm_nodes = [n for n in g.nodes if any(norm(c.func).endswith("_command_manager.tick") for c in n.calls())]
    if not cm_nodes:
        raise AnchorError("Engine.tick: call of _command_manager.tick not found")
    reached = [n for n in cm_nodes if it.states_at(tick, n)]
    # does CommandManager.tick reach UodCommand.execute without a pause gate?
    cmt = prog.func("openpectus.engine.command_manager:CommandManager.tick")
    reach_exec = _reaches(ctx, cmt, "execute", 5)
    inst = "Engine.tick (paused): self._command_manager.tick(...) does not execute UOD commands"
    if reached and reach_exec:
        ctx.fail("R08d", tick, reached[0].ast, inst,
                 f"with the engine paused Engine.tick still calls `{reached[0].text()}` and CommandManager.tick reaches "
                 f"UodCommand.execute ({' > '.join(reach_exec)}): UOD commands that were executing keep computing and writing "
                 f"outputs, and the tick's write_process_image() puts those values on the hardware during the pause")
    else:
        ctx.ok("R08d", inst)
    # ---- R08e
    seen = {}
    for s in ex.reach:
        d = sd(s)
        if d["pend"] is not None:
            continue
        if (not d["started"] or d["paused"]) and d["hw"] not in ("safe", "psafe"):
            kind = "engine start" if (d["hw"] == "unknown") else ("paused" if d["paused"] and d["started"] else "no run")
            if kind == "paused" and d["err"]:
                kind = "paused/error pause"
            if kind == "no run" and d["err"]:
                kind = "no run after an error"      # the run ended while a hardware write had failed
            if kind not in seen:
                seen[kind] = s
    structural = {fd.rule for fd in ctx.findings}
    # which structural finding explains which kind of unsafe state. A run that ends with the hardware unsafe and *no* error on record is
    # explained by nothing: it is always reported.
    explained = {"engine start": "R08a", "paused": "R08d", "paused/error pause": "R08c", "no run after an error": "R08b", "no run": None}
    if not seen:
        ctx.ok("R08e", f"hardware ghost is safe in all no-run/paused states ({len(ex.reach)} states)")
    for kind, s in seen.items():
        hist = " > ".join(ex.trace(s))
        rule = explained.get(kind)
        if rule in structural or (kind == "paused/error pause" and ("R08c" in structural or "R08d" in structural)):
            for fd in ctx.findings:
                if fd.rule == rule and "model-checked" not in fd.message:
                    fd.message += f" | model-checked history: {hist}"
            continue
        ctx.fail("R08e", tick, tick.node, f"reachable state with unsafe hardware while {kind}",
                 f"hardware ghost is {sd(s)['hw']} | history: {hist} | state: {show(s)}",
                 function="openpectus.engine (run-state machine)")

    # ---- R08g
    ctx.rule("R08g", "ending a run from a pause does not put live values back on the hardware")
    inst = "no tick takes the hardware from safe (paused) to live while a Stop/Restart is in progress"
    hits = [(e_, w) for e_ in ex.exs for w in e_.watched]
    if not hits:
        ctx.ok("R08g", inst, {"rule": "R08g", "transitions_examined": ex.edges})
    else:
        e_, (s_, t_, lab_) = hits[0]
        hist = " > ".join(e_.trace(s_)) + f" > {lab_}[paused={sd(t_)['paused']}, stopping={sd(t_)['stopping']}, hw={sd(t_)['hw']}]"
        ctx.fail("R08g", tick, tick.node, inst, "the user ends a paused run with Stop (or Restart) and never unpauses, yet the pre-pause values are "
                 "written to the hardware for a tick: Stop's first segment cancels the waiting timed Pause, whose cancel() runs Unpause and "
                 f"restores the outputs, and the safe state is only applied in Stop's closing segment | history: {hist} | state: {show(t_)}",
                 function="openpectus.engine (run-state machine)")
    _write_image_complete(ctx)
    # ---- R08h
    ctx.rule("R08h", "the safe value is written to the slot the hardware write reads")
    ass = eng.methods.get("_apply_safe_state")
    wpi = eng.methods.get("write_process_image")
    if ass is None or wpi is None:
        raise AnchorError("Engine._apply_safe_state / write_process_image missing")
    ctx.analysed(ass)
    sets_real = any(isinstance(c, ast.Call) and call_attr(c) == "set_value" and c.args and "safe_value" in norm(c.args[0]) for c in walk_no_nested(ass.node))
    ends_sim = any(isinstance(c, ast.Call) and call_attr(c) == "stop_simulation" for c in walk_no_nested(ass.node))
    reads_masked = [c for c in walk_no_nested(wpi.node) if isinstance(c, ast.Call) and call_attr(c) in ("get_value", "as_float", "as_number")
                    and "_tags[" in norm(c.func)]
    reads_real = [a for a in walk_no_nested(wpi.node) if isinstance(a, ast.Attribute) and a.attr == "value" and "_tags[" in norm(a.value)]
    if not sets_real:
        raise AnchorError("_apply_safe_state: set_value(<safe_value>, ..) not found")
    if not reads_masked and not reads_real:
        raise AnchorError("write_process_image: read of the register's tag not found")
    inst = "_apply_safe_state and write_process_image agree on the value slot of an output tag"
    if ends_sim or not reads_masked:
        ctx.ok("R08h", inst)
    else:
        ctx.fail("R08h", wpi, reads_masked[0], inst, f"_apply_safe_state sets the real value of the tag while write_process_image writes `{norm(reads_masked[0])[:50]}`, "
                 "which returns the simulated value while the tag is simulated: `Simulate: Valve = 7` (Valve an output with safe value 0), "
                 "then Pause - the engine writes Valve=7.0 to the hardware on every tick of the pause")


def _reaches(ctx, f, target_name: str, depth: int, seen=None, chain=()):
    """Call chain from f to a method named target_name on a UodCommand (bounded DFS over resolved calls)."""
    seen = seen if seen is not None else set()
    if id(f.node) in seen or depth < 0:
        return None
    seen.add(id(f.node))
    for c in walk_no_nested(f.node):
        if not isinstance(c, ast.Call):
            continue
        for callee in ctx.res.resolve_call(c, f, cha=False):
            if callee.name == target_name and callee.cls is not None and any(k.name in ("UodCommand", "EngineCommand") for k in callee.cls.mro()):
                return list(chain) + [f.short, callee.short]
            if callee.module.name.startswith("openpectus.engine.command_manager"):
                r = _reaches(ctx, callee, target_name, depth - 1, seen, chain + (f.short,))
                if r:
                    return r
    return None


def _write_image_complete(ctx) -> None:
    prog = ctx.prog
    ctx.rule("R08f", "write_process_image writes the value of every write register's tag")
    f = prog.func(f"{ENGINE}.write_process_image")
    ctx.analysed(f)
    g = cfg_of(f)
    defs = local_single_defs(f)
    wb = [n for n in g.nodes if any(call_attr(c) == "write_batch" for c in n.calls())]
    if len(wb) != 1:
        raise AnchorError("write_process_image: single hwl.write_batch call not found")
    call = next(c for c in wb[0].calls() if call_attr(c) == "write_batch")
    if len(call.args) != 2 or not all(isinstance(a, ast.Name) for a in call.args):
        raise AnchorError("write_process_image: write_batch(<values>, <registers>) with two locals expected")
    V, R = call.args[0].id, call.args[1].id
    rdef = defs.get(R)
    inst = "write_process_image: register list = every register with Write direction"
    ok = isinstance(rdef, ast.ListComp) and len(rdef.generators) == 1 and "registers.values()" in norm(rdef.generators[0].iter) \
        and norm(rdef.elt) == norm(rdef.generators[0].target) and len(rdef.generators[0].ifs) == 1 \
        and norm(rdef.generators[0].ifs[0]) == f"RegisterDirection.Write in {norm(rdef.generators[0].target)}.direction"
    if ok:
        ctx.ok("R08f", inst)
    else:
        ctx.fail("R08f", f, wb[0].ast, inst, f"the registers written are `{norm(rdef) if rdef is not None else R}`: some write registers "
                 "(for instance unchanged or safe-valued ones) may be left out of the process image")
    loops = [n for n in g.nodes if n.kind == "for" and norm(n.ast.iter) == R and isinstance(n.ast.target, ast.Name)]
    inst = "write_process_image: one value per register, in register order, from the tag of the register's name"
    if len(loops) != 1:
        ctx.fail("R08f", f, wb[0].ast, inst, f"no single loop over `{R}` builds the value list")
        return
    lp = loops[0]
    rv = lp.ast.target.id

    def appends(n):
        return any(call_attr(c) == "append" and norm(c.func) == f"{V}.append" for c in n.calls())
    counts = set()

    def walk(nid, cnt, seen):
        if nid == lp.id:
            counts.add(cnt)
            return
        if nid in seen:
            return
        n = g.nodes[nid]
        for d, l in g.succ[nid]:
            if l != "exc":
                walk(d, cnt + (1 if appends(n) else 0), seen | {nid})
    for d, l in g.succ[lp.id]:
        if l == "loop":
            walk(d, 0, frozenset())
    body_txt = " ".join(norm(st) for st in lp.ast.body)
    # the value of the tag named like the register: its reported value (get_value(), the simulation mask - see R08h) or its real slot
    from_tag = f"[{rv}.name].get_value()" in body_txt or f"[{rv}.name].value" in body_txt
    dom = g.dominates(lp, wb[0])
    order_ok = norm(call.args[0]) == V and norm(call.args[1]) == R
    if counts == {1} and from_tag and dom and order_ok:
        ctx.ok("R08f", inst)
    else:
        ctx.fail("R08f", f, lp.ast, inst, f"values appended per register on the paths of the loop: {sorted(counts)}; value read from the "
                 f"register's tag: {from_tag}; loop precedes the write: {dom}")
