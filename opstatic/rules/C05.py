"""C05 - Blocks nest and end correctly; Block tag names the active block: sibling agreement + pairing.

R05a the effects attached to ending a block - {<blk>.block_ended = True, _abort_block_interrupts(<blk>),
     emit_on_block_end(<blk>.name, ..), emit_on_scope_end(<blk>.id, ..)} per ended block and a write of
     the Block tag - are the same set in visit_EndBlockNode and visit_EndBlocksNode; End blocks sets
     the Block tag to None after its loop, End block to the name of the next enclosing locked block.
     Both take the blocks to end from ProgramNode.get_locked_blocks(), innermost first.
R05b acquiring: in visit_BlockNode, on the path where the lock was acquired the Block tag is written
     with node.name and block_start + scope_start are emitted before the body; releasing: every normal
     path to the exit sets node.lock_acquired = False; the completion (node.completed = True) after the
     body is reachable only when node.block_ended holds (the body is followed by the block_ended wait).
R05c try_acquire_lock takes the lock only if every locked block is an ancestor of the node (the
     single-chain condition).
R05d End block ends an *active* block: visit_EndBlockNode chooses among the locked blocks that are not already ended (an ended
     block keeps its lock until the instruction it is executing finishes; ending it a second time leaves the enclosing block
     running for ever).
R05e no block, no name: when the interpreter is replaced (Engine._stop_interpreter, reached by Stop and Restart) the Block tag is
     written None on every path - the new interpreter has no active block, and a restarted run would otherwise execute its
     root-level lines under the name of the block that was active when the previous run ended.
R05f an aborted handler's blocks are released: _abort_block_interrupts releases (lock_acquired = False) the blocks below every
     interrupt it unregisters - a block started by a Watch/Alarm body can only be released by that handler's generator, which is
     gone after the abort; left locked, every later Block waits for ever.
R05g an ended block runs no further line - whoever walks it: a Block in a Watch/Alarm body is walked by the interrupt handler, a Block
     of the program by the main flow. In _visit_children every `self.visit(child)` is dominated by the false outcome of
     `self._is_in_ended_block(child)` itself (a conjunction with e.g. `not self._in_interrupt` does not establish it): otherwise the
     lines after `End block` (issued by a nested Watch) run although the block has ended, and what follows the block starts late.
R05h End blocks agrees with End block (siblings): the blocks it ends are the locked blocks that are not block_ended either (R05d's
     clause for visit_EndBlocksNode), and the block it names as the new innermost one is the next element of that list whenever
     there is one (`xs[i + 1] if i + 1 < len(xs)`; a bound of `len(xs) - 1` names "" for the block below the outermost).
R05i nothing of an ended block starts - a Block waiting for the lock included: the lock-wait loop of visit_BlockNode tests
     `_is_in_ended_block(node)` before it tries to take the lock (the enclosing block can be ended while the Block waits; started
     then, its own End block is skipped as a line of an ended block and it never ends).
R05j a body is reset only when no watch/alarm of it is executing: the re-arm of visit_AlarmNode is dominated by a waiting loop on
     the executing handlers of its body (sibling of C41 R41h for macro calls) - the reset clears the lock of a Block such a handler
     has started, without a block_end.
Decides these shapes; the single-chain invariant over all reachable interpreter states is data-dependent.
"""
from __future__ import annotations

import ast

from ..model import AnchorError, norm, walk_no_nested
from ..util import cfg_of, call_attr, node_calls, assigned_attrs
from ..cfg import facts_at, build

EXPLANATION = __doc__
PI = "openpectus.lang.exec.pinterpreter:PInterpreter"


def _end_effects(f):
    """Effect set of ending a block in an End block(s) visitor."""
    eff = set()
    blks = set()
    for t, v, st in assigned_attrs(f.node):
        if t.attr == "block_ended" and isinstance(v, ast.Constant) and v.value is True:
            blks.add(norm(t.value))
            eff.add("block_ended=True")
    for c in walk_no_nested(f.node):
        if not isinstance(c, ast.Call):
            continue
        nm = call_attr(c)
        if nm == "_abort_block_interrupts" and c.args and norm(c.args[0]) in blks:
            eff.add("_abort_block_interrupts")
        if nm == "emit_on_block_end" and c.args and any(norm(c.args[0]) == b + ".name" for b in blks):
            eff.add("emit_on_block_end")
        if nm == "emit_on_scope_end" and c.args and any(norm(c.args[0]) == b + ".id" for b in blks):
            eff.add("emit_on_scope_end")
        if nm == "set_value" and "SystemTagName.BLOCK]" in norm(c.func):
            eff.add("Block tag written")
    return eff, blks


def run(ctx) -> None:
    prog = ctx.prog
    for r, d in [("R05a", "End block and End blocks perform the same per-block effects"), ("R05b", "lock acquire/release pairing in visit_BlockNode"),
                 ("R05c", "lock only when all locked blocks are ancestors")]:
        ctx.rule(r, d)
    pi = prog.cls(PI)
    eb, ebs = pi.methods.get("visit_EndBlockNode"), pi.methods.get("visit_EndBlocksNode")
    if eb is None or ebs is None:
        raise AnchorError("End block visitors missing")
    ctx.analysed(eb)
    ctx.analysed(ebs)
    want = {"block_ended=True", "_abort_block_interrupts", "emit_on_block_end", "emit_on_scope_end", "Block tag written"}
    for f in (eb, ebs):
        eff, blks = _end_effects(f)
        inst = f"{f.short}: per-block end effects complete"
        if eff == want:
            ctx.ok("R05a", inst, {"rule": "R05a", "function": f.short, "effects": sorted(eff)})
        else:
            ctx.fail("R05a", f, f.node, inst, f"missing {sorted(want - eff)} (the sibling visitor performs all of {sorted(want)}): a block "
                     "ended this way keeps its Watches/Alarms, scope clock or Block tag")
        src = [n for n in walk_no_nested(f.node) if isinstance(n, ast.Assign) and "get_locked_blocks()" in norm(n.value)]
        if src:
            ctx.ok("R05a", f"{f.short}: blocks to end come from get_locked_blocks()")
        else:
            ctx.fail("R05a", f, f.node, f"{f.short}: blocks to end come from get_locked_blocks()", "ends blocks that are not the active ones")
    # Block tag values
    g = cfg_of(ebs)
    tagw = [n for n in g.nodes if any(call_attr(c) == "set_value" and "SystemTagName.BLOCK]" in norm(c.func) for c in n.calls())]
    if tagw and all(norm([c for c in n.calls() if call_attr(c) == "set_value"][0].args[0]) == "None" for n in tagw) and \
            g.path_to_exit_avoiding(None, lambda n: n in tagw or any(n.id == t.id for t in tagw)) is None:
        ctx.ok("R05a", "visit_EndBlocksNode: Block tag := None on every path")
    else:
        ctx.fail("R05a", ebs, ebs.node, "visit_EndBlocksNode: Block tag := None on every path", "Block tag keeps naming an ended block")
    g = cfg_of(eb)
    tagw = [n for n in g.nodes if any(call_attr(c) == "set_value" and "SystemTagName.BLOCK]" in norm(c.func) for c in n.calls())]
    ended = [n for n in g.nodes if n.kind == "stmt" and any(t.attr == "block_ended" for t, v, st in assigned_attrs(n.ast))]
    if tagw and ended and all(any(g.dominates(t, e) or g.dominates(e, t) for t in tagw) for e in ended):
        v = norm([c for c in tagw[0].calls() if call_attr(c) == "set_value"][0].args[0])
        if "new_block" in v:
            ctx.ok("R05a", "visit_EndBlockNode: Block tag := name of the next enclosing locked block (or None)")
        else:
            ctx.fail("R05a", eb, tagw[0].ast, "visit_EndBlockNode: Block tag := name of the next enclosing locked block (or None)", f"writes {v}")
    else:
        ctx.fail("R05a", eb, eb.node, "visit_EndBlockNode: Block tag written whenever a block is ended", "Block tag not updated")
    glb = prog.func("openpectus.lang.model.ast:ProgramNode.get_locked_blocks")
    ctx.analysed(glb)
    if "lock_acquired" in norm(glb.node) and ("sort" in norm(glb.node) or "reverse" in norm(glb.node)):
        ctx.ok("R05a", "get_locked_blocks: locked blocks, ordered")
    else:
        ctx.fail("R05a", glb, glb.node, "get_locked_blocks: locked blocks, ordered", "innermost-first order not established")
    # ---- R05b
    vb = pi.methods.get("visit_BlockNode")
    ctx.analysed(vb)
    bpar = vb.node.args.args[1].arg
    g = cfg_of(vb)
    body = [n for n in g.nodes if any(call_attr(c) == "_visit_children" for c in n.calls())]
    if len(body) != 1:
        raise AnchorError("visit_BlockNode: body invocation not found")
    b = body[0]
    for what, pred in (("Block tag := node.name", lambda n: any(call_attr(c) == "set_value" and "SystemTagName.BLOCK]" in norm(c.func)
                                                             and c.args and norm(c.args[0]) == f"{bpar}.name" for c in n.calls())),
                       ("emit_on_block_start", lambda n: node_calls(n, "emit_on_block_start")),
                       ("emit_on_scope_start", lambda n: node_calls(n, "emit_on_scope_start"))):
        nodes = [n for n in g.nodes if pred(n)]
        inst = f"visit_BlockNode: {what} on the lock-acquired path before the body"
        good = bool(nodes) and all((f"{bpar}.lock_acquired", True) in facts_at(g, n) for n in nodes)
        # every path that enters the acquire loop and reaches the body passes it
        # the branch taken right after the lock was obtained (`if node.lock_acquired:` inside the acquire loop) must pass the
        # announcement on every path to the body
        got = [n for n in g.nodes if n.kind == "test" and norm(n.ast) == f"{bpar}.lock_acquired" and nodes
               and all(g.edge_dominates(n.id, "T", x.id) for x in nodes)]
        if good and got:
            p = g.search([(got[0].id, "T")], lambda n: n.id == b.id, blocked=lambda n: any(n.id == x.id for x in nodes))
            good = p is None
        elif not got:
            good = False
        if good:
            ctx.ok("R05b", inst)
        else:
            ctx.fail("R05b", vb, b.ast, inst, "a block can start its body without announcing itself as the active block")
    rel = [n for n in g.nodes if n.kind == "stmt" and any(t.attr == "lock_acquired" and isinstance(v, ast.Constant) and v.value is False
                                                           for t, v, st in assigned_attrs(n.ast))]
    # a return on which the lock is known not to be held needs no release: the test `<node>.lock_acquired` was false on the way
    # there and nothing that can take the lock (the acquire helper, an assignment of the flag) lies between the test and the return
    npar_b = vb.node.args.args[1].arg

    safe_returns: set[int] = set()
    for wl in ast.walk(vb.node):
        if isinstance(wl, ast.While) and norm(wl.test) == f"not {npar_b}.lock_acquired":
            for st in wl.body:
                takes = any((isinstance(c, ast.Call) and isinstance(c.func, ast.Name) and "acquire" in c.func.id) for c in ast.walk(st)) \
                    or any(t.attr == "lock_acquired" for t, v, s_ in assigned_attrs(st))
                if takes:
                    break
                for r_ in ast.walk(st):
                    if isinstance(r_, ast.Return):
                        safe_returns.add(id(r_))

    def _exit_without_lock(n) -> bool:
        return n.kind == "stmt" and isinstance(n.ast, ast.Return) and id(n.ast) in safe_returns
    p = g.path_to_exit_avoiding(None, lambda n: any(n.id == r.id for r in rel) or _exit_without_lock(n), follow_exc=False)
    inst = "visit_BlockNode: lock released on every normal path to the exit"
    if rel and p is None:
        ctx.ok("R05b", inst)
    else:
        ctx.fail("R05b", vb, vb.node, inst, "a block can finish while still holding the block lock: no later block can start", p)
    comp = [n for n in g.nodes if n.kind == "stmt" and any(t.attr == "completed" and isinstance(v, ast.Constant) and v.value is True
                                                            for t, v, st in assigned_attrs(n.ast))]
    inst = "visit_BlockNode: completion after the body only once node.block_ended"
    ok = bool(comp)
    for c in comp:
        p = g.search([b.id], lambda n, c=c: n.id == c.id, blocked_edge=lambda s, d, l: g.nodes[s].kind == "test"
                     and norm(g.nodes[s].ast) == f"{bpar}.block_ended" and l == "T")
        if p is not None:
            ok = False
    if ok:
        ctx.ok("R05b", inst)
    else:
        ctx.fail("R05b", vb, b.ast, inst, "instructions after the block can start although the block has not been ended")
    # ---- R05c
    npar = vb.node.args.args[1].arg
    hosts = [n for n in ast.walk(vb.node) if isinstance(n, ast.FunctionDef)]
    host = None
    for h in hosts:      # innermost function that takes the lock
        if any(isinstance(a, ast.Assign) and isinstance(a.targets[0], ast.Attribute) and a.targets[0].attr == "lock_acquired"
               and isinstance(a.value, ast.Constant) and a.value.value is True for a in walk_no_nested(h)):
            host = h
    if host is None:
        raise AnchorError("visit_BlockNode: the statement that takes the block lock was not found")
    gn = build(host) if host is not vb.node else g
    acq = [n for n in gn.nodes if n.kind == "stmt" and isinstance(n.ast, ast.Assign) and isinstance(n.ast.targets[0], ast.Attribute)
           and n.ast.targets[0].attr == "lock_acquired" and isinstance(n.ast.value, ast.Constant) and n.ast.value.value is True]
    hdefs = {}
    for a in walk_no_nested(host):
        if isinstance(a, ast.Assign) and len(a.targets) == 1 and isinstance(a.targets[0], ast.Name):
            hdefs.setdefault(a.targets[0].id, []).append(a.value)

    def hexp(e):
        return hdefs[e.id][0] if isinstance(e, ast.Name) and len(hdefs.get(e.id, ())) == 1 else e
    loops = [n for n in gn.nodes if n.kind == "for" and isinstance(n.ast.target, ast.Name)]
    tests = [(n, lp) for n in gn.nodes if n.kind == "test" for lp in loops
             if isinstance(n.ast, ast.Compare) and len(n.ast.ops) == 1 and isinstance(n.ast.ops[0], (ast.NotIn, ast.In))
             and isinstance(n.ast.left, ast.Name) and n.ast.left.id == lp.ast.target.id
             and norm(hexp(n.ast.comparators[0])) == f"{npar}.parents"]
    inst = "try_acquire_lock: lock only if every locked block is an ancestor"
    good = bool(acq) and len(tests) == 1
    if good:
        tn, lp = tests[0]
        lab = "T" if isinstance(tn.ast.ops[0], ast.NotIn) else "F"
        good = gn.search([(tn.id, lab)], lambda n: n.id == acq[0].id) is None \
            and gn.search(None, lambda n: n.id == acq[0].id, blocked=lambda n: n.id == lp.id) is None
    if good:
        ctx.ok("R05c", inst)
    else:
        ctx.fail("R05c", vb, host, inst, "two blocks that are not nested in each other could be active at once")
    # the set of locked blocks the decision iterates over must be computed from the lock flags at the time of the decision
    if good:
        tn, lp = tests[0]
        inst = "try_acquire_lock: the locked blocks are read from the lock flags at the time of the decision"
        src = _lock_source(ctx, hexp(lp.ast.iter), vb, 0)
        if src[0] == "fresh":
            ctx.ok("R05c", inst, {"rule": "R05c", "source": src[1]})
        elif src[0] == "cached":
            # a stored snapshot is only as good as its invalidation: every statement that takes a lock must refresh it
            attr = src[1]
            stale = None
            for fn_node, gg in [(host, gn)]:
                for a in acq:
                    pth = gg.path_to_exit_avoiding([d for d, l in gg.succ[a.id] if l != "exc"], lambda n: n.kind == "stmt" and any(
                        t.attr == attr for t, v, st in assigned_attrs(n.ast)))
                    if pth is not None:
                        stale = a
            if stale is None:
                ctx.ok("R05c", inst, {"rule": "R05c", "source": f"snapshot self.{attr}, refreshed whenever a lock is taken"})
            else:
                ctx.fail("R05c", vb, stale.ast, inst, f"the decision reads a stored snapshot (self.{attr}, filled by {src[2]}) that is not "
                         "refreshed when a block takes the lock: a second block polling after that still sees the lock free, and two "
                         "blocks that are not nested in each other are active at once")
        else:
            ctx.fail("R05c", vb, lp.ast, inst, f"the iterated expression `{src[1]}` is not derived from the lock flags")
    _r05d(ctx, pi)
    _r05hij(ctx, pi)
    ctx.rule("R05f", "blocks started by an aborted interrupt are released")
    abf = pi.methods["_abort_block_interrupts"]
    ctx.analysed(abf)
    gab = cfg_of(abf)
    unreg = [n for n in gab.nodes if n.ast is not None and any(call_attr(c) == "_unregister_interrupt" for c in n.calls())]
    rel_ = [n for n in gab.nodes if n.kind == "stmt" and any(t.attr == "lock_acquired" and isinstance(v, ast.Constant) and v.value is False
                                                              for t, v, st in assigned_attrs(n.ast))]
    inst = "_abort_block_interrupts: locks of blocks below an unregistered interrupt are released"
    if unreg and rel_ and all(any(gab.search([u.id], lambda n, r=r: n.id == r.id, follow_exc=False) is not None for r in rel_) for u in unreg):
        ctx.ok("R05f", inst)
    else:
        ctx.fail("R05f", abf, (unreg[0].ast if unreg else abf.node), inst, "the handler is dropped but a block its body had started keeps lock_acquired: "
                 "`End blocks` (or End block of the outer block) then leaves that block locked for ever and every later Block dead-locks")
    ctx.rule("R05g", "no line of an ended block starts, in the main flow and in interrupt handlers")
    vc5 = pi.methods.get("_visit_children")
    if vc5 is None:
        raise AnchorError("PInterpreter._visit_children missing")
    ctx.analysed(vc5)
    gv5 = cfg_of(vc5)
    visits5 = [n for n in gv5.nodes if any(call_attr(c) == "visit" and norm(c.func) == "self.visit" for c in n.calls())]
    if not visits5:
        raise AnchorError("_visit_children: self.visit(child) not found")
    from ..util import local_single_defs as _lsd5
    for n in visits5:
        call = next(c for c in n.calls() if call_attr(c) == "visit")
        child = norm(call.args[0]) if call.args else "?"
        inst = f"_visit_children: self.visit({child}) only when the child is not in an ended block"
        if (f"self._is_in_ended_block({child})", False) in facts_at(gv5, n, _lsd5(vc5)):
            ctx.ok("R05g", inst)
        else:
            ctx.fail("R05g", vc5, n.ast, inst, "the ended-block test is missing or holds only together with another condition: in a Block that a "
                     "Watch/Alarm body started (walked by the handler), the lines after an `End block` issued by a nested Watch still run - "
                     "`Watch / Block: B / Mark: a / Watch / End block // Wait: 1s / Mark: b` writes b after B has ended")
    ctx.rule("R05e", "the Block tag is cleared when the interpreter is replaced")
    si = prog.func("openpectus.engine.engine:Engine._stop_interpreter")
    ctx.analysed(si)
    gs = cfg_of(si)
    clears = lambda n: n.ast is not None and any(call_attr(c) == "set_value" and "SystemTagName.BLOCK]" in norm(c.func) and c.args
                                                 and isinstance(c.args[0], ast.Constant) and c.args[0].value is None for c in n.calls())
    inst = "Engine._stop_interpreter: Block tag := None on every path"
    if any(clears(n) for n in gs.nodes) and gs.path_to_exit_avoiding(None, clears, follow_exc=False) is None:
        ctx.ok("R05e", inst)
    else:
        ctx.fail("R05e", si, si.node, inst, "Stop and Restart replace the interpreter without clearing the Block tag: after a Restart inside Block A "
                 "the new run executes its root-level lines with Block = 'A' although no block is active")


def _lock_source(ctx, expr, f, depth):
    """Where the iterable of locked blocks comes from: ("fresh", function) when it is the return value of a function that reads
    the lock flags, ("cached", attribute, helper) when a helper hands out a stored attribute, else ("unknown", text)."""
    if depth > 4 or not isinstance(expr, ast.Call):
        if isinstance(expr, ast.Attribute) and isinstance(expr.value, ast.Name) and expr.value.id == "self":
            return ("cached", expr.attr, f.short)
        return ("unknown", norm(expr))
    outs = []
    for t in ctx.res.resolve_call(expr, f, cha=False):
        if any(isinstance(n, ast.Attribute) and n.attr == "lock_acquired" and isinstance(n.ctx, ast.Load) for n in walk_no_nested(t.node)):
            outs.append(("fresh", t.short))
            continue
        from ..util import local_single_defs
        rets = [n.value for n in walk_no_nested(t.node) if isinstance(n, ast.Return) and n.value is not None]
        if not rets:
            outs.append(("unknown", norm(expr)))
        for r in rets:
            if isinstance(r, ast.Name):
                r = local_single_defs(t).get(r.id, r)
            sv = t.node.args.args[0].arg if t.node.args.args else "self"
            if isinstance(r, ast.Attribute) and isinstance(r.value, ast.Name) and r.value.id == sv:
                outs.append(("cached", r.attr, t.short))
            else:
                outs.append(_lock_source(ctx, r, t, depth + 1))
    if not outs:
        return ("unknown", norm(expr))
    for kind in ("unknown", "cached", "fresh"):
        for o in outs:
            if o[0] == kind:
                return o
    return outs[0]


def _r05d(ctx, pi):
    ctx.rule("R05d", "End block chooses among locked blocks that have not been ended")
    eb = pi.methods["visit_EndBlockNode"]
    from ..util import value_leaves, local_all_defs
    ended = [t for t, v, st in __import__("opstatic.util", fromlist=["assigned_attrs"]).assigned_attrs(eb.node)
             if t.attr == "block_ended" and isinstance(v, ast.Constant) and v.value is True]
    if not ended:
        raise AnchorError("visit_EndBlockNode: <block>.block_ended = True not found")
    blk = ended[0].value
    inst = "visit_EndBlockNode: the block to end is taken from the locked blocks that are not block_ended"
    srcs = [norm(l) for l, _ in value_leaves(ctx.res, blk, eb)]
    defs = local_all_defs(eb)
    # the list the block is taken from: a local indexed with a constant
    lists = set()
    for l, _ in value_leaves(ctx.res, blk, eb):
        if isinstance(l, ast.Subscript) and isinstance(l.value, ast.Name):
            lists.add(l.value.id)
    good = bool(lists) and all(any("block_ended" in norm(d) for d in defs.get(nm, [])) for nm in lists)
    if good:
        ctx.ok("R05d", inst)
    else:
        ctx.fail("R05d", eb, ended[0], inst, f"the block comes from {srcs[:2]} without excluding blocks that were already ended: a second End block "
                 "while the ended inner block still holds its lock ends that block again (duplicate block_end) and the enclosing block "
                 "is never ended")


def _r05hij(ctx, pi):
    from ..util import local_all_defs
    ctx.rule("R05h", "End blocks ends only blocks that are not ended yet and names the next enclosing block")
    ctx.rule("R05i", "a Block that waits for the lock does not start inside an ended block")
    ctx.rule("R05j", "an Alarm re-arms only when no handler of its body is executing")
    ebs = pi.methods["visit_EndBlocksNode"]
    ctx.analysed(ebs)
    defs = local_all_defs(ebs)
    # the list the loop ranges over
    ended = [(t, st) for t, v, st in assigned_attrs(ebs.node) if t.attr == "block_ended" and isinstance(v, ast.Constant) and v.value is True]
    if not ended:
        raise AnchorError("visit_EndBlocksNode: <block>.block_ended = True not found")
    lists = {x.value.id for x in ast.walk(ebs.node) if isinstance(x, ast.Subscript) and isinstance(x.value, ast.Name)
             and any("get_locked_blocks" in norm(d) for d in defs.get(x.value.id, []))}
    lists |= {x.iter.id for x in ast.walk(ebs.node) if isinstance(x, ast.For) and isinstance(x.iter, ast.Name)
              and any("get_locked_blocks" in norm(d) for d in defs.get(x.iter.id, []))}
    if not lists:
        raise AnchorError("visit_EndBlocksNode: list of locked blocks not found")
    inst = "visit_EndBlocksNode: the blocks to end are the locked blocks that are not block_ended"
    if all(any("block_ended" in norm(d) for d in defs.get(nm, [])) for nm in lists):
        ctx.ok("R05h", inst)
    else:
        ctx.fail("R05h", ebs, ended[0][1], inst, "End blocks also ends a block that End block has already ended and that still holds its lock "
                 "while it finishes its current instruction: a second block_end for it - the Block Time stack loses a level it never "
                 "pushed and reads 0.0 for the rest of the run")
    for x in ast.walk(ebs.node):
        if isinstance(x, ast.IfExp) and isinstance(x.body, ast.Subscript) and isinstance(x.body.value, ast.Name) and x.body.value.id in lists \
                and isinstance(x.test, ast.Compare) and len(x.test.ops) == 1 and isinstance(x.test.ops[0], ast.Lt):
            idx, bound = norm(x.body.slice), norm(x.test.comparators[0])
            inst = f"visit_EndBlocksNode: `{norm(x)[:70]}` names the next enclosing block whenever there is one"
            if norm(x.test.left) == idx and bound == f"len({x.body.value.id})":
                ctx.ok("R05h", inst)
            else:
                ctx.fail("R05h", ebs, x, inst, f"the index `{idx}` is valid up to len({x.body.value.id}) - 1 but the guard is `{norm(x.test)}`: the "
                         "block_end event of the block below the outermost names no new block although the outermost is still active")
    # R05i
    vb = pi.methods["visit_BlockNode"]
    g = cfg_of(vb)
    tries = [n for n in g.nodes if any(isinstance(c.func, ast.Name) and c.func.id == "try_acquire_lock" for c in n.calls())]
    if not tries:
        raise AnchorError("visit_BlockNode: try_acquire_lock() call not found")
    npar = vb.node.args.args[1].arg
    for t in tries:
        inst = "visit_BlockNode: the lock is tried only when the Block is not inside an ended block"
        ok = any(isinstance(c, ast.Call) and call_attr(c) == "_is_in_ended_block" and c.args and norm(c.args[0]) == npar and not pol
                 for tt, pol in g.conditions_at(t) for c in ast.walk(tt))
        if ok:
            ctx.ok("R05i", inst)
        else:
            ctx.fail("R05i", vb, t.ast, inst, "a Block that waits for the lock while another handler's block holds it takes the lock in the "
                     "tick after `End blocks` ended everything - inside its ended parent: the Block tag names it, its body (its own "
                     "End block included) is skipped, it never ends and what follows the parent block never runs")
    # R05j
    va = pi.methods["visit_AlarmNode"]
    ga = cfg_of(va)
    apar = va.node.args.args[1].arg
    resets = [n for n in ga.nodes if any(call_attr(c) == "reset_runtime_state" and norm(c.func.value) == apar for c in n.calls())]
    if not resets:
        raise AnchorError("visit_AlarmNode: reset of the body not found")
    for r in resets:
        inst = "visit_AlarmNode: the body is reset only when no handler of it is executing"
        ok = any(isinstance(c, ast.Call) and "executing_handler" in (call_attr(c) or "") and c.args and norm(c.args[0]) == apar and not pol
                 for tt, pol in ga.conditions_at(r) for c in ast.walk(tt))
        if ok:
            ctx.ok("R05j", inst)
        else:
            ctx.fail("R05j", va, r.ast, inst, "the Alarm completes and resets its body while a Watch of the body is executing a Block: the "
                     "block's lock is cleared without a block_end, the Block tag keeps naming a block that is not active, and every "
                     "further invocation adds a block_start without a block_end")
