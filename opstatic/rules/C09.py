"""C09 - Unpause restores exactly the outputs from before that pause: captured-state kill rule.

Engine._prev_state is *captured* by Pause (= _apply_safe_state()) and *consumed* by Unpause
(_apply_state, then None). On the extracted run-state machine (opstatic.runstate, with faults) a
ghost value records what a captured state holds: the live pre-pause outputs, safe values (captured
while already paused) or an old capture (it survived the end of its pause or a run boundary).
R09a sibling rule: every function that ends a pause (`_runstate_paused = False`) or crosses a run
     boundary (`_runstate_started = ...`) consumes or clears _prev_state on the same path.
R09b Pause does not overwrite an outstanding capture: the capture is guarded by "no capture
     outstanding / not already paused".
R09c ownership: _prev_state is written only by the command classes and Engine.__init__.
R09d model check: in no reachable state did _apply_state restore a stale or safe-valued capture
     (shortest history printed otherwise).
R09f capture slot: the value captured for a register is the tag's real `.value` - the slot set_value(safe value) overwrites and
     _apply_state writes back - not a report of the tag (as_readonly / get_value return the simulation mask while simulated).
R09g the captured state is taken out of Engine._prev_state before it is applied (the clear dominates the _apply_state call, or a
     `finally` clears it): an Unpause whose _apply_state raises half-way must not leave the capture behind.
R09e capture/restore completeness (verifies the call model the machine uses for _apply_safe_state/_apply_state):
     in Engine._apply_safe_state the loop ranges over every write register that has a safe value; on *every* path
     through its body the tag's pre-value (`tag.as_readonly()`) is appended to the captured list *before* the tag is
     set to the safe value (no register is skipped - an output that happens to sit at its safe value when Pause runs
     can still be changed while paused and must be restored); the function returns a TagValueCollection of exactly
     that list; Engine._apply_state sets every tag of _iter_all_tags() that the state has to state.get(name).value,
     under no further condition.
Decides that a captured state cannot outlive its pause and that it covers every safe-valued output; equality of the
tag values themselves is value-level.
"""
from __future__ import annotations

import ast

from ..model import AnchorError, norm, walk_no_nested
from ..runstate import Explorer, Explorers, CONTROL, show, sd, IMPL, ENGINE
from ..util import cfg_of, call_attr, assigned_attrs, node_calls
from ..cfg import facts_at

EXPLANATION = __doc__


def run(ctx) -> None:
    prog, res = ctx.prog, ctx.res
    for r, d in [("R09a", "pause exits / run boundaries clear or consume the captured state"),
                 ("R09b", "Pause does not re-capture over an outstanding capture"),
                 ("R09c", "ownership of _prev_state"), ("R09d", "no stale or safe-valued restore reachable"),
                 ("R09e", "capture covers every safe-valued output, before it is overwritten; restore applies every captured value")]:
        ctx.rule(r, d)
    eng = prog.cls(ENGINE)
    impl = prog.module(IMPL)
    funcs = [m for c in impl.classes.values() for m in c.methods.values()] + list(eng.methods.values())

    def is_engine(e, f):
        return any(c is eng for c in res.receiver_classes(e, f))

    # ---- R09a
    funcs = funcs + list(impl.functions.values())

    def clears(x) -> bool:
        if x.kind != "stmt":
            return False
        for t, v, st in assigned_attrs(x.ast):
            if t.attr == "_prev_state" and isinstance(v, ast.Constant) and v.value is None:
                return True
        return False

    def is_entry(f) -> bool:
        # what the command scheduler / the engine's own API invokes; anything else is a helper whose callers are checked
        return (f.cls is not None and f.cls.module is impl and f.name in ("_run", "cancel")) or f.cls is eng

    leaky: dict[int, object] = {}      # helpers that end a pause / cross a run boundary and leave the capture: id(node) -> FuncInfo

    def sites_of(f, g):
        out = []
        for n in g.nodes:
            if n.kind != "stmt":
                continue
            for t, v, st in assigned_attrs(n.ast):
                if not is_engine(t.value, f) or not isinstance(v, ast.Constant):
                    continue
                if (t.attr == "_runstate_paused" and v.value is False) or t.attr == "_runstate_started":
                    out.append((n, t.attr, f"`{n.text()}`"))
            for c in n.calls():
                for callee in res.resolve_call(c, f, cha=False):
                    if id(callee.node) in leaky:
                        out.append((n, "_runstate_paused", f"`{n.text()[:60]}` (which ends the pause in {callee.short})"))
        return out

    def worst_site(f, g, sites):
        for (n, attr, what) in sites:
            yields = [y for y in g.nodes if y.kind == "stmt" and isinstance(y.ast, ast.Expr) and isinstance(y.ast.value, (ast.Yield, ast.YieldFrom))]

            def same_segment(x, n=n) -> bool:
                # no `yield` (tick boundary, other commands may run) between the clear and the site
                for y in yields:
                    if g.search([x.id], lambda z, y=y: z.id == y.id) is not None and g.search([y.id], lambda z: z.id == n.id) is not None:
                        return False
                return True
            before = any(clears(x) and g.dominates(x, n) and same_segment(x) for x in g.nodes)
            after = g.path_to_exit_avoiding([n.id], clears) is None
            if not (before or after):
                # the clear may sit behind `if prev is not None` (Unpause): a path that takes the edge on which no
                # capture is outstanding has nothing to clear
                def none_edge(nid, dd, lab):
                    nn = g.nodes[nid]
                    if nn.kind != "test":
                        return False
                    t = norm(nn.ast)
                    return ("_prev_state is not None" in t and lab == "F") or ("_prev_state is None" in t and lab == "T")
                p = g.search([n.id], lambda x: x.id == g.exit.id, blocked=lambda x, n=n: x.id != n.id and clears(x),
                             blocked_edge=none_edge, follow_exc=False)
                after = p is None
            if not (before or after):
                return (n, attr, what)
        return None

    for _round in range(3):     # helpers first: a leaking helper turns its call sites into sites of the callers
        grew = False
        for f in funcs:
            if is_entry(f) or f.name == "__init__" or id(f.node) in leaky:
                continue
            g = cfg_of(f)
            st = sites_of(f, g)
            if st and worst_site(f, g, st) is not None:
                leaky[id(f.node)] = f
                grew = True
        if not grew:
            break
    for f in funcs:
        if not is_entry(f) or f.name == "__init__":
            continue
        g = cfg_of(f)
        sites = sites_of(f, g)
        if not sites:
            continue
        ctx.analysed(f)
        worst = worst_site(f, g, sites)
        inst = f"{f.short} ends a pause / crosses a run boundary and clears or consumes _prev_state"
        if worst is None:
            ctx.ok("R09a", inst, {"rule": "R09a", "function": f.short, "sites": [n.text() for n, _, _ in sites]})
        else:
            n, attr, desc = worst
            what = "ends the pause" if attr == "_runstate_paused" else "crosses a run boundary"
            ctx.fail("R09a", f, n.ast, inst, f"{desc} {what} but the output values captured by an earlier Pause stay in "
                     f"_prev_state: a later Unpause (e.g. after an error pause in the next run) restores values from before an "
                     f"already-undone pause / an earlier run")
    ctx.extra["helpers_ending_a_pause_without_clearing"] = [f.short for f in leaky.values()]
    ctx.floor("R09a", 4)
    # ---- R09b
    pause = impl.classes["PauseEngineCommand"].methods["_run"]
    ctx.analysed(pause)
    g = cfg_of(pause)
    caps = [n for n in g.nodes if n.kind == "stmt" and any(
        t.attr == "_prev_state" and isinstance(v, ast.Call) and call_attr(v) == "_apply_safe_state" for t, v, st in assigned_attrs(n.ast))]
    if not caps:
        raise AnchorError("PauseEngineCommand._run: capture `_prev_state = _apply_safe_state()` not found")
    for n in caps:
        facts = facts_at(g, n)
        guarded = any(("_prev_state is None" in a and pol) or ("_prev_state is not None" in a and not pol)
                      or (a.endswith("_runstate_paused") and not pol) or (a.endswith("already_paused") and not pol)
                      for a, pol in facts)
        inst = f"{pause.short}: {n.text()} guarded against an outstanding capture"
        if guarded:
            ctx.ok("R09b", inst)
        else:
            ctx.fail("R09b", pause, n.ast, inst, "a Pause executed while already paused (two requests validated before either "
                     "ran, or a method Pause and a user Pause in one tick) captures the *safe* values: Unpause then restores "
                     "safe values instead of the outputs from before the pause")
    # ---- R09g: the capture is taken out before it is applied
    ctx.rule("R09g", "the captured state is cleared before (or whatever happens while) it is applied")
    from ..model import parent_map
    n_apply = 0
    for f in funcs:
        g = cfg_of(f)
        for n in g.nodes:
            for c in n.calls():
                if call_attr(c) != "_apply_state" or not isinstance(c.func, ast.Attribute) or not is_engine(c.func.value, f):
                    continue
                n_apply += 1
                ctx.analysed(f)
                inst = f"{f.short}: _prev_state is cleared before `{norm(c)[:50]}` runs"
                before = any(clears(x) and g.dominates(x, n) for x in g.nodes if x.id != n.id)
                pm_ = parent_map(f.node)
                cur, in_finally = c, False
                while id(cur) in pm_:
                    par = pm_[id(cur)]
                    if isinstance(par, ast.Try) and any(cur is s_ for s_ in par.body) and any(
                            t.attr == "_prev_state" and isinstance(v, ast.Constant) and v.value is None
                            for fb in par.finalbody for t, v, st in assigned_attrs(fb)):
                        in_finally = True
                    cur = par
                if before or in_finally:
                    ctx.ok("R09g", inst)
                else:
                    ctx.fail("R09g", f, c, inst, "the capture is cleared only after it has been applied: applying can fail half-way (a tag refuses "
                             "a captured value), the exception is swallowed by the command's tick, the run continues un-paused with the "
                             "capture still in place - every later Pause then skips its own capture and every later Unpause applies this one again")
    if n_apply == 0:
        raise AnchorError("no call of Engine._apply_state found in the control commands")
    # ---- R09e
    ass = eng.find_method("_apply_safe_state")
    aps = eng.find_method("_apply_state")
    if ass is None or aps is None:
        raise AnchorError("Engine._apply_safe_state/_apply_state missing")
    ctx.analysed(ass)
    ctx.analysed(aps)
    ga = cfg_of(ass)
    loops = [n for n in ga.nodes if n.kind == "for"]
    if len(loops) != 1:
        raise AnchorError("Engine._apply_safe_state: expected exactly one loop over the safe-valued registers")
    lp = loops[0]
    # the iterated collection: registers with Write direction and a safe value, no further filter
    from ..util import local_single_defs
    it_def = local_single_defs(ass).get(norm(lp.ast.iter)) if isinstance(lp.ast.iter, ast.Name) else lp.ast.iter
    inst = "_apply_safe_state: iterates every write register with a safe value"
    conds = []
    if isinstance(it_def, ast.ListComp) and len(it_def.generators) == 1:
        for i in it_def.generators[0].ifs:
            conds += [norm(v) for v in (i.values if isinstance(i, ast.BoolOp) and isinstance(i.op, ast.And) else [i])]
    if it_def is not None and isinstance(it_def, ast.ListComp) and "registers" in norm(it_def.generators[0].iter) \
            and len(conds) == 2 and any("RegisterDirection.Write in" in c for c in conds) and any("'safe_value' in" in c for c in conds):
        ctx.ok("R09e", inst)
    else:
        ctx.fail("R09e", ass, lp.ast, inst, f"the register selection is {conds or norm(lp.ast.iter)}: outputs with a safe value "
                 "may be left out of the capture (and of the safe state)")

    # the tag local: receiver of the safe-value write
    tagvars = {c.func.value.id for n_ in ga.nodes for c in n_.calls() if call_attr(c) == "set_value" and isinstance(c.func, ast.Attribute)
               and isinstance(c.func.value, ast.Name) and c.args and "safe_value" in norm(local_single_defs(ass).get(
                   c.args[0].id, c.args[0]) if isinstance(c.args[0], ast.Name) else c.args[0])}

    def capture_expr(n):
        for c in n.calls():
            if call_attr(c) == "append" and c.args and any(isinstance(x, ast.Name) and x.id in tagvars for x in ast.walk(c.args[0])):
                return c.args[0]
        return None

    def is_capture(n):
        return capture_expr(n) is not None

    def sets_safe(n):
        return any(call_attr(c) == "set_value" and c.args and "safe_value" in norm(c.args[0]) for c in n.calls()) or any(
            call_attr(c) == "set_value" and c.args and isinstance(c.args[0], ast.Name) and "safe_value" in norm(
                local_single_defs(ass).get(c.args[0].id, c.args[0])) for c in n.calls())
    cap_nodes = [n for n in ga.nodes if is_capture(n)]
    set_nodes = [n for n in ga.nodes if sets_safe(n)]
    if not cap_nodes or not set_nodes:
        raise AnchorError("Engine._apply_safe_state: capture (append(tag.as_readonly())) or safe write (set_value(safe_value)) not found")
    inst = "_apply_safe_state: every register's pre-value is captured on every path of the loop body"
    p_skip = ga.search([(lp.id, "loop")], lambda n: n.id == lp.id, blocked=is_capture, follow_exc=False)
    if p_skip is not None:
        ctx.fail("R09e", ass, lp.ast, inst, "a path through the loop body skips the capture: an output left out of the captured "
                 "state (e.g. because it already holds its safe value) is not restored by Unpause although it can be changed "
                 "while the engine is paused", p_skip)
    else:
        ctx.ok("R09e", inst)
    inst = "_apply_safe_state: the pre-value is captured before the tag is overwritten with the safe value"
    p_late = ga.search([(lp.id, "loop")], sets_safe, blocked=is_capture, follow_exc=False)
    if p_late is not None:
        ctx.fail("R09e", ass, set_nodes[0].ast, inst, "the safe value is written before the previous value was captured: the "
                 "capture holds the safe value", p_late)
    else:
        ctx.ok("R09e", inst)
    # R09f: what is captured is the slot that is overwritten: set_value writes the tag's real `.value`; a capture through a method
    # that reports the simulation mask (simulated_value when simulated) stores the mask, and Unpause writes it into the real value
    ctx.rule("R09f", "the capture reads the real value that the safe state overwrites")
    tagc = prog.cls("openpectus.lang.exec.tags:Tag")
    for cn in cap_nodes:
        e_ = capture_expr(cn)
        inst = "_apply_safe_state: the captured value is the tag's real value"
        via_mask = None
        for c in ast.walk(e_):
            if isinstance(c, ast.Call) and isinstance(c.func, ast.Attribute) and isinstance(c.func.value, ast.Name) and c.func.value.id in tagvars:
                m_ = tagc.find_method(c.func.attr)
                if m_ is not None and any(isinstance(x, ast.Attribute) and x.attr in ("simulated_value",) for x in ast.walk(m_.node)) or (
                        m_ is not None and any(isinstance(x, ast.Call) and call_attr(x) == "get_value" for x in ast.walk(m_.node))):
                    via_mask = c
        reads_value = any(isinstance(x, ast.Attribute) and x.attr == "value" and isinstance(x.value, ast.Name) and x.value.id in tagvars
                          for x in ast.walk(e_))
        if via_mask is None and reads_value:
            ctx.ok("R09f", inst)
        elif via_mask is not None:
            ctx.fail("R09f", ass, via_mask, inst, f"`{norm(via_mask)}` reports the simulated value while the tag is simulated, but the safe state "
                     "overwrites (and Unpause later restores into) the real value: after Pause/Unpause of a simulated output the "
                     "simulation mask has become the real output value, and 'Simulate off' drives the hardware with it")
        else:
            ctx.fail("R09f", ass, e_, inst, "the captured expression does not read the tag's `.value`")
    # the returned collection is built from the captured list
    cap_list = {norm(c.func.value) for n in cap_nodes for c in n.calls() if call_attr(c) == "append"}
    rets = [n for n in ga.nodes if n.kind == "stmt" and isinstance(n.ast, ast.Return)]
    for r in rets:
        inst = f"_apply_safe_state: {r.text()}"
        v = r.ast.value
        if isinstance(v, ast.Call) and call_attr(v) == "TagValueCollection" and len(v.args) == 1 and norm(v.args[0]) in cap_list \
                and len(cap_list) == 1:
            ctx.ok("R09e", inst)
        else:
            ctx.fail("R09e", ass, r.ast, inst, "the returned state is not the collection of all captured pre-values")
    gp = cfg_of(aps)
    ploops = [n for n in gp.nodes if n.kind == "for"]
    inst = "_apply_state: every tag present in the state is set to its captured value"
    okp = False
    spar = aps.node.args.args[1].arg if len(aps.node.args.args) > 1 else "state"
    if len(ploops) == 1 and "_iter_all_tags" in norm(ploops[0].ast.iter) and isinstance(ploops[0].ast.target, ast.Name):
        tv = ploops[0].ast.target.id
        sets = [n for n in gp.nodes if any(call_attr(c) == "set_value" and norm(c.func) == f"{tv}.set_value" for c in n.calls())]
        if len(sets) == 1:
            conds2 = [(norm(e), pol) for e, pol in gp.conditions_at(sets[0])]
            sv = next(c for c in sets[0].calls() if call_attr(c) == "set_value")
            val = sv.args[0] if sv.args else None
            vdef = local_single_defs(aps).get(norm(val).split(".")[0]) if val is not None else None
            src_ok = val is not None and norm(val).endswith(".value") and (
                f"{spar}.get({tv}.name)" in norm(val) or (vdef is not None and norm(vdef) == f"{spar}.get({tv}.name)"))
            if conds2 == [(f"{spar}.has({tv}.name)", True)] and src_ok:
                okp = True
    if okp:
        ctx.ok("R09e", inst)
    else:
        ctx.fail("R09e", aps, aps.node, inst, "the restore is conditional on more than `state.has(tag.name)` or does not write "
                 "state.get(tag.name).value: some captured outputs are not put back")
    # ---- R09c
    for f in prog.iter_functions():
        for t, v, st in assigned_attrs(f.node):
            if t.attr == "_prev_state" and is_engine(t.value, f):
                inst = f"{f.short}: {norm(st)}"
                if (f.cls is not None and f.cls.module.name == IMPL) or (f.cls is eng and f.name == "__init__"):
                    ctx.ok("R09c", inst, trivial=True)
                else:
                    ctx.fail("R09c", f, st, inst, "_prev_state written outside the control commands")
    # ---- R09d
    # two explorations: one user request per tick gap with a scheduler that may let in-flight commands stall (coarse), and two
    # (quick) or three (thorough) requests per gap with the exact scheduler of execute_commands (every driven command steps in every tick)
    ex = Explorers(Explorer(ctx, faults=True, track=("prev", "cap", "outs", "bad_restore", "err")),
                   Explorer(ctx, faults=True, track=("prev", "cap", "outs", "bad_restore", "err"), max_pending=3 if ctx.tier == "thorough" else 2, exact=True))
    ex.explore()
    ctx.extra["states"] = len(ex.reach)
    ctx.extra["transitions"] = ex.edges
    bad = {}
    for s in ex.reach:
        d = sd(s)
        if d["bad_restore"] is not None and d["bad_restore"] not in bad:
            bad[d["bad_restore"]] = s
    if not bad:
        ctx.ok("R09d", f"no stale/safe-valued restore in {len(ex.reach)} reachable states", {"rule": "R09d", "states": len(ex.reach)})
    structural = [fd for fd in ctx.findings if fd.rule in ("R09a", "R09b")]
    for kind, s in bad.items():
        msg = ("Unpause restored a capture that survived the end of its pause or a run boundary" if kind == "old"
               else "a pause of the running run ended with the safe values it had applied still in place: nothing had been captured "
                    "for this pause (e.g. a Pause that executed while the engine was already paused by an error skipped the "
                    "capture), so Unpause restored nothing" if kind == "none"
               else "Unpause restored safe values that had been captured while a pause was already in effect")
        hist = " > ".join(ex.trace(s))
        if structural:
            # explained by the structural findings: attach the history to them instead of a second report
            for fd in structural:
                if (kind == "old" and fd.rule == "R09a") or (kind == "psafe" and fd.rule == "R09b"):
                    fd.message += f" | model-checked history: {hist}"
            if any((kind == "old" and fd.rule == "R09a") or (kind == "psafe" and fd.rule == "R09b") for fd in structural):
                continue
        ctx.fail("R09d", ex.tick, ex.tick.node, f"reachable bad restore ({kind})", f"{msg} | history: {hist} | state: {show(s)}",
                 function="openpectus.engine.internal_commands_impl (run-state machine)")
