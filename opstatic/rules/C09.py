"""C09 - Unpause restores exactly the outputs from before that pause: captured-state kill rule.

Engine._prev_state is *captured* by Pause (= _apply_safe_state()) and *consumed* by Unpause
(_apply_state, then None). On the extracted run-state machine (opstatic.runstate, with faults) a
ghost value records what a captured state holds: the live pre-pause outputs, safe values (captured
while already paused) or an old capture (it survived the end of its pause or a run boundary).
R09a sibling rule: every function that ends a pause (`_runstate_paused = False`) or crosses a run
     boundary (`_runstate_started = ...`) consumes or clears _prev_state on the same path.
R09b Pause does not overwrite an outstanding capture: the capture is guarded by "no capture
     outstanding / not already paused".
R09c ownership: _prev_state is written only by the command classes and Engine.__init__.
R09d model check: in no reachable state did _apply_state restore a stale or safe-valued capture
     (shortest history printed otherwise).
Decides that a captured state cannot outlive its pause; equality of tag values is value-level.
"""
from __future__ import annotations

import ast

from ..model import AnchorError, norm, walk_no_nested
from ..runstate import Explorer, CONTROL, show, sd, IMPL, ENGINE
from ..util import cfg_of, call_attr, assigned_attrs
from ..cfg import facts_at

EXPLANATION = __doc__


def run(ctx) -> None:
    prog, res = ctx.prog, ctx.res
    for r, d in [("R09a", "pause exits / run boundaries clear or consume the captured state"),
                 ("R09b", "Pause does not re-capture over an outstanding capture"),
                 ("R09c", "ownership of _prev_state"), ("R09d", "no stale or safe-valued restore reachable")]:
        ctx.rule(r, d)
    eng = prog.cls(ENGINE)
    impl = prog.module(IMPL)
    funcs = [m for c in impl.classes.values() for m in c.methods.values()] + list(eng.methods.values())

    def is_engine(e, f):
        return any(c is eng for c in res.receiver_classes(e, f))

    # ---- R09a
    funcs = funcs + list(impl.functions.values())

    def clears(x) -> bool:
        if x.kind != "stmt":
            return False
        for t, v, st in assigned_attrs(x.ast):
            if t.attr == "_prev_state" and isinstance(v, ast.Constant) and v.value is None:
                return True
        return False

    def is_entry(f) -> bool:
        # what the command scheduler / the engine's own API invokes; anything else is a helper whose callers are checked
        return (f.cls is not None and f.cls.module is impl and f.name in ("_run", "cancel")) or f.cls is eng

    leaky: dict[int, object] = {}      # helpers that end a pause / cross a run boundary and leave the capture: id(node) -> FuncInfo

    def sites_of(f, g):
        out = []
        for n in g.nodes:
            if n.kind != "stmt":
                continue
            for t, v, st in assigned_attrs(n.ast):
                if not is_engine(t.value, f) or not isinstance(v, ast.Constant):
                    continue
                if (t.attr == "_runstate_paused" and v.value is False) or t.attr == "_runstate_started":
                    out.append((n, t.attr, f"`{n.text()}`"))
            for c in n.calls():
                for callee in res.resolve_call(c, f, cha=False):
                    if id(callee.node) in leaky:
                        out.append((n, "_runstate_paused", f"`{n.text()[:60]}` (which ends the pause in {callee.short})"))
        return out

    def worst_site(f, g, sites):
        for (n, attr, what) in sites:
            yields = [y for y in g.nodes if y.kind == "stmt" and isinstance(y.ast, ast.Expr) and isinstance(y.ast.value, (ast.Yield, ast.YieldFrom))]

            def same_segment(x, n=n) -> bool:
                # no `yield` (tick boundary, other commands may run) between the clear and the site
                for y in yields:
                    if g.search([x.id], lambda z, y=y: z.id == y.id) is not None and g.search([y.id], lambda z: z.id == n.id) is not None:
                        return False
                return True
            before = any(clears(x) and g.dominates(x, n) and same_segment(x) for x in g.nodes)
            after = g.path_to_exit_avoiding([n.id], clears) is None
            if not (before or after):
                # the clear may sit behind `if prev is not None` (Unpause): a path that takes the edge on which no
                # capture is outstanding has nothing to clear
                def none_edge(nid, dd, lab):
                    nn = g.nodes[nid]
                    if nn.kind != "test":
                        return False
                    t = norm(nn.ast)
                    return ("_prev_state is not None" in t and lab == "F") or ("_prev_state is None" in t and lab == "T")
                p = g.search([n.id], lambda x: x.id == g.exit.id, blocked=lambda x, n=n: x.id != n.id and clears(x),
                             blocked_edge=none_edge, follow_exc=False)
                after = p is None
            if not (before or after):
                return (n, attr, what)
        return None

    for _round in range(3):     # helpers first: a leaking helper turns its call sites into sites of the callers
        grew = False
        for f in funcs:
            if is_entry(f) or f.name == "__init__" or id(f.node) in leaky:
                continue
            g = cfg_of(f)
            st = sites_of(f, g)
            if st and worst_site(f, g, st) is not None:
                leaky[id(f.node)] = f
                grew = True
        if not grew:
            break
    for f in funcs:
        if not is_entry(f) or f.name == "__init__":
            continue
        g = cfg_of(f)
        sites = sites_of(f, g)
        if not sites:
            continue
        ctx.analysed(f)
        worst = worst_site(f, g, sites)
        inst = f"{f.short} ends a pause / crosses a run boundary and clears or consumes _prev_state"
        if worst is None:
            ctx.ok("R09a", inst, {"rule": "R09a", "function": f.short, "sites": [n.text() for n, _, _ in sites]})
        else:
            n, attr, desc = worst
            what = "ends the pause" if attr == "_runstate_paused" else "crosses a run boundary"
            ctx.fail("R09a", f, n.ast, inst, f"{desc} {what} but the output values captured by an earlier Pause stay in "
                     f"_prev_state: a later Unpause (e.g. after an error pause in the next run) restores values from before an "
                     f"already-undone pause / an earlier run")
    ctx.extra["helpers_ending_a_pause_without_clearing"] = [f.short for f in leaky.values()]
    ctx.floor("R09a", 4)
    # ---- R09b
    pause = impl.classes["PauseEngineCommand"].methods["_run"]
    ctx.analysed(pause)
    g = cfg_of(pause)
    caps = [n for n in g.nodes if n.kind == "stmt" and any(
        t.attr == "_prev_state" and isinstance(v, ast.Call) and call_attr(v) == "_apply_safe_state" for t, v, st in assigned_attrs(n.ast))]
    if not caps:
        raise AnchorError("PauseEngineCommand._run: capture `_prev_state = _apply_safe_state()` not found")
    for n in caps:
        facts = facts_at(g, n)
        guarded = any(("_prev_state is None" in a and pol) or ("_prev_state is not None" in a and not pol)
                      or (a.endswith("_runstate_paused") and not pol) or (a.endswith("already_paused") and not pol)
                      for a, pol in facts)
        inst = f"{pause.short}: {n.text()} guarded against an outstanding capture"
        if guarded:
            ctx.ok("R09b", inst)
        else:
            ctx.fail("R09b", pause, n.ast, inst, "a Pause executed while already paused (two requests validated before either "
                     "ran, or a method Pause and a user Pause in one tick) captures the *safe* values: Unpause then restores "
                     "safe values instead of the outputs from before the pause")
    # ---- R09c
    for f in prog.iter_functions():
        for t, v, st in assigned_attrs(f.node):
            if t.attr == "_prev_state" and is_engine(t.value, f):
                inst = f"{f.short}: {norm(st)}"
                if (f.cls is not None and f.cls.module.name == IMPL) or (f.cls is eng and f.name == "__init__"):
                    ctx.ok("R09c", inst, trivial=True)
                else:
                    ctx.fail("R09c", f, st, inst, "_prev_state written outside the control commands")
    # ---- R09d
    ex = Explorer(ctx, faults=True, track=("prev", "cap", "outs", "bad_restore", "err"))
    ex.explore()
    ctx.extra["states"] = len(ex.reach)
    ctx.extra["transitions"] = ex.edges
    bad = {}
    for s in ex.reach:
        d = sd(s)
        if d["bad_restore"] is not None and d["bad_restore"] not in bad:
            bad[d["bad_restore"]] = s
    if not bad:
        ctx.ok("R09d", f"no stale/safe-valued restore in {len(ex.reach)} reachable states", {"rule": "R09d", "states": len(ex.reach)})
    structural = [fd for fd in ctx.findings if fd.rule in ("R09a", "R09b")]
    for kind, s in bad.items():
        msg = ("Unpause restored a capture that survived the end of its pause or a run boundary" if kind == "old"
               else "Unpause restored safe values that had been captured while a pause was already in effect")
        hist = " > ".join(ex.trace(s))
        if structural:
            # explained by the structural findings: attach the history to them instead of a second report
            for fd in structural:
                if (kind == "old" and fd.rule == "R09a") or (kind == "psafe" and fd.rule == "R09b"):
                    fd.message += f" | model-checked history: {hist}"
            if any((kind == "old" and fd.rule == "R09a") or (kind == "psafe" and fd.rule == "R09b") for fd in structural):
                continue
        ctx.fail("R09d", ex.tick, ex.tick.node, f"reachable bad restore ({kind})", f"{msg} | history: {hist} | state: {show(s)}",
                 function="openpectus.engine.internal_commands_impl (run-state machine)")
