"""C12 - Cancel and Force requests take effect exactly as offered: check-before-mutate + sibling agreement.

R12a check-before-mutate: in Tracking.mark_cancelled / mark_forced the record state (Cancelled /
     Forced) is appended only after node.cancel() / node.force() returned true (a refusal raises), and
     no caller disables that check (update_node=False). SupportCancelForce.cancel/force (and every
     override) set their flag only under `cancellable` / `forcible`; the NodeWithCondition overrides of
     the two properties are checked against the visitors by R12e.
R12b sibling agreement: CommandManager.cancel_instruction and force_instruction treat the three cases
     (unknown instance id / command instance / plain node) alike: an unknown id is *rejected* (raise)
     in both, a command is cancelled/forced and tracked, a node is tracked through Tracking.
R12c flags are consulted: every waiting loop in PInterpreter (a `while` whose body yields) that belongs
     to a cancellable/forcible instruction reads the corresponding flag (node.forced / node.cancelled,
     directly or through _is_awaiting_threshold / _try_activate_node); PauseEngineCommand.cancel and
     HoldEngineCommand.cancel run the inverse command and complete.
Decides the reject-or-apply structure; tick-exact timing of the effect is not decided.
R12d a cancelled command is finalized at once: in CommandManager.cancel_instruction every path on which the request is
     accepted for a command instance (`command is not None`) reaches a finalisation before the function returns -
     _cancel_command(request) with its finalize flag omitted or literally True, or finalize() on the command (a
     `not is_finalized()` test may skip it when nothing is left to finalize). A finalisation deferred to a later tick
     leaves the cancelled instance registered; a new request of the same name finds it, and the cancelled request then
     recreates and runs the command again - the cancelled instruction performs its effect after the cancel.
R12e request-state model (opstatic/condnode.py, shared with C04 R04e): over every interleaving of cancel/force requests with
     the yields of visit_WatchNode / visit_AlarmNode (requests accepted exactly when the class' own cancellable / forcible
     property holds): the body of a cancelled Watch is never invoked, and a generator that was resumed after an accepted
     force does not come back to the same yield in the same state (it proceeds without waiting).
R12f what is accepted is what is offered: the run log stops offering an item as cancellable/forcible at its first conclusive
     state (Completed / Failed / Cancelled; RuntimeInfo._get_record_runlog_items clears both flags there), but the node-level
     `cancellable`/`forcible` do not look at completion (a UOD command node stays cancellable, a Wait stays forcible). So
     CommandManager.cancel_instruction and force_instruction must themselves refuse a concluded invocation: every
     mutation in them (_cancel_command, <cmd>.cancel()/force(), tracking.mark_cancelled/mark_forced) is dominated by a test
     of a conclusive-state predicate on the instance id (a Tracking method that examines the states of that instance for
     all three conclusive members) whose "concluded" outcome raises.
R12g a cancelled instruction is not started afterwards: a UOD / engine command instruction is offered as cancellable from the
     moment the interpreter visits it, one tick before the command manager starts its command. A cancel accepted in that gap
     marks the node cancelled and records Cancelled, but the request is already queued - so CommandManager._execute_command
     must test the conclusive-state predicate on the request's instance id before it dispatches to the executors, and the
     concluded outcome must retire the request without reaching them.
R12h the request reaches the invocation it names: in cancel_instruction the executing request is looked up by the instance id of
     the item (not by the command's name - another request of that name may be the one executing); in the node branch of
     cancel_instruction and force_instruction the mutation is refused unless the item is the record's latest invocation (after an
     Alarm re-armed or a macro was called again the node's flags describe the *new* invocation, and the state would be
     recorded on it).
R12i one run-log item per invocation: PInterpreter.visit creates an instance id (state Created = a run-log item shown as
     started with the node's flags) for the visit it starts. The visit methods of interrupt nodes (those that call
     _register_interrupt and return without recording any state) are entered twice per invocation - by the program flow to
     register and by the interrupt handler to run. If visit() creates an id on both entries, the first id never gets another
     state: its item stays started/cancellable/forcible for the whole run, and since the node branch (R12h) serves only the
     latest id, a request for that offered item is refused (before R12h: it was redirected to whatever invocation was current).
     Rule: in visit() the creation is conditional, and the path that skips it is guarded by `interrupt_registered`.
R12j what will never run is not offered: when a block ends, _abort_block_interrupts drops the handlers of the Watches and Alarms in
     it. A Watch/Alarm that was still waiting for its condition (offered as cancellable and forcible) is concluded there - a
     tracking.mark_* call on the dropped node under the not-activated condition - otherwise its item stays started and offered for
     the rest of the run and an accepted force never proceeds (the handler that would honour it is gone).
"""
from __future__ import annotations
from ..absint import sd as sd_

import ast

from ..model import AnchorError, norm, walk_no_nested
from ..util import cfg_of, call_attr, node_calls, assigned_attrs
from ..cfg import facts_at
from ..condnode import CondModel

EXPLANATION = __doc__
CM = "openpectus.engine.command_manager:CommandManager"
TR = "openpectus.lang.exec.tracking:Tracking"


def _deferred_finalization_ok(ctx, prog, res) -> bool:
    """A command that was cancelled (command.cancel(), Cancelled recorded when tracking accepts it) but not finalized, and whose
    request stays in the executing list, is finalized by the command loop in the next tick iff
      * the gate of _execute_command retires a concluded request and finalizes the live command that carries the request's instance
        id (cmdgate + the own-instance finalize in the concluded branch), and
      * for a request that is not concluded (tracking refused the mark) both executors finalize a command that is_cancelled()."""
    from ..cmdgate import concluded_gate
    gate_ok, ecf, disp = concluded_gate(prog, res)
    if not gate_ok:
        return False
    ge = cfg_of(ecf)
    rpar = ecf.node.args.args[1].arg
    fins = [n for n in ge.nodes if n.ast is not None and any(call_attr(c) in ("_finalize_command", "finalize") for c in n.calls())]
    own = [n for n in fins if any(("instance_id" in norm(e) and rpar in norm(e) and pol) for e, pol in ge.conditions_at(n))]
    if not own:
        return False
    for nm in ("_execute_uod_command", "_execute_internal_command"):
        k = prog.func(f"{CM}.{nm}")
        gk = cfg_of(k)
        tests = [n for n in gk.nodes if n.kind == "test" and isinstance(n.ast, ast.Call) and call_attr(n.ast) == "is_cancelled"]
        if not tests:
            return False
        for t in tests:
            # from the cancelled outcome every path to an exit finalizes (or finds the command already finalized)
            def done(sid, dd, lab, gk=gk):
                nn = gk.nodes[sid]
                return nn.kind == "test" and norm(nn.ast).endswith(".is_finalized()") and lab == "T"
            pth = gk.search([(t.id, "T")], lambda n: n.id in (gk.exit.id, gk.raise_exit.id), blocked=lambda n: n.ast is not None and any(
                call_attr(c) in ("_finalize_command", "finalize") for c in n.calls()), blocked_edge=done, follow_exc=False)
            if pth is not None:
                return False
    return True


def _never_forcible(prog, visitor):
    """Name of the node class of a visit_<Class> method if no instance of it is ever offered as forcible: the first __init__ along
    its MRO that assigns self._forcible assigns the constant False, nothing else assigns it, and `forcible` is not overridden."""
    if len(visitor.node.args.args) < 2 or visitor.node.args.args[1].annotation is None:
        return None
    cname = norm(visitor.node.args.args[1].annotation).split(".")[-1]
    try:
        cls = prog.cls("openpectus.lang.model.ast:" + cname)
    except Exception:
        return None
    root = "SupportCancelForce"
    for c in [cls] + cls.all_subclasses():
        for k in c.mro():
            if k.name == root:
                break
            if "forcible" in k.methods or "force" in k.methods:
                return None
    for c in [cls] + cls.all_subclasses():
        decided = False
        for k in c.mro():
            init = k.methods.get("__init__")
            if init is None:
                continue
            vals = [v for t, v, st in assigned_attrs(init.node) if t.attr == "_forcible"]
            if vals:
                if not all(isinstance(v, ast.Constant) and v.value is False for v in vals) or k.name == root:
                    return None
                decided = True
                break
        if not decided:
            return None
        for k in c.mro():
            for mn, mm in k.methods.items():
                if mn != "__init__" and k.name != root and any(t.attr == "_forcible" for t, v, st in assigned_attrs(mm.node)):
                    return None
    return cname


def run(ctx) -> None:
    prog, res = ctx.prog, ctx.res
    for r, d in [("R12a", "record state appended only after a successful cancel()/force(); flags set only when offered"),
                 ("R12b", "cancel_instruction and force_instruction agree on reject-or-apply"),
                 ("R12c", "waiting loops consult the cancel/force flags")]:
        ctx.rule(r, d)
    # ---- R12a
    for mname, op, state in (("mark_cancelled", "cancel", "Cancelled"), ("mark_forced", "force", "Forced")):
        f = prog.func(f"{TR}.{mname}")
        ctx.analysed(f)
        g = cfg_of(f)
        adds = [n for n in g.nodes if any(call_attr(c) == "_add_record_state" and state in norm(c) for c in n.calls())]
        tests = [n for n in g.nodes if n.kind == "test" and f".{op}()" in norm(n.ast)]
        if not adds or not tests:
            raise AnchorError(f"Tracking.{mname}: state append / node.{op}() test not found")
        t = tests[0]
        neg = norm(t.ast).startswith("not ")
        refused = "T" if neg else "F"
        # A request or command instance arrives here after its command has been cancelled (CommandManager._cancel_command): that
        # cancellation is a fact and is recorded whatever the node says (C10 R10f). The rule is about requests that name the node.
        from ..util import local_single_defs as _lsd12a
        ld12 = _lsd12a(f)
        ipar12 = [a.arg for a in f.node.args.args if a.arg != "self"][0]

        def cmd_side(sid, dd, lab, g=g, ld12=ld12, ipar12=ipar12):
            nd = g.nodes[sid]
            if nd.kind != "test" or lab not in ("T", "F"):
                return False
            e = nd.ast
            if isinstance(e, ast.Name) and e.id in ld12:
                e = ld12[e.id]
            tx = norm(e)
            if tx.startswith(f"isinstance({ipar12},") and ("CommandRequest" in tx or "EngineCommand" in tx) and ".Node" not in tx:
                return lab == "T"
            if tx.startswith(f"isinstance({ipar12},") and ".Node" in tx and "CommandRequest" not in tx:
                return lab == "F"
            return False
        p = g.search([(t.id, refused)], lambda n: n.id == adds[0].id, follow_exc=False, blocked_edge=cmd_side)
        inst = f"Tracking.{mname}: {state} recorded only after node.{op}() succeeded"
        if p is None:
            ctx.ok("R12a", inst)
        else:
            ctx.fail("R12a", f, t.ast, inst, f"a refused {op} (item not offered as {op}able) still records the state {state} and the "
                     f"request is answered as accepted", p)
        # the check can be bypassed only through update_node=False: no caller may do so
        for fn in prog.iter_functions():
            for c in walk_no_nested(fn.node):
                if isinstance(c, ast.Call) and call_attr(c) == mname:
                    byp = any(k.arg == "update_node" and not (isinstance(k.value, ast.Constant) and k.value.value is True) for k in c.keywords) \
                        or len(c.args) > 1
                    inst = f"{fn.short}: {norm(c)[:70]} keeps the offered-check"
                    if byp:
                        ctx.fail("R12a", fn, c, inst, f"{mname} called with update_node disabled: the cancellable/forcible check is skipped")
                    else:
                        ctx.ok("R12a", inst)
    scf = prog.cls("openpectus.lang.model.ast:SupportCancelForce")
    for c in [scf] + scf.all_subclasses():
        for mname, flag, prop in (("cancel", "_cancelled", "cancellable"), ("force", "_forced", "forcible")):
            m = c.methods.get(mname)
            if m is None:
                continue
            ctx.analysed(m)
            g = cfg_of(m)
            for n in g.nodes:
                if n.kind == "stmt" and any(t.attr == flag and isinstance(v, ast.Constant) and v.value is True for t, v, st in assigned_attrs(n.ast)):
                    facts = facts_at(g, n)
                    inst = f"{c.name}.{mname}: {flag} set only when {prop}"
                    if any(a == f"self.{prop}" and pol for a, pol in facts):
                        ctx.ok("R12a", inst)
                    else:
                        ctx.fail("R12a", m, n.ast, inst, f"the flag is set although the instruction is not {prop}")
    # (the agreement of the NodeWithCondition overrides with what the visitors still honour is decided by R12e)
    # ---- R12b
    shapes = {}
    for mname in ("cancel_instruction", "force_instruction"):
        f = prog.func(f"{CM}.{mname}")
        ctx.analysed(f)
        g = cfg_of(f)
        tests = [n for n in g.nodes if n.kind == "test" and "has_instance_id" in norm(n.ast)]
        if not tests:
            raise AnchorError(f"{mname}: has_instance_id test not found")
        t = tests[0]
        unknown = "T" if norm(t.ast).startswith("not ") else "F"
        # does the unknown branch reach the normal exit?
        p = g.search([(t.id, unknown)], lambda n: n.id == g.exit.id, follow_exc=False)
        shapes[mname] = {"unknown_rejected": p is None, "test": t, "path": p, "func": f}
        op = "cancel" if "cancel" in mname else "force"
        mark = "mark_cancelled" if op == "cancel" else "mark_forced"
        known = "F" if unknown == "T" else "T"
        # known branch: every path to exit passes a mark_* call (tracking) - through _cancel_command for commands
        def tracks(n) -> bool:
            return any(call_attr(c) in (mark, "_cancel_command") for c in n.calls())
        p2 = g.search([(t.id, known)], lambda n: n.id == g.exit.id, blocked=tracks, follow_exc=False)
        inst = f"{mname}: a known id is always tracked through {mark}"
        if p2 is None:
            ctx.ok("R12b", inst)
        else:
            ctx.fail("R12b", f, t.ast, inst, "a path accepts the request without applying it", p2)
    for mname, sh in shapes.items():
        inst = f"CommandManager.{mname}: unknown instance id is rejected"
        if sh["unknown_rejected"]:
            ctx.ok("R12b", inst)
        else:
            sib = [k for k in shapes if k != mname][0]
            ctx.fail("R12b", sh["func"], sh["test"].ast, inst,
                     f"a request for an instance id without runtime record only logs and returns normally"
                     f"{' (the sibling ' + sib + ' raises)' if shapes[sib]['unknown_rejected'] else ''}: the caller answers the "
                     f"request with success although nothing was {'cancelled' if 'cancel' in mname else 'forced'}", sh["path"])
    # ---- R12c
    pi = prog.cls("openpectus.lang.exec.pinterpreter:PInterpreter")
    want = {"visit_WatchNode": {"cancelled", "forced"}, "visit_AlarmNode": {"cancelled", "forced"}}
    helpers = {}
    for hn in ("_is_awaiting_threshold", "_try_activate_node", "_evaluate_condition"):
        h = pi.methods.get(hn)
        if h is not None:
            helpers[hn] = {x.attr for x in ast.walk(h.node) if isinstance(x, ast.Attribute) and x.attr in ("forced", "cancelled")}
    n_loops = 0
    for m in pi.methods.values():
        g = cfg_of(m)
        for n in walk_no_nested(m.node):
            if not isinstance(n, ast.While):
                continue
            has_yield = any(isinstance(x, (ast.Yield, ast.YieldFrom)) for x in walk_no_nested(n))
            if not has_yield:
                continue
            flags = {x.attr for x in ast.walk(n) if isinstance(x, ast.Attribute) and x.attr in ("forced", "cancelled")}
            for c in ast.walk(n):
                if isinstance(c, ast.Call) and call_attr(c) in helpers:
                    flags |= helpers[call_attr(c)]
                    if call_attr(c) == "_try_activate_node":
                        flags |= helpers.get("_evaluate_condition", set())
            cond = norm(n.test)
            if m.name in ("visit_ProgramNode", "tick_iterate_subticks") or cond == "True":
                continue   # the idle loop of the program root / the sub-tick driver are not instruction waits
            n_loops += 1
            ctx.analysed(m)
            inst = f"PInterpreter.{m.name}: while {cond[:60]} consults cancel/force flags"
            need = want.get(m.name, {"forced"})
            # block-end waits are ended by End block, not by force
            if "has_only_trailing_whitespace" in cond:
                continue   # blank/comment lines are not run-log items and are never offered as cancellable/forcible
            # a wait behind the walk of the instruction's own body: the instruction has run, it is no longer offered as
            # cancellable or forcible (NodeWithCondition.cancellable/forcible require `not activated`, decided by R12e)
            npar_ = m.node.args.args[1].arg if len(m.node.args.args) > 1 else None
            walks_ = [x for x in g.nodes if x.ast is not None and any(call_attr(c) == "_visit_children" and c.args and norm(c.args[0]) == npar_
                                                                       for c in x.calls())]
            lnodes = [x for x in g.nodes if x.kind == "test" and x.ast is n.test]
            if walks_ and lnodes and all(any(g.dominates(w_, ln) for w_ in walks_) for ln in lnodes):
                ctx.ok("R12c", inst + " (behind the body walk: the instruction is not offered any more)", trivial=True)
                continue
            if "block_ended" in cond or "children_complete" in cond or "lock" in cond:
                ctx.ok("R12c", inst + " (ended by End block, not forcible)", trivial=True)
                continue
            never = _never_forcible(prog, m)
            if never:
                ctx.ok("R12c", inst + f" ({never} is never offered as forcible: _forcible = False, no override of `forcible`)", trivial=True)
                continue
            if need <= flags:
                ctx.ok("R12c", inst, {"rule": "R12c", "loop": cond, "flags": sorted(flags)})
            else:
                ctx.fail("R12c", m, n, inst, f"waiting loop reads {sorted(flags)} but the instruction is offered as "
                         f"{'cancellable and ' if 'cancelled' in need else ''}forcible: a {sorted(need - flags)} request would be "
                         f"recorded and then ignored")
    ctx.extra["waiting_loops"] = n_loops
    if n_loops < 3:
        raise AnchorError(f"only {n_loops} waiting loops found in PInterpreter (floor 3)")
    impl = prog.module("openpectus.engine.internal_commands_impl")
    for cn, inv in (("PauseEngineCommand", "UnpauseEngineCommand"), ("HoldEngineCommand", "UnholdEngineCommand")):
        m = impl.classes[cn].methods.get("cancel")
        inst = f"{cn}.cancel runs {inv}._run and completes"
        if m is None:
            ctx.fail("R12c", impl.classes[cn].methods["_run"], impl.classes[cn].node, inst, "no cancel override: a cancelled timed "
                     "pause/hold keeps waiting")
            continue
        ctx.analysed(m)
        txt = norm(m.node)
        if inv in txt and "._run()" in txt and "set_complete()" in txt and "super().cancel()" in txt:
            ctx.ok("R12c", inst)
        else:
            ctx.fail("R12c", m, m.node, inst, "cancel does not end the timed pause/hold at once")

    # ---- R12d
    ctx.rule("R12d", "an accepted cancel of a command instance finalizes it before returning")
    ci = prog.func("openpectus.engine.command_manager:CommandManager.cancel_instruction")
    ctx.analysed(ci)
    gci = cfg_of(ci)
    from ..util import local_single_defs as _lsd
    cdefs = _lsd(ci)
    cmd_locals = [k for k, v in cdefs.items() if isinstance(v, ast.Call) and call_attr(v) == "get_command"]
    tests = [n for n in gci.nodes if n.kind == "test" and any(norm(n.ast) == f"{c} is not None" for c in cmd_locals)]
    if not cmd_locals or not tests:
        raise AnchorError("cancel_instruction: `command = tracking.get_command(..)` / `if command is not None` not found")

    def finalizes(n) -> bool:
        for c in n.calls():
            nm = call_attr(c)
            if nm == "_cancel_command":
                fin = next((k.value for k in c.keywords if k.arg == "finalize"), c.args[1] if len(c.args) > 1 else None)
                if fin is None or (isinstance(fin, ast.Constant) and fin.value is True):
                    return True
            if nm in ("finalize", "_finalize_command"):
                return True
        return False

    def nothing_left(sid, d, lab) -> bool:
        nn = gci.nodes[sid]
        if nn.kind != "test":
            return False
        t = norm(nn.ast)
        if t.endswith(".is_finalized()"):
            return lab == ("F" if t.startswith("not ") else "T")
        return False
    for t in tests:
        inst = "cancel_instruction: command instance is finalized on every accepting path"
        p = gci.search([(t.id, "T")], lambda n: n.id == gci.exit.id, blocked=finalizes, blocked_edge=nothing_left, follow_exc=False)
        p2 = None
        if p is not None and _deferred_finalization_ok(ctx, prog, res):
            # the path cancels through _cancel_command without finalizing at once: the request stays in the executing list and the
            # command is finalized in the next tick, by the gate of _execute_command or by the executor's is_cancelled branch
            p2 = gci.search([(t.id, "T")], lambda n: n.id == gci.exit.id, blocked=lambda n: finalizes(n) or any(
                call_attr(c) == "_cancel_command" for c in n.calls()), blocked_edge=nothing_left, follow_exc=False)
            if p2 is None:
                ctx.ok("R12d", inst + " (at once, or in the next tick by the command loop)", {"rule": "R12d", "deferred": True})
                continue
        if p is None:
            ctx.ok("R12d", inst)
        else:
            weak = [norm(c) for n in p for c in n.calls() if call_attr(c) == "_cancel_command"]
            ctx.fail("R12d", ci, t.ast, inst, "a path accepts the cancel of a command instance and returns without finalizing it"
                     + (f" (`{weak[0][:90]}` does not pass finalize=True unconditionally)" if weak else "") +
                     ": the cancelled instance stays registered until a later tick; a new request of the same name picks it up and "
                     "the cancelled request recreates and runs the command again", p)

    # ---- R12e
    ctx.rule("R12e", "accepted cancel/force requests of Watch and Alarm take effect in the visitor")
    pi_ = prog.cls("openpectus.lang.exec.pinterpreter:PInterpreter")
    for kname, vname in (("WatchNode", "visit_WatchNode"), ("AlarmNode", "visit_AlarmNode")):
        kls = prog.cls("openpectus.lang.model.ast:" + kname)
        f = pi_.methods.get(vname)
        if f is None:
            raise AnchorError(f"PInterpreter.{vname} missing")
        m = CondModel(prog, res, kls, f)
        if len(m.reach) < 10 or not m.body_states:
            raise AnchorError(f"{vname}: request-state exploration is degenerate")
        for q in m.b._funcs:
            ctx.analysed(q)
        forced_points = sum(1 for k in m.reach if k[0] == "resume" and m.forced(k[2]))
        inst = f"{vname}: a forced instruction does not keep waiting"
        if forced_points == 0:
            raise AnchorError(f"{vname}: no force request is ever accepted in the model")
        if not m.stuck:
            ctx.ok("R12e", inst, {"rule": "R12e", "forced_resume_points": forced_points})
        else:
            key, y, st = m.stuck[0]
            ctx.fail("R12e", f, m.g.nodes[y].ast, inst, "after an accepted force the generator comes back to the same yield with nothing "
                     f"changed: the instruction keeps waiting | history: {m.history(key)}")
        inst = f"{vname}: an accepted force is not dropped"
        if not m.dropped:
            ctx.ok("R12e", inst)
        else:
            key, r = m.dropped[0]
            flags = ", ".join(k for k, v in sd_(r[2]).items() if v)
            ctx.fail("R12e", f, f.node, inst, f"the force request is accepted in a state ({flags}) in which the visitor ends without ever "
                     f"invoking the body, also when it is entered again: the request is acknowledged and has no effect | history: {m.history(key)}")
        inst = f"{vname}: an accepted cancel keeps the body from running"
        bad = [bk for bk in m.body_states if m.cancelled(bk[2])]
        if not bad:
            ctx.ok("R12e", inst)
        else:
            ctx.fail("R12e", f, m.g.nodes[bad[0][1]].ast, inst, f"the body runs although the cancel request was accepted | history: {m.history(bad[0])}")

    # ---- R12f
    ctx.rule("R12f", "requests for concluded invocations are refused before anything is changed")
    cmc = prog.cls(CM)
    trc = prog.cls(TR)
    enum_cls = "RuntimeRecordStateEnum"

    def is_conclusive_predicate(fn) -> bool:
        txt = {norm(n) for n in ast.walk(fn.node) if isinstance(n, ast.Attribute)}
        # examines the states recorded for the given instance id for all three conclusive members
        ps = [a.arg for a in fn.node.args.args if a.arg not in ("self", "cls")]
        uses_param = bool(ps) and any(isinstance(n, ast.Name) and n.id == ps[0] for n in ast.walk(fn.node))
        return uses_param and all(f"{enum_cls}.{m}" in txt for m in ("Completed", "Failed", "Cancelled"))
    for mname in ("cancel_instruction", "force_instruction"):
        f = cmc.methods.get(mname)
        if f is None:
            raise AnchorError(f"CommandManager.{mname} missing")
        ctx.analysed(f)
        g = cfg_of(f)
        ipar = f.node.args.args[1].arg
        muts = [n for n in g.nodes if n.ast is not None and any(
            call_attr(c) in ("_cancel_command", "cancel", "force", "mark_cancelled", "mark_forced") for c in n.calls())]
        if not muts:
            raise AnchorError(f"{mname}: no cancel/force mutation found")
        guards = []
        for t in g.nodes:
            if t.kind != "test":
                continue
            for c in ast.walk(t.ast):
                if isinstance(c, ast.Call) and any(isinstance(a, ast.Name) and a.id == ipar for a in c.args):
                    for tgt in res.resolve_call(c, f, cha=False):
                        if is_conclusive_predicate(tgt):
                            e_, neg = t.ast, False
                            while isinstance(e_, ast.UnaryOp) and isinstance(e_.op, ast.Not):
                                e_, neg = e_.operand, not neg
                            if e_ is c:      # the test is the predicate itself under an even/odd number of negations
                                guards.append((t, "F" if neg else "T", tgt))
        inst = f"{mname}: a concluded invocation is refused before any change"
        ok_ = False
        for t, lab, tgt in guards:
            reaches = g.search([(t.id, lab)], lambda n: any(n.id == m.id for m in muts), follow_exc=False)
            leaves_normally = g.path_to_exit_avoiding([(t.id, lab)], lambda n: False, follow_exc=False)
            if reaches is None and leaves_normally is None and all(g.dominates(t, m) for m in muts):
                ok_ = True
                ctx.analysed(tgt)
        if ok_:
            ctx.ok("R12f", inst)
        else:
            ctx.fail("R12f", f, muts[0].ast, inst, "the request is applied without testing whether this invocation has already completed, "
                     "failed or been cancelled: the run log does not offer such an item as cancellable/forcible, yet the request is "
                     "accepted (a UOD command node stays cancellable and a Wait forcible after completion) and a further state is "
                     "recorded after the conclusive one - get_runlog() then raises for the rest of the run")

    # ---- R12g
    ctx.rule("R12g", "a request whose instruction has concluded is not executed")
    from ..cmdgate import concluded_gate
    ok_, ec, disp = concluded_gate(prog, res)
    ctx.analysed(ec)
    inst = "_execute_command: a request whose invocation has concluded is retired, not executed"
    if ok_:
        ctx.ok("R12g", inst)
    else:
        ctx.fail("R12g", ec, disp[0].ast, inst, "a command request is executed although its instruction may already have been cancelled: "
                 "the instruction is offered as cancellable in the tick between its visit and the start of its command; a cancel "
                 "accepted there records Cancelled, yet the queued request starts the command in the next tick - the cancelled "
                 "instruction performs its effect, and the states recorded after Cancelled make get_runlog() raise")

    # ---- R12h
    ctx.rule("R12h", "a request acts on the invocation it names")
    ci = cmc.methods["cancel_instruction"]
    lookups = [c for c in walk_no_nested(ci.node) if isinstance(c, ast.Call) and (call_attr(c) or "").startswith("_get_executing_command_request")]
    ipar_ = ci.node.args.args[1].arg
    inst = "cancel_instruction: the executing request is found by the item's instance id"
    by_id = [c for c in lookups if c.args and isinstance(c.args[0], ast.Name) and c.args[0].id == ipar_]
    if lookups and len(by_id) == len(lookups):
        ctx.ok("R12h", inst)
    elif not lookups:
        raise AnchorError("cancel_instruction: lookup of the executing request not found")
    else:
        bad = [c for c in lookups if c not in by_id][0]
        ctx.fail("R12h", ci, bad, inst, f"`{norm(bad)}` finds a request by command name: when another request of that name is executing (the item's own "
                 "command was superseded or has finished) the cancel hits that other instruction's running command and the item itself "
                 "stays as it was")
    # ---- R12i
    ctx.rule("R12i", "one instance id (run-log item) per invocation of an interrupt node")
    pic = ctx.prog.cls("openpectus.lang.exec.pinterpreter:PInterpreter")
    reg_visits = []
    for nm, vf in sorted(pic.methods.items()):
        if not nm.startswith("visit_"):
            continue
        gv = cfg_of(vf)
        regs = [n for n in gv.nodes if n.ast is not None and any(call_attr(c) == "_register_interrupt" for c in n.calls())]
        for rn in regs:
            # from the registration to the exit without a tracking.mark_* call
            hit = gv.search([rn.id], lambda n: n.id == gv.exit.id, blocked=lambda n: n.ast is not None and n.id != rn.id and any(
                (call_attr(c) or "").startswith("mark_") for c in n.calls()), follow_exc=False)
            if hit is not None:
                reg_visits.append(nm)
                break
    if len(reg_visits) < 2:
        raise AnchorError(f"visit methods that register an interrupt and return without recording a state: {reg_visits}, expected Watch and Alarm")
    vis = pic.methods["visit"]
    from ..util import local_single_defs as _lsd12i
    ctx.analysed(vis)
    gvis = cfg_of(vis)
    creates = [n for n in gvis.nodes if n.ast is not None and any(call_attr(c) == "create_node_instance_id" for c in n.calls())]
    disp = [n for n in gvis.nodes if n.ast is not None and any(isinstance(c.func, ast.Attribute) and c.func.attr == "visit" and isinstance(c.func.value, ast.Call)
                                                                and norm(c.func.value.func) == "super" for c in n.calls())]
    if not creates or not disp:
        raise AnchorError("PInterpreter.visit: create_node_instance_id / super().visit dispatch not found")
    inst = f"PInterpreter.visit: the handler's visit of {', '.join(reg_visits)} continues the instance of the registering visit"
    cids = {n.id for n in creates}
    skip = gvis.search(None, lambda n: n.id == disp[0].id, blocked=lambda n: n.id in cids)
    guarded = all(any("interrupt_registered" in a for a, pol in facts_at(gvis, n, _lsd12i(vis))) or
                  any("interrupt_registered" in norm(e) for e, pol in gvis.conditions_at(n)) for n in creates)
    if skip is not None and guarded:
        ctx.ok("R12i", inst, {"rule": "R12i", "registering_visits": reg_visits})
    else:
        ctx.fail("R12i", vis, creates[0].ast, inst, "every entry of visit() creates a new instance id: the id created by the registering visit of a Watch/Alarm "
                 "never gets another state, so each Watch/Alarm leaves a second run-log item that is `started`, cancellable and forcible for "
                 "the rest of the run; a cancel/force request for that offered item cannot act on the invocation it names")
    # ---- R12j
    ctx.rule("R12j", "a waiting Watch/Alarm whose handler is dropped with its block is concluded")
    abf = pic.methods.get("_abort_block_interrupts")
    if abf is None:
        raise AnchorError("PInterpreter._abort_block_interrupts missing")
    ctx.analysed(abf)
    gab = cfg_of(abf)
    unreg = [n for n in gab.nodes if n.ast is not None and any(call_attr(c) == "_unregister_interrupt" for c in n.calls())]
    if not unreg:
        raise AnchorError("_abort_block_interrupts: _unregister_interrupt not found")
    concl = [n for n in gab.nodes if n.ast is not None and any(call_attr(c) in ("mark_cancelled", "mark_completed", "mark_failed") for c in n.calls())]
    inst = "_abort_block_interrupts: a dropped Watch/Alarm that has not been activated gets a conclusive state"
    good = [n for n in concl if any(a.endswith(".activated") and not pol for a, pol in facts_at(gab, n))
            and any(gab.search([u.id], lambda x, n=n: x.id == n.id, follow_exc=False) is not None or gab.dominates(n, u) for u in unreg)]
    if good:
        ctx.ok("R12j", inst)
    else:
        ctx.fail("R12j", abf, unreg[0].ast, inst, "the handler is unregistered and nothing concludes the instruction: `Block: B1 / Watch: Run Counter > 5 / "
                 "Mark: W // Wait: 0.4s / End block`, `Wait: 2s` - after End block the Watch item stays started, cancellable=True, "
                 "forcible=True; a force at tick 13 is accepted, the item shows `forced` and `Mark: W` is never written")
    for mname in ("cancel_instruction", "force_instruction"):
        f = cmc.methods[mname]
        g = cfg_of(f)
        ip = f.node.args.args[1].arg
        node_marks = [n for n in g.nodes if n.ast is not None and any(
            call_attr(c) in ("mark_cancelled", "mark_forced") and c.args and "node" in norm(c.args[0]) for c in n.calls())]
        # role: the mark whose argument is the node looked up through the record (get_known_node_by_id)
        from ..util import local_single_defs as _lsd12
        node_marks = [n for n in g.nodes if n.ast is not None and any(
            call_attr(c) in ("mark_cancelled", "mark_forced") and c.args and isinstance(c.args[0], ast.Name)
            and "get_known_node_by_id" in norm(_lsd12(f).get(c.args[0].id, c.args[0])) for c in n.calls())]
        if not node_marks:
            raise AnchorError(f"{mname}: node branch (mark of the node found through the record) not recognised")
        inst = f"{mname}: the node branch acts only on the record's latest invocation"
        ok_ = all(any("last_instance_id" in a and ip in a for a, pol in facts_at(g, n)) for n in node_marks)
        if ok_:
            ctx.ok("R12h", inst)
        else:
            ctx.fail("R12h", f, node_marks[0].ast, inst, "the request is validated against the node's current flags and recorded on the record's latest "
                     "invocation whatever item was named: after an Alarm re-armed, a request for the earlier (not offered) Watch item "
                     "forces or cancels the Watch of the new invocation")
