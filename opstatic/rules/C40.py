"""C40 - Requests from the aggregator apply atomically between ticks: lock discipline.

Cross-thread entry points = the Engine methods EngineMessageHandlers calls from the asyncio thread
(discovered from engine_message_handlers.py). Shared state = what Engine.tick touches inside its
`with self._lock` region: the interpreter, tracking / runtime records, method manager, command
manager and the run-state flags.
R40a every statement of an entry point that touches shared state - calls a method on
     self._method_manager / self.method_manager / self.interpreter / self._interpreter /
     self.tracking / self._tracking / self._command_manager, calls set_error_state /
     clear_error_state, or writes a _runstate_* flag - lies inside `with self._lock` (lexically, or the
     whole entry point is only called from inside the lock). The hand-off
     CommandManager.schedule(request) (a queue.Queue put) is exempt - the queue is the
     synchronisation.
R40b the tick body between reading the hardware and writing it runs under the lock (interpreter
     tick, command manager tick, tag notification).
R40c the lock is a non-reentrant threading.Lock: no function reachable from inside a locked region
     acquires it again (checked for the entry points and the functions Engine.tick calls on self).
R40d an acknowledged request survives the next request: a set_method that merges (a live edit) replaces the interpreter, and
     Engine.on_interpreter_reset then builds a new CommandManager. What the old one had accepted - requests still queued (acknowledged
     to the aggregator, not yet executed) and requests executing over several ticks - must reach the new manager or be settled
     there (same construct as C14 R14f). Otherwise "applied completely before the next tick" fails for the request before the edit:
     a Stop accepted in one tick gap and an edit in the same gap - the Stop never executes.
Decides the lock structure; it does not model the GIL or asyncio scheduling.
"""
from __future__ import annotations

import ast

from ..model import AnchorError, norm, walk_no_nested, parent_map
from ..util import cfg_of, call_attr

EXPLANATION = __doc__
ENGINE = "openpectus.engine.engine:Engine"
SHARED_RECV = ("self._method_manager", "self.method_manager", "self.interpreter", "self._interpreter", "self.tracking",
               "self._tracking", "self._command_manager")


def _locked_withs(f):
    return [n for n in walk_no_nested(f.node) if isinstance(n, ast.With) and any(norm(i.context_expr) == "self._lock" for i in n.items)]


def _inside(pm, node, containers):
    cur = pm.get(id(node))
    while cur is not None:
        if any(cur is c for c in containers):
            return True
        cur = pm.get(id(cur))
    return False


def _run_main(ctx) -> None:
    prog, res = ctx.prog, ctx.res
    for r, d in [("R40a", "entry points touch shared state only under Engine._lock"), ("R40b", "tick body runs under the lock"),
                 ("R40c", "the lock is never re-acquired from inside a locked region")]:
        ctx.rule(r, d)
    eng = prog.cls(ENGINE)
    init = eng.methods["__init__"]
    lock_def = [n for n in walk_no_nested(init.node) if isinstance(n, ast.Assign) and norm(n.targets[0]) == "self._lock"]
    if not lock_def or norm(lock_def[0].value) not in ("Lock()", "threading.Lock()"):
        raise AnchorError(f"Engine._lock is not a threading.Lock(): {norm(lock_def[0].value) if lock_def else None}")
    hm = prog.module("openpectus.engine.engine_message_handlers")
    entries = set()
    for c in hm.classes.values():
        for m in c.methods.values():
            for call in walk_no_nested(m.node):
                if isinstance(call, ast.Call) and isinstance(call.func, ast.Attribute) and norm(call.func.value) == "self.engine" \
                        and call.func.attr in eng.methods:
                    entries.add(call.func.attr)
    if len(entries) < 4:
        raise AnchorError(f"only {len(entries)} engine entry points found in engine_message_handlers.py")
    ctx.extra["entry_points"] = sorted(entries)
    sched = prog.func("openpectus.engine.command_manager:CommandManager.schedule")
    sched_ok = all(isinstance(s, ast.Expr) and isinstance(s.value, ast.Call) and "cmd_queue.put" in norm(s.value.func)
                   for s in sched.node.body if not (isinstance(s, ast.Expr) and isinstance(s.value, ast.Constant)))
    _touch_cache: dict[str, bool] = {}

    def touches_shared(m, depth=0) -> bool:
        """Does Engine method m (transitively through self-calls) touch shared state?"""
        if m.name in _touch_cache:
            return _touch_cache[m.name]
        _touch_cache[m.name] = False
        hit = False
        for n in walk_no_nested(m.node):
            if isinstance(n, ast.Call) and isinstance(n.func, ast.Attribute):
                recv = norm(n.func.value)
                if recv in SHARED_RECV and not (n.func.attr == "schedule" and sched_ok):
                    hit = True
                elif recv == "self" and n.func.attr in ("set_error_state", "clear_error_state"):
                    hit = True
                elif recv == "self" and n.func.attr in eng.methods and depth < 4 and touches_shared(eng.methods[n.func.attr], depth + 1):
                    hit = True
            elif isinstance(n, (ast.Assign, ast.AugAssign)):
                tg = n.targets[0] if isinstance(n, ast.Assign) else n.target
                if isinstance(tg, ast.Attribute) and tg.attr.startswith("_runstate_") and norm(tg.value) == "self":
                    hit = True
        _touch_cache[m.name] = hit
        return hit

    for name in sorted(entries):
        f = eng.methods[name]
        ctx.analysed(f)
        pm = parent_map(f.node)
        locks = _locked_withs(f)
        offenders = []
        for n in walk_no_nested(f.node):
            touch = None
            if isinstance(n, ast.Call) and isinstance(n.func, ast.Attribute) and norm(n.func.value) == "self" \
                    and n.func.attr in eng.methods and n.func.attr not in ("set_error_state", "clear_error_state") \
                    and touches_shared(eng.methods[n.func.attr]):
                ctx.analysed(eng.methods[n.func.attr])
                if not _inside(pm, n, locks):
                    offenders.append((n, f"self.{n.func.attr}(...) [touches shared state]"))
                continue
            if isinstance(n, ast.Call) and isinstance(n.func, ast.Attribute):
                recv = norm(n.func.value)
                if recv in SHARED_RECV:
                    if n.func.attr == "schedule" and recv == "self._command_manager" and sched_ok:
                        continue
                    if n.func.attr in ("program_is_started",):
                        touch = None
                    else:
                        touch = f"{recv}.{n.func.attr}(...)"
                elif recv == "self" and n.func.attr in ("set_error_state", "clear_error_state"):
                    touch = f"self.{n.func.attr}(...)"
            elif isinstance(n, ast.Attribute) and isinstance(n.ctx, ast.Load) and norm(n) in ("self.method_manager.program_is_started",):
                touch = norm(n)
            elif isinstance(n, (ast.Assign, ast.AugAssign)):
                tg = n.targets[0] if isinstance(n, ast.Assign) else n.target
                if isinstance(tg, ast.Attribute) and tg.attr.startswith("_runstate_") and norm(tg.value) == "self":
                    touch = norm(tg)
            if touch and not _inside(pm, n, locks):
                offenders.append((n, touch))
        inst = f"Engine.{name}: shared state only under self._lock"
        if not offenders:
            ctx.ok("R40a", inst, {"rule": "R40a", "entry": name, "locked_regions": len(locks)})
        else:
            n0, t0 = offenders[0]
            ctx.fail("R40a", f, n0, inst,
                     f"called from the aggregator's thread, `{t0}`" + (f" (and {len(offenders) - 1} more)" if len(offenders) > 1 else "") +
                     " touches state that Engine.tick uses under self._lock but is not inside `with self._lock`: the request can "
                     "interleave with a running tick and observe or leave a half-updated interpreter")
    # ---- R40b
    tick = eng.methods["tick"]
    ctx.analysed(tick)
    pm = parent_map(tick.node)
    locks = _locked_withs(tick)
    need = ["self.interpreter.tick", "self._command_manager.tick", "self.tracking.tick", "self.notify_tag_updates", "self.update_calculated_tags"]
    for nm in need:
        calls = [c for c in walk_no_nested(tick.node) if isinstance(c, ast.Call) and norm(c.func) == nm]
        inst = f"Engine.tick: {nm}(...) under self._lock"
        if calls and all(_inside(pm, c, locks) for c in calls):
            ctx.ok("R40b", inst)
        else:
            ctx.fail("R40b", tick, calls[0] if calls else tick.node, inst, "this part of the tick is not protected by the lock")
    # ---- R40c
    acquirers = {m.name for m in eng.methods.values() if _locked_withs(m)}
    def reaches_acquirer(f, depth, seen):
        if depth < 0 or id(f.node) in seen:
            return None
        seen.add(id(f.node))
        for c in walk_no_nested(f.node):
            if isinstance(c, ast.Call) and isinstance(c.func, ast.Attribute):
                if norm(c.func.value) in ("self", "self.engine", "e", "self.context") and c.func.attr in acquirers:
                    for callee in res.resolve_call(c, f, cha=False):
                        if callee.cls is eng:
                            return [f.short, callee.short]
                for callee in res.resolve_call(c, f, cha=False):
                    if callee.module.name.startswith(("openpectus.engine.", "openpectus.lang.exec.pinterpreter", "openpectus.lang.exec.tracking")):
                        r_ = reaches_acquirer(callee, depth - 1, seen)
                        if r_:
                            return [f.short] + r_
        return None
    for m in eng.methods.values():
        for w in _locked_withs(m):
            for c in walk_no_nested(w):
                if isinstance(c, ast.Call):
                    for callee in res.resolve_call(c, m, cha=False):
                        if callee.cls is eng and callee.name in acquirers and callee is not m:
                            ctx.fail("R40c", m, c, f"Engine.{m.name}: calls {callee.name} while holding self._lock",
                                     "the non-reentrant lock would be acquired twice: the engine thread deadlocks")
                        elif callee.module.name.startswith(("openpectus.engine.", "openpectus.lang.exec.pinterpreter")):
                            r_ = reaches_acquirer(callee, 4, set())
                            if r_:
                                ctx.fail("R40c", m, c, f"Engine.{m.name}: locked region reaches {' > '.join(r_)}",
                                         "a function called while holding the non-reentrant lock acquires it again: deadlock")
            ctx.ok("R40c", f"Engine.{m.name}: locked region does not re-acquire the lock")


def run(ctx) -> None:
    _run_main(ctx)
    from .C14 import _r14f
    _r14f(ctx, "R40d", " | for C40: a Stop, Pause, Hold, Restart or uod command that arrives during a tick is acknowledged and queued; a "
          "set_method (edit) applied before the next tick drops it - the command never executes, silently; an edit one tick after Stop "
          "leaves System State Running with _runstate_stopping True for ever")
