"""C23 - Hardware connection recovery follows the documented protocol: extracted state machine vs. doc.

The transition relation of ErrorRecoveryDecorator is extracted by explicit-state abstract
interpretation of its methods (domain: self.state in the 5 ErrorRecoveryState members, plus the
value last written to the Connection Status tag); time comparisons and hardware outcomes are
nondeterministic.
R23a the set of extracted edges s -> s' (over read, read_batch, write, write_batch, connect,
     disconnect, tick from every state) equals the documented edge set; the sentences of
     docs/src/Error Recovery.rst the table was read from must still exist; the two timeout edges are
     guarded by conditions reading reconnect_timeout_seconds / error_timeout_seconds.
R23b at every exit (return or raise) of every entry method, from every consistent start state,
     Connection Status == Disconnected  <=>  state in {Disconnected, Error}.
R23c read/write(_batch) from Issue or Reconnect never reach `raise HardwareLayerException` and the
     decorated hardware calls are inside a handler for HardwareLayerException that does not re-raise;
     from Disconnected or Error they never return normally and never touch the decorated hardware.
R23d last_known_good_reads is written only after a successful decorated read, and every return in a
     masked branch yields last-known-good values (or None when none exists).
R23e timer origins are fresh: the attribute the Issue -> Reconnect timeout is measured from is assigned
     the current time on every path of every success_* method, every successful decorated read /
     write reaches such a method before returning, and every other transition into OK (a reconnect that succeeded in tick)
     refreshes it as well; the attribute the Reconnect -> Error timeout is
     measured from is assigned the current time on every path after `state = Reconnect` (directly or
     in the callback called there). Otherwise "no success within the timeout" is measured from a stale
     origin and the transition fires early.
R23f a success needs evidence: the batch methods book a success (success_read / success_write: Issue -> OK, timer origin refreshed) only
     after the decorated hardware was asked for at least one register - on every path to the success call the *caller's* register
     list has been tested non-empty. The engine calls write_batch([], []) in every tick of a uod without write registers (and
     read_batch([]) for one without read registers); booked as a success it takes Issue back to OK every tick, so failing reads
     never reach Reconnect or Error, Connection Status stays Connected and the stale value is reported for good.
Decides the protocol shape for all fault sequences; the timeout arithmetic itself is not decided.
"""
from __future__ import annotations

import ast
import os

from ..absint import Binding, Interp, UNKNOWN, all_states, mk, sd
from ..model import AnchorError, norm, walk_no_nested, REPO
from ..util import cfg_of, call_attr, enum_members
from ..cfg import handler_is_catch_all

EXPLANATION = __doc__
CLS = "openpectus.engine.hardware_recovery:ErrorRecoveryDecorator"
STATES = ("Disconnected", "OK", "Issue", "Reconnect", "Error")
DOC_EDGES = {
    ("Disconnected", "OK"): "Once an engine is connected to hardware I/O, state is :console:`OK`",
    ("OK", "Issue"): "Such an error causes state to transition to :console:`Issue`",
    ("Issue", "OK"): "if a success read/write occurs, state transitions back to :console:`OK`",
    ("Issue", "Reconnect"): "state is set to :console:`Reconnect`",
    ("Reconnect", "OK"): "reconnect attempts are started. If successful, state is set to :console:`OK`",
    ("Reconnect", "Error"): "state is set to :console:`Error`",
    ("Error", "OK"): "If reconnect is successful, state is set to :console:`OK`",
}
ENTRIES = ["read", "read_batch", "write", "write_batch", "connect", "disconnect", "tick"]
RW = ["read", "read_batch", "write", "write_batch"]


class RecoveryBinding(Binding):
    def __init__(self, ctx, cls):
        self.ctx, self.cls = ctx, cls
        self.vars = {"state": STATES, "conn": ("Disconnected", "Connected"), "loc": (None, "Disconnected", "Connected")}
        # the local of _update_connection_status that carries the status to the tag (discovered by role, not by name)
        self.status_local = None
        ucs = cls.find_method("_update_connection_status")
        if ucs is not None:
            for c in ast.walk(ucs.node):
                if isinstance(c, ast.Call) and call_attr(c) == "set_value" and "connection_status_tag" in norm(c.func) and c.args:
                    v = c.args[0]
                    if isinstance(v, ast.Call) and call_attr(v) == "str" and v.args:
                        v = v.args[0]
                    if isinstance(v, ast.Name):
                        self.status_local = v.id

    def _is_self(self, e, f):
        return isinstance(e, ast.Name) and f.node.args.args and e.id == f.node.args.args[0].arg

    def read(self, expr, f):
        if isinstance(expr, ast.Attribute) and expr.attr == "state" and self._is_self(expr.value, f):
            return "state"
        if isinstance(expr, ast.Name) and expr.id == self.status_local and f.name == "_update_connection_status":
            return "loc"
        return None

    def const(self, expr, f, var=None):
        if isinstance(expr, ast.Attribute) and isinstance(expr.value, ast.Name):
            if expr.value.id == "ErrorRecoveryState" and expr.attr in STATES:
                return expr.attr
            if expr.value.id == "ConnectionStatusEnum":
                return expr.attr
        if isinstance(expr, ast.Constant):
            return expr.value
        return UNKNOWN

    def writes(self, n, f):
        out = []
        a = n.ast
        if n.kind == "stmt" and isinstance(a, ast.Assign):
            for t in a.targets:
                if isinstance(t, ast.Attribute) and t.attr == "state" and self._is_self(t.value, f):
                    out.append(("state", a.value))
                if isinstance(t, ast.Name) and t.id == self.status_local and f.name == "_update_connection_status":
                    out.append(("loc", a.value))
        if n.kind == "stmt":
            for c in n.calls():
                if call_attr(c) == "set_value" and "connection_status_tag" in norm(c.func) and c.args:
                    v = c.args[0]
                    if isinstance(v, ast.Call) and call_attr(v) == "str" and v.args:
                        v = v.args[0]
                    out.append(("conn", v))
        return out

    def inline(self, call, f):
        fn = call.func
        if isinstance(fn, ast.Attribute) and self._is_self(fn.value, f):
            m = self.cls.find_method(fn.attr)
            return [m] if m is not None else []
        return []


def run(ctx) -> None:
    prog = ctx.prog
    cls = prog.cls(CLS)
    for r, d in [("R23a", "extracted transition edges == documented edges"), ("R23b", "Connection Status agrees with state at every exit"),
                 ("R23c", "masking in Issue/Reconnect, raising in Disconnected/Error"), ("R23d", "last-known-good discipline"),
                 ("R23e", "timeout origins are refreshed at every success / at the transition")]:
        ctx.rule(r, d)
    # enum members still the five documented ones
    enum = prog.cls("openpectus.engine.hardware_recovery:ErrorRecoveryState")
    if set(enum_members(enum)) != set(STATES):
        raise AnchorError(f"ErrorRecoveryState members changed: {sorted(enum_members(enum))}")
    # ownership: only methods of the class write .state of the decorator
    for f in prog.iter_functions():
        if f.cls is cls:
            continue
        for n in walk_no_nested(f.node):
            if isinstance(n, ast.Assign):
                for t in n.targets:
                    if isinstance(t, ast.Attribute) and t.attr == "state" and any(
                            c is cls for c in ctx.res.receiver_classes(t.value, f)):
                        ctx.fail("R23a", f, n, f"{f.short}: {norm(n)}", "recovery state written from outside the decorator")
    b = RecoveryBinding(ctx, cls)
    it = Interp(b)
    consistent = [mk({"state": s, "conn": "Disconnected" if s in ("Disconnected", "Error") else "Connected", "loc": None})
                  for s in STATES]
    edges: dict[tuple[str, str], set[str]] = {}
    outcomes = {}
    for name in ENTRIES:
        m = cls.find_method(name)
        if m is None:
            raise AnchorError(f"{CLS}.{name} missing")
        ctx.analysed(m)
        for s0 in consistent:
            res = it.run(m, s0)
            outcomes[(name, sd(s0)["state"])] = res
            for o in res:
                st = sd(o[-1])
                a, z = sd(s0)["state"], st["state"]
                if a != z:
                    edges.setdefault((a, z), set()).add(name)
                # R23b
                want = "Disconnected" if z in ("Disconnected", "Error") else "Connected"
                inst = f"{name} from {a}: exit({o[0]}) state={z} status={st['conn']}"
                if st["conn"] == want:
                    ctx.ok("R23b", inst, {"rule": "R23b", "entry": name, "from": a, "exit": o[0], "state": z, "status": st["conn"]})
                else:
                    ctx.fail("R23b", m, m.node, f"{name}: from {a} exits in {z} with Connection Status {st['conn']}",
                             f"Connection Status must read {want} in state {z}: a state change is not followed by "
                             f"_update_connection_status on this path")
    ctx.extra["states"] = len(STATES)
    ctx.extra["transitions"] = it.transitions
    ctx.extra["extracted_edges"] = {f"{a}->{z}": sorted(v) for (a, z), v in sorted(edges.items())}
    ctx.extra["inlined_functions"] = sorted(it.inlined)
    # constructor
    init = cls.methods["__init__"]
    ctx.analysed(init)
    for o in it.run(init, mk({"state": "Disconnected", "conn": "Disconnected", "loc": None})):
        st = sd(o[-1])
        want = "Disconnected" if st["state"] in ("Disconnected", "Error") else "Connected"
        inst = f"__init__: exit({o[0]}) state={st['state']} status={st['conn']}"
        if st["state"] not in ("Disconnected", "OK"):
            ctx.fail("R23a", init, init.node, inst, "constructor may only leave the decorator Disconnected or OK")
        elif st["conn"] != want:
            ctx.fail("R23b", init, init.node, inst, "constructor leaves Connection Status inconsistent with the state")
        else:
            ctx.ok("R23b", inst)
    # ---- R23a
    doc_path = os.path.join(prog.repo, "docs", "src", "Error Recovery.rst")
    try:
        doc = " ".join(open(doc_path, encoding="utf-8").read().split())
    except OSError as ex:
        raise AnchorError(f"cannot read {doc_path}: {ex}")
    for e, sentence in DOC_EDGES.items():
        if " ".join(sentence.split()) not in doc:
            raise AnchorError(f"documented protocol sentence for edge {e} no longer found in Error Recovery.rst: {sentence!r}")
    for e in sorted(set(DOC_EDGES) | set(edges)):
        inst = f"edge {e[0]} -> {e[1]}"
        if e in DOC_EDGES and e in edges:
            ctx.ok("R23a", inst, {"rule": "R23a", "edge": inst, "via": sorted(edges[e])})
        elif e in edges:
            m = cls.find_method(sorted(edges[e])[0])
            ctx.fail("R23a", m, m.node, inst, f"transition {e[0]} -> {e[1]} (via {sorted(edges[e])}) is not part of the "
                     "documented five-state recovery protocol")
        else:
            ctx.fail("R23a", init, cls.node, inst, "documented transition cannot happen in the implementation", function=CLS)
    # timeout guards
    for tgt, field in (("Reconnect", "reconnect_timeout_seconds"), ("Error", "error_timeout_seconds")):
        found = False
        for m in cls.methods.values():
            g = cfg_of(m)
            for n in g.nodes:
                if n.kind == "stmt" and isinstance(n.ast, ast.Assign) and any(
                        isinstance(t, ast.Attribute) and t.attr == "state" for t in n.ast.targets) \
                        and norm(n.ast.value).endswith("." + tgt):
                    found = True
                    conds = [norm(c) for c, pol in g.conditions_at(n)]
                    inst = f"{m.short}: state = {tgt} guarded by {field}"
                    if any(field in c for c in conds):
                        ctx.ok("R23a", inst)
                    else:
                        ctx.fail("R23a", m, n.ast, inst, f"transition to {tgt} is not conditional on config.{field}")
        if not found:
            ctx.fail("R23a", init, cls.node, f"transition to {tgt} exists and is guarded by {field}",
                     f"no assignment `self.state = ErrorRecoveryState.{tgt}` left in the decorator", function=CLS)
    # ---- R23c
    for name in RW:
        m = cls.find_method(name)
        g = cfg_of(m)
        raise_nodes = [n for n in g.nodes if n.kind == "stmt" and isinstance(n.ast, ast.Raise) and "HardwareLayerException" in norm(n.ast)]
        dec_nodes = [n for n in g.nodes if any(norm(c.func).startswith("self.decorated.") for c in n.calls())]
        if not raise_nodes or not dec_nodes:
            raise AnchorError(f"{name}: raise HardwareLayerException / decorated call not found")
        for s in STATES:
            s0 = [c for c in consistent if sd(c)["state"] == s][0]
            it2 = Interp(b)
            res = it2.run(m, s0)
            visited_raise = [n for n in raise_nodes if s0 in it2.states_at(m, n) or it2.states_at(m, n)]
            visited_dec = [n for n in dec_nodes if it2.states_at(m, n)]
            inst = f"{name} from {s}"
            if s in ("Issue", "Reconnect"):
                if visited_raise:
                    ctx.fail("R23c", m, visited_raise[0].ast, inst, f"`{visited_raise[0].text()}` is reachable in state {s}: "
                             "errors must be masked in Issue and Reconnect")
                else:
                    ctx.ok("R23c", inst + ": no raise HardwareLayerException reachable")
                if s == "Reconnect" and visited_dec:
                    ctx.fail("R23c", m, visited_dec[0].ast, inst, "hardware is touched while reconnecting")
            elif s in ("Disconnected", "Error"):
                rets = [o for o in res if o[0] == "return"]
                if rets or visited_dec:
                    ctx.fail("R23c", m, m.node, inst, f"{name} can return normally or touch the hardware in state {s}; it must raise")
                else:
                    ctx.ok("R23c", inst + ": always raises, hardware untouched")
            else:
                ctx.ok("R23c", inst + ": normal operation", trivial=True)
        # handler discipline for decorated calls
        for n in dec_nodes:
            hs = [g.nodes[d] for d, l in g.succ[n.id] if l == "exc"]
            ok = any("HardwareLayerException" in h.text() or handler_is_catch_all(h.ast) for h in hs if h.kind == "except")
            reraise = False
            for h in hs:
                if h.kind == "except":
                    p = g.search([h.id], lambda x: x.id == g.raise_exit.id)
                    reraise = reraise or p is not None
            inst = f"{name}: {n.text()[:60]} handled"
            if ok and not reraise:
                ctx.ok("R23c", inst)
            else:
                ctx.fail("R23c", m, n.ast, inst, "hardware failure of the decorated call is not masked (no handler for "
                         "HardwareLayerException, or the handler re-raises)")
    # ---- R23d
    for name in ("read", "read_batch"):
        m = cls.find_method(name)
        g = cfg_of(m)
        dec = [n for n in g.nodes if any(norm(c.func).startswith("self.decorated.read") for c in n.calls())]
        for n in g.nodes:
            if n.kind == "stmt" and isinstance(n.ast, ast.Assign) and any(
                    isinstance(t, ast.Subscript) and "last_known_good_reads" in norm(t.value) for t in n.ast.targets):
                inst = f"{name}: {n.text()}"
                if dec and all(g.dominates(d, n) for d in dec) and not any(h.kind == "except" and g.dominates(h, n) for h in g.nodes):
                    ctx.ok("R23d", inst)
                else:
                    ctx.fail("R23d", m, n.ast, inst, "last-known-good value recorded although the hardware read did not succeed")
        for n in g.nodes:
            if n.kind == "stmt" and isinstance(n.ast, ast.Return) and n.ast.value is not None:
                masked = any(h.kind == "except" and g.dominates(h, n) for h in g.nodes) or any(
                    "Reconnect" in norm(c) and pol for c, pol in g.conditions_at(n))
                if not masked:
                    continue
                v = norm(n.ast.value)
                inst = f"{name}: masked {n.text()}"
                if "last_known_good" in v or v == "None":
                    ctx.ok("R23d", inst)
                else:
                    ctx.fail("R23d", m, n.ast, inst, "masked read does not return the last value successfully read")
    ctx.floor("R23d", 5)
    # ownership: the cache has no other writer and nothing ever removes an entry (a masked read after a removal
    # would return None although a value had been read successfully)
    REMOVERS = {"clear", "pop", "popitem", "update", "setdefault", "__delitem__", "__setitem__"}
    for fn in prog.iter_functions():
        for n in walk_no_nested(fn.node):
            what = None
            if isinstance(n, (ast.Assign, ast.AugAssign, ast.AnnAssign)):
                tgts = n.targets if isinstance(n, ast.Assign) else [n.target]
                for t in tgts:
                    if isinstance(t, ast.Subscript) and "last_known_good_reads" in norm(t.value):
                        if not (fn.cls is cls and fn.name in ("read", "read_batch")):
                            what = "written outside the success path of read/read_batch"
                    elif isinstance(t, ast.Attribute) and t.attr == "last_known_good_reads":
                        if not (fn.cls is cls and fn.name == "__init__"):
                            what = "re-bound outside __init__: the values read so far are forgotten"
            elif isinstance(n, ast.Delete):
                if any("last_known_good_reads" in norm(t) for t in n.targets):
                    what = "entries deleted: a later masked read returns None instead of the last value successfully read"
            elif isinstance(n, ast.Call) and isinstance(n.func, ast.Attribute) and n.func.attr in REMOVERS \
                    and "last_known_good_reads" in norm(n.func.value):
                what = f"mutated by .{n.func.attr}(): a later masked read may return None/another value instead of the last " \
                       "value successfully read"
            if what:
                ctx.fail("R23d", fn, n, f"{fn.short}: {norm(n)[:90]}", f"last_known_good_reads {what}")

    # ---- R23f
    ctx.rule("R23f", "a batch that touched no register is not booked as a success")
    from ..cfg import facts_at as _facts23
    for name in ("read_batch", "write_batch"):
        m = cls.find_method(name)
        if m is None:
            raise AnchorError(f"{name} missing")
        g_ = cfg_of(m)
        rpar = [a.arg for a in m.node.args.args if a.arg != "self"][-1]
        succ = [n for n in g_.nodes if n.ast is not None and any(call_attr(c) in ("success_read", "success_write") for c in n.calls())]
        if not succ:
            raise AnchorError(f"{name}: success bookkeeping call not found")
        inst = f"{name}: success is booked only when the caller asked for at least one register"
        ok_ = True
        for sn in succ:
            fx = _facts23(g_, sn)
            nonempty = any((a in (f"len({rpar}) == 0", f"not {rpar}", f"len({rpar}) < 1") and not pol) or
                           (a in (f"len({rpar}) > 0", f"len({rpar}) != 0", f"{rpar}", f"len({rpar}) >= 1") and pol) for a, pol in fx)
            if not nonempty:
                ok_ = False
        if ok_:
            ctx.ok("R23f", inst)
        else:
            ctx.fail("R23f", m, succ[0].ast, inst, f"`{succ[0].text()[:50]}` is reached for an empty register list as well: Engine.write_process_image calls "
                     "write_batch([], []) in every tick of a uod that has only read registers, which is booked as a successful write - with the "
                     "hardware dead for 60 s (600 failed reads, no successful access) the state never leaves OK/Issue, no reconnect is attempted, "
                     "Connection Status stays Connected and the engine never enters its error state")
    # ---- R23e
    from ..util import local_single_defs, expand_local
    erw = cls.find_method("error_read_write")
    if erw is None:
        raise AnchorError("error_read_write missing")
    ctx.analysed(erw)
    origins = {}    # timeout config attribute -> origin attribute
    for n in walk_no_nested(erw.node):
        if isinstance(n, ast.Compare) and len(n.ops) == 1:
            txt = norm(n)
            for cfgattr in ("reconnect_timeout_seconds", "error_timeout_seconds"):
                if cfgattr in txt:
                    attrs = [x.attr for x in ast.walk(n) if isinstance(x, ast.Attribute) and isinstance(x.value, ast.Name)
                             and x.value.id == "self" and x.attr.startswith("last_")]
                    if len(attrs) == 1:
                        origins[cfgattr] = attrs[0]
    if set(origins) != {"reconnect_timeout_seconds", "error_timeout_seconds"}:
        raise AnchorError(f"error_read_write: timeout comparisons not understood ({origins})")

    def is_now(e, f) -> bool:
        e = expand_local(e, local_single_defs(f))
        return isinstance(e, ast.Call) and norm(e.func) in ("time.time", "time.monotonic")

    def assigns_now(f, attr):
        def pred(x):
            return x.kind == "stmt" and isinstance(x.ast, ast.Assign) and any(
                isinstance(t, ast.Attribute) and t.attr == attr and norm(t.value) == "self" for t in x.ast.targets) and is_now(x.ast.value, f)
        return pred

    def refreshes_on_all_paths(f, attr) -> bool:
        g = cfg_of(f)
        return any(assigns_now(f, attr)(x) for x in g.nodes) and g.path_to_exit_avoiding(None, assigns_now(f, attr)) is None

    t1 = origins["reconnect_timeout_seconds"]
    writers = [m for m in cls.methods.values() if m.name != "__init__" and any(assigns_now(m, t1)(x) for x in cfg_of(m).nodes)]
    if not writers:
        raise AnchorError(f"no method refreshes {t1}")
    # the "on every path" obligation is for the success bookkeeping methods (the ones a successful hardware access calls); a method
    # that refreshes the origin as part of a transition (tick: reconnect succeeded) is checked per transition below
    called_from_rw = {call_attr(c) for nm in RW for c in walk_no_nested(cls.find_method(nm).node)
                      if isinstance(c, ast.Call) and isinstance(c.func, ast.Attribute) and norm(c.func.value) == "self"}
    trans_writers = [m for m in writers if m.name not in called_from_rw]
    writers = [m for m in writers if m not in trans_writers]
    if not writers:
        raise AnchorError(f"no success method refreshes {t1}")
    # every transition *into OK* that is not made by a success method (a reconnect that succeeded) starts the Issue clock afresh:
    # nothing is read or written while reconnecting, so the last success is older than the whole outage
    for m in cls.methods.values():
        if m.name == "__init__" or m in writers:
            continue
        g_ = cfg_of(m)
        for x in g_.nodes:
            if x.kind == "stmt" and isinstance(x.ast, ast.Assign) and any(isinstance(t, ast.Attribute) and t.attr == "state" and norm(t.value) == "self"
                                                                            for t in x.ast.targets) and norm(x.ast.value).endswith(".OK"):
                if m.name in ("connect",):
                    continue        # first connection: __init__ has set the origin
                ctx.analysed(m)
                inst = f"{m.name}: the transition to OK restarts the clock of the Issue timeout ({t1})"
                refreshed = any(assigns_now(m, t1)(y) and (g_.dominates(y, x) or g_.path_to_exit_avoiding([x.id], lambda z, y=y: z.id == y.id) is None)
                                for y in g_.nodes) or any(call_attr(c) in {w.name for w in writers} for y in g_.nodes for c in y.calls()
                                                          if g_.dominates(y, x) or g_.dominates(x, y))
                if refreshed:
                    ctx.ok("R23e", inst)
                else:
                    ctx.fail("R23e", m, x.ast, inst, f"the state becomes OK without refreshing {t1}: after a successful reconnect the first failed "
                             "read/write moves OK -> Issue and the very next failure (0.1 s later) Issue -> Reconnect, because the timeout is "
                             "measured from a success that predates the outage - the Issue state, in which reads are masked for "
                             "reconnect_timeout_seconds, is skipped")
    good = set()
    for m in writers:
        ctx.analysed(m)
        inst = f"{m.name}: self.{t1} = <now> on every path"
        if refreshes_on_all_paths(m, t1):
            good.add(m.name)
            ctx.ok("R23e", inst)
        else:
            p = cfg_of(m).path_to_exit_avoiding(None, assigns_now(m, t1))
            ctx.fail("R23e", m, m.node, inst, f"a path through {m.name} returns without refreshing {t1}: the Issue -> Reconnect timeout is then "
                     "measured from an older success and fires although a read/write has just succeeded", p)
    for name in RW:
        m = cls.find_method(name)
        g = cfg_of(m)
        for d in [n for n in g.nodes if any(norm(c.func) == f"self.decorated.{name}" for c in n.calls())]:
            inst = f"{name}: a successful {d.text()[:50]} refreshes {t1} before returning"
            p = g.path_to_exit_avoiding([(d.id, "")], lambda x: any(call_attr(c) in good and norm(c.func).startswith("self.") for c in x.calls())
                                        or assigns_now(m, t1)(x))
            if p is None:
                ctx.ok("R23e", inst)
            else:
                ctx.fail("R23e", m, d.ast, inst, f"a successful hardware access can return without refreshing {t1}", p)
    t2 = origins["error_timeout_seconds"]
    n_t = 0
    for m in cls.methods.values():
        g = cfg_of(m)
        for n in g.nodes:
            if n.kind == "stmt" and isinstance(n.ast, ast.Assign) and norm(n.ast.targets[0]) == "self.state" \
                    and norm(n.ast.value) == "ErrorRecoveryState.Reconnect":
                n_t += 1
                ctx.analysed(m)

                def refresh(x, m=m):
                    if assigns_now(m, t2)(x):
                        return True
                    for c in x.calls():
                        if isinstance(c.func, ast.Attribute) and norm(c.func.value) == "self":
                            t = cls.find_method(c.func.attr)
                            if t is not None and refreshes_on_all_paths(t, t2):
                                return True
                    return False
                inst = f"{m.name}: {n.text()} is followed by self.{t2} = <now> on every path"
                p = g.path_to_exit_avoiding([n.id], lambda x, n=n: x.id != n.id and refresh(x))
                if p is None:
                    ctx.ok("R23e", inst)
                else:
                    ctx.fail("R23e", m, n.ast, inst, f"state becomes Reconnect without restarting {t2}: the Reconnect -> Error timeout is measured "
                             "from an earlier outage", p)
    if n_t < 1:
        ctx.fail("R23e", erw, erw.node, f"transition to Reconnect restarts {t2}", "no statement sets state to Reconnect (see R23a): "
                 "the origin of the Reconnect -> Error timeout is never restarted")
    ctx.floor("R23e", 6)
