"""C02 - Method instructions run once each, in source order: dispatch exhaustiveness + guards.

R02a dispatch exhaustiveness: every node class the parser can emit - classes of lang/model/ast.py with
     a non-empty `instruction_names`, the classes constructed explicitly in parser.py, and InjectedNode
     (constructed in pinterpreter.py) - has a `visit_<ClassName>` method on PInterpreter's MRO
     (otherwise NodeVisitorGeneric.generic_visit raises TypeError mid-run). The if/elif chain in
     visit_InterpreterCommandNode covers every entry of InterpreterCommandNode.instruction_names (via
     the InterpreterCommandEnum values); every EngineCommandNode.instruction_names entry is an
     EngineCommandEnum value that has a `<Name>EngineCommand` class in internal_commands_impl.py.
R02b order and once-only structure: PInterpreter._visit_children iterates node.children in sequence
     order, skips indices below child_index, and increments child_index only after the child's
     generator is exhausted (after `yield from`); the generic visit returns at once for a completed
     node and sets node.started only after the threshold wait; in visit_BlankNode/visit_CommentNode
     node.started = True / node.completed = True are reachable only when the node no longer has only
     trailing whitespace after it (so lines appended there later still run).
R02c macro invocations are bracketed: in visit_CallMacroNode the body reset (`<macro>.reset_runtime_state(recursive=True)`)
     is guarded by a comparison of two counters of the macro node; the one incremented together with the reset counts
     started invocations, the other finished ones. Every normal path from the body visit (`yield from` the children visitor
     on the macro node) to the end of the generator increments the finished counter: otherwise the next call of the same
     (including the exceptional one: the generator being closed at a yield of the body, i.e. a `finally`) - otherwise the
     next call of the same macro takes the "complete a started call" branch and continues in the middle of the stale body - lines not started
     from the first, and without the Call macro having started. The reset must be recursive (all lines start again).
R02d every interpreter command completes: in visit_InterpreterCommandNode every normal path to the end of the generator passes
     tracking.mark_completed(node) (an early `return`, e.g. for a Wait shorter than a tick, leaves the line Started for ever
     although the next line starts).
Decides these shapes; exactly-once and ordering over all nestings and timings are runtime matters.
R02e a macro invocation belongs to one caller (opstatic/macrocall.py): the continue branch of visit_CallMacroNode is reachable only for the
     Call macro node that started the invocation in progress; every other caller waits and then makes its own invocation - otherwise two
     walkers share the body's nodes and child_index and the lines of one invocation start out of order, twice, or not at all.
R02f line numbers start at 0 and the "last non-whitespace line" of a scope defaults to a value below every line number (negative): the
     trailing-whitespace analyzer marks a line when `line > last non-whitespace line` of all its ancestors, so with a default of 0 a
     blank or comment line on line 0 of a method without instructions is never marked and is passed.
"""
from __future__ import annotations

import ast

from ..model import AnchorError, norm, walk_no_nested
from ..util import cfg_of, call_attr, assigned_attrs, enum_members
from ..cfg import facts_at

EXPLANATION = __doc__
PI = "openpectus.lang.exec.pinterpreter:PInterpreter"


def _names(cls) -> list[str]:
    v = cls.class_attrs.get("instruction_names")
    if isinstance(v, ast.List):
        return [e.value for e in v.elts if isinstance(e, ast.Constant)]
    return []


def run(ctx) -> None:
    _r02f(ctx)
    prog, res = ctx.prog, ctx.res
    ctx.rule("R02a", "every node class / interpreter command / engine command has a handler")
    ctx.rule("R02b", "children visited in order, once; trailing whitespace never passed")
    astm = prog.module("openpectus.lang.model.ast")
    node = astm.classes["Node"]
    pi = prog.cls(PI)
    emitted = {}
    for c in astm.classes.values():
        if c.is_subclass_of(node) and _names(c):
            emitted[c.name] = f"instruction_names {_names(c)}"
    for mn in ("openpectus.lang.model.parser", "openpectus.lang.exec.pinterpreter"):
        m = prog.module(mn)
        for f in list(m.functions.values()) + [x for c in m.classes.values() for x in c.methods.values()]:
            for c in walk_no_nested(f.node):
                if isinstance(c, ast.Call):
                    ent = prog.resolve_expr_entity(m, c.func)
                    if ent is not None and hasattr(ent, "is_subclass_of") and ent.is_subclass_of(node):
                        emitted.setdefault(ent.name, f"constructed in {f.short}")
    if len(emitted) < 18:
        raise AnchorError(f"only {len(emitted)} emitted node classes found (floor 18)")
    for cname, why in sorted(emitted.items()):
        m = pi.find_method(f"visit_{cname}")
        inst = f"PInterpreter.visit_{cname} exists ({why})"
        if m is not None:
            ctx.ok("R02a", inst)
        else:
            ctx.fail("R02a", None, astm.classes[cname].node, inst,
                     f"the parser can produce {cname} but the interpreter has no visit_{cname}: generic_visit raises TypeError when a "
                     f"method containing it is run", function=f"{PI}", file=pi.module.relpath)
    # interpreter commands
    ic = astm.classes["InterpreterCommandNode"]
    en = prog.cls("openpectus.lang.exec.commands:InterpreterCommandEnum")
    members = enum_members(en)
    vic = pi.methods["visit_InterpreterCommandNode"]
    ctx.analysed(vic)
    handled = set()
    for n in walk_no_nested(vic.node):
        if isinstance(n, ast.Compare) and norm(n.left) == f"{vic.node.args.args[1].arg}.instruction_name" and isinstance(n.ops[0], ast.Eq):
            r = norm(n.comparators[0])
            if r.startswith("InterpreterCommandEnum."):
                handled.add(members.get(r.split(".")[1]))
            elif isinstance(n.comparators[0], ast.Constant):
                handled.add(n.comparators[0].value)
    for nm in _names(ic):
        inst = f"visit_InterpreterCommandNode handles '{nm}'"
        if nm in handled:
            ctx.ok("R02a", inst)
        else:
            ctx.fail("R02a", vic, vic.node, inst, f"'{nm}' parses to an InterpreterCommandNode but falls into the 'not supported' branch at run time")
    # engine commands
    ec = astm.classes["EngineCommandNode"]
    een = enum_members(prog.cls("openpectus.engine.models:EngineCommandEnum"))
    impl = prog.module("openpectus.engine.internal_commands_impl")
    for nm in _names(ec):
        inst = f"engine command '{nm}' has enum member and {nm.replace(' ', '')}EngineCommand class"
        if nm in een.values() and f"{nm}EngineCommand" in impl.classes:
            ctx.ok("R02a", inst)
        else:
            ctx.fail("R02a", None, ec.node, inst, "instruction parses to an EngineCommandNode but no engine command implements it",
                     function=ec.qualname, file=astm.relpath)
    # ---- R02b
    vc = pi.methods["_visit_children"]
    ctx.analysed(vc)
    g = cfg_of(vc)
    vpar = vc.node.args.args[1].arg
    loops = [n for n in g.nodes if n.kind == "for" and f"enumerate({vpar}.children)" in norm(n.ast.iter)
             and isinstance(n.ast.target, ast.Tuple) and len(n.ast.target.elts) == 2]
    if not loops:
        ctx.fail("R02b", vc, vc.node, "_visit_children iterates enumerate(node.children)", "children are not visited in sequence order")
    else:
        ctx.ok("R02b", "_visit_children iterates enumerate(node.children)")
        yf = [n for n in g.nodes if any(isinstance(x, ast.YieldFrom) for x in n.walk())]
        inc = [n for n in g.nodes if n.kind == "stmt" and isinstance(n.ast, ast.AugAssign) and norm(n.ast.target) == f"{vpar}.child_index"]
        inst = "_visit_children: child_index incremented only after the child's generator is exhausted"
        body_yf = [y for y in yf if g.edge_dominates(loops[0].id, "loop", y.id)]
        if inc and body_yf and all(any(g.dominates(y, i) for y in body_yf) for i in inc) and len(inc) == 1 \
                and isinstance(inc[0].ast.value, ast.Constant) and inc[0].ast.value.value == 1:
            ctx.ok("R02b", inst)
        else:
            ctx.fail("R02b", vc, vc.node, inst, "a child can be counted as done before it finished (it would be skipped after a live edit) "
                     "or is counted twice")
        ivar = norm(loops[0].ast.target.elts[0])
        skip = [n for n in g.nodes if n.kind == "test" and norm(n.ast) in (f"{ivar} < {vpar}.child_index", f"{vpar}.child_index > {ivar}")]
        if skip and g.search([(skip[0].id, "T")], lambda n: any(n.id == y.id for y in body_yf), blocked=lambda n: n.id == loops[0].id) is None:
            ctx.ok("R02b", "_visit_children skips children below child_index")
        else:
            ctx.fail("R02b", vc, vc.node, "_visit_children skips children below child_index", "already completed children run again")
    v = pi.methods["visit"]
    ctx.analysed(v)
    g = cfg_of(v)
    comp = [n for n in g.nodes if n.kind == "test" and norm(n.ast) == f"{v.node.args.args[1].arg}.completed"]
    sup = [n for n in g.nodes if any(isinstance(x, ast.Call) and norm(x.func) == "super().visit" for x in n.walk())]
    if not sup:
        raise AnchorError("PInterpreter.visit: super().visit(node) not found")
    if comp and g.search([(comp[0].id, "T")], lambda n: n.id == sup[0].id) is None and g.dominates(comp[0], sup[0]):
        ctx.ok("R02b", "visit: a completed node is never dispatched again")
    else:
        ctx.fail("R02b", v, v.node, "visit: a completed node is never dispatched again", "completed instructions can start a second time")
    st = [n for n in g.nodes if n.kind == "stmt" and any(t.attr == "started" and isinstance(val, ast.Constant) and val.value is True
                                                          for t, val, s_ in assigned_attrs(n.ast))]
    wait = [n for n in g.nodes if n.kind == "test" and "_is_awaiting_threshold" in norm(n.ast) and any(
        n.id in g.search([d], lambda x: False, collect=True) for d, l in g.succ[n.id] if l == "T")]
    inst = "visit: node.started = True only after the threshold wait, before dispatch"
    if st and wait and g.dominates(st[0], sup[0]) and g.search([(wait[-1].id, "T")], lambda n: n.id == st[0].id,
                                                                 blocked=lambda n: n.id == wait[-1].id) is None:
        ctx.ok("R02b", inst)
    else:
        ctx.fail("R02b", v, v.node, inst, "an instruction can be marked started/dispatched while its threshold has not been reached")
    def _delegate(fn):
        """visit_X whose body is `yield from self.<helper>(<its node parameter>)` -> the helper (bounded)."""
        for _ in range(3):
            body = [st for st in fn.node.body if not (isinstance(st, ast.Expr) and isinstance(st.value, ast.Constant))]
            if len(body) == 1 and isinstance(body[0], ast.Expr) and isinstance(body[0].value, ast.YieldFrom) \
                    and isinstance(body[0].value.value, ast.Call) and isinstance(body[0].value.value.func, ast.Attribute) \
                    and norm(body[0].value.value.func.value) == "self" and len(fn.node.args.args) > 1 \
                    and [norm(a) for a in body[0].value.value.args] == [fn.node.args.args[1].arg]:
                tgt = pi.find_method(body[0].value.value.func.attr)
                if tgt is None or tgt is fn:
                    return fn
                fn = tgt
            else:
                return fn
        return fn
    for name in ("visit_BlankNode", "visit_CommentNode"):
        f = _delegate(pi.methods[name])
        ctx.analysed(f)
        g = cfg_of(f)
        wpar = f.node.args.args[1].arg
        n_marks = 0
        for n in g.nodes:
            if n.kind != "stmt":
                continue
            for t, val, s_ in assigned_attrs(n.ast):
                if t.attr in ("started", "completed") and isinstance(val, ast.Constant) and val.value is True:
                    n_marks += 1
                    inst = f"{name}: {n.text()} only when not trailing whitespace"
                    p = g.search(None, lambda x, n=n: x.id == n.id, blocked_edge=lambda s_, d, l: g.nodes[s_].kind == "test"
                                 and norm(g.nodes[s_].ast) == f"{wpar}.has_only_trailing_whitespace" and l == "F"
                                 and any(s_ in g.search([dd], lambda y: False, collect=True) for dd, ll in g.succ[s_] if ll == "T"))
                    if p is None:
                        ctx.ok("R02b", inst)
                    else:
                        ctx.fail("R02b", f, n.ast, inst, "a blank/comment line at the end of a scope is passed: lines appended after it "
                                 "later would never run", p)
        if n_marks < 2:
            raise AnchorError(f"{name} (-> {f.short}): the started/completed marks of a whitespace line were not found "
                              "(the rule would pass vacuously)")

    # ---- R02c
    ctx.rule("R02c", "every macro invocation that ends is counted as finished; each new invocation resets the body")
    f = pi.methods.get("visit_CallMacroNode")
    if f is None:
        raise AnchorError("PInterpreter.visit_CallMacroNode missing")
    ctx.analysed(f)
    g = cfg_of(f)
    resets = [(n, c) for n in g.nodes if n.kind == "stmt" for c in n.calls() if call_attr(c) == "reset_runtime_state"
              and isinstance(c.func, ast.Attribute) and isinstance(c.func.value, ast.Name)]
    if len(resets) != 1:
        raise AnchorError(f"visit_CallMacroNode: expected one reset_runtime_state call on the macro node, found {len(resets)}")
    rn, rc = resets[0]
    mv = rc.func.value.id
    rec = [k.value for k in rc.keywords if k.arg == "recursive"] + list(rc.args[:1])
    inst = "visit_CallMacroNode: a new invocation resets the whole macro body"
    if rec and isinstance(rec[0], ast.Constant) and rec[0].value is True:
        ctx.ok("R02c", inst)
    else:
        ctx.fail("R02c", f, rn.ast, inst, "the macro body is not reset recursively: lines of an earlier invocation stay completed and are skipped")
    # the guard of the reset: a comparison of two attributes of the macro node
    counters: list[str] = []
    for cond, val in g.conditions_at(rn):
        for c in ast.walk(cond):
            if isinstance(c, ast.Compare) and len(c.ops) == 1:
                sides = [c.left, c.comparators[0]]
                if all(isinstance(x, ast.Attribute) and isinstance(x.value, ast.Name) and x.value.id == mv for x in sides):
                    counters = [x.attr for x in sides]
    if len(counters) != 2:
        raise AnchorError("visit_CallMacroNode: the started/finished comparison guarding the reset was not recognised")

    def incs(n, attr):
        return n.kind == "stmt" and isinstance(n.ast, ast.AugAssign) and isinstance(n.ast.op, ast.Add) and isinstance(n.ast.target, ast.Attribute) \
            and isinstance(n.ast.target.value, ast.Name) and n.ast.target.value.id == mv and n.ast.target.attr == attr \
            and isinstance(n.ast.value, ast.Constant) and n.ast.value.value == 1
    # the started counter is the one incremented on the reset branch (dominated by the reset)
    started = [a for a in counters if any(incs(n, a) and g.dominates(rn, n) for n in g.nodes)]
    if len(started) != 1:
        raise AnchorError(f"visit_CallMacroNode: which of {counters} counts started invocations was not recognised")
    finished = [a for a in counters if a != started[0]][0]
    body = [n for n in g.nodes if n.kind == "stmt" and any(isinstance(y, ast.YieldFrom) and isinstance(y.value, ast.Call)
            and any(isinstance(a, ast.Name) and a.id == mv for a in y.value.args) for y in ast.walk(n.ast))]
    if len(body) != 1:
        raise AnchorError("visit_CallMacroNode: the body visit (`yield from` on the macro node) was not recognised")
    inst = f"visit_CallMacroNode: every invocation that ends increments the macro's {finished}"
    p = g.path_to_exit_avoiding([d for d, l in g.succ[body[0].id] if l != "exc"], lambda n: incs(n, finished))
    if p is None:
        # ... and when the invocation is abandoned at a yield of the body (the Watch/Alarm that made the call is aborted with its
        # block: the generator is closed) or the body raises: the increment sits in a `finally` around the body visit
        from ..model import parent_map
        pm_ = parent_map(f.node)
        cur_, covered = body[0].ast, False
        while id(cur_) in pm_:
            par_ = pm_[id(cur_)]
            if isinstance(par_, ast.Try) and any(cur_ is s_ for s_ in par_.body) and any(
                    isinstance(x, ast.AugAssign) and isinstance(x.target, ast.Attribute) and x.target.attr == finished
                    for fb in par_.finalbody for x in ast.walk(fb)):
                covered = True
            cur_ = par_
        if not covered:
            p = [body[0]]
    others = [n for n in g.nodes if n.kind == "stmt" and not incs(n, finished) and not incs(n, started[0]) and any(
        t.attr in counters and isinstance(t.value, ast.Name) and t.value.id == mv for t, v, s_ in assigned_attrs(n.ast))]
    if p is None and not others:
        ctx.ok("R02c", inst)
    elif others:
        ctx.fail("R02c", f, others[0].ast, inst, "the invocation counters are written other than by the two increments")
    else:
        ctx.fail("R02c", f, body[0].ast, inst, "an invocation can end without being counted as finished: the next call of this macro skips the "
                 "reset and continues in the middle of the stale body (lines not started from the first, Call macro not started)", p)

    # ---- R02d
    ctx.rule("R02d", "every interpreter command line is completed on every normal path")
    vicf = pi.methods.get("visit_InterpreterCommandNode")
    if vicf is None:
        raise AnchorError("PInterpreter.visit_InterpreterCommandNode missing")
    ctx.analysed(vicf)
    gv_ = cfg_of(vicf)
    vpar_ = vicf.node.args.args[1].arg
    done = lambda n: n.ast is not None and any(call_attr(c) == "mark_completed" and c.args and norm(c.args[0]) == vpar_ for c in n.calls())
    if not any(done(n) for n in gv_.nodes):
        raise AnchorError("visit_InterpreterCommandNode: tracking.mark_completed(node) not found")
    p_ = gv_.path_to_exit_avoiding(None, done, follow_exc=False)
    inst = "visit_InterpreterCommandNode: every normal exit passes tracking.mark_completed(node)"
    if p_ is None:
        ctx.ok("R02d", inst)
    else:
        ctx.fail("R02d", vicf, [n for n in p_ if n.kind == "stmt"][-1].ast if any(n.kind == "stmt" for n in p_) else vicf.node, inst,
                 "a path leaves the visitor without completing the instruction: the line stays Started in the run log and in the "
                 "method state for the rest of the run while the next line starts", p_)
    # ---- R02e
    ctx.rule("R02e", "a macro invocation in progress is continued only by the caller that started it")
    from ..macrocall import check as _macro_owner
    _macro_owner(ctx, "R02e")



def _r02f(ctx) -> None:
    import ast as _ast
    prog = ctx.prog
    ctx.rule("R02f", "the default of the last-non-whitespace line is below the first line number")
    nwc = prog.cls("openpectus.lang.model.ast:NodeWithChildren")
    init = nwc.methods["__init__"]
    vals = [st.value for st in _ast.walk(init.node) if isinstance(st, (_ast.Assign, _ast.AnnAssign))
            and "_last_non_ws_line" in norm(st.targets[0] if isinstance(st, _ast.Assign) else st.target) and st.value is not None]
    if not vals:
        raise AnchorError("NodeWithChildren.__init__: _last_non_ws_line default not found")
    pm = prog.func("openpectus.lang.model.parser:PcodeParser.parse_method")
    firsts = [st.value.value for st in _ast.walk(pm.node) if isinstance(st, _ast.Assign) and norm(st.targets[0]) == "line_no"
              and isinstance(st.value, _ast.Constant)]
    first = min(firsts) if firsts else 0
    v = vals[0]
    num = None
    if isinstance(v, _ast.Constant) and isinstance(v.value, int):
        num = v.value
    elif isinstance(v, _ast.UnaryOp) and isinstance(v.op, _ast.USub) and isinstance(v.operand, _ast.Constant):
        num = -v.operand.value
    inst = f"NodeWithChildren._last_non_ws_line defaults below the first line number ({first})"
    if num is not None and num < first:
        ctx.ok("R02f", inst)
    else:
        ctx.fail("R02f", init, v, inst, f"the default is {norm(v)} and the analyzer marks a whitespace line only when its line number is greater: in a "
                 "method that consists of blank/comment lines only, line 0 is passed (started, completed; for a one-line method the "
                 "method ends) - a line appended afterwards would not run")
