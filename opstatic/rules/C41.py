"""C41 - Macros run their latest definition once per call and never recurse: dominance + ownership.

R41a in PInterpreter.visit_CallMacroNode the invocation `_visit_children(macro_node)` is dominated by
     (i) the undefined-macro test that raises, and (ii) the recursion test - the result of
     macro_node.macro_calling_macro(...) guards a `raise NodeInterpretationError`; the macro body is
     invoked exactly once per pass through the call (no loop around it) and its completion counter
     is incremented after the body.
R41b last definition wins: _register_macro overwrites program.macros[name] unconditionally and is
     (besides reset_runtime_state's clear) the only writer of `macros`; the call looks the macro up by
     name at call time (program_node.macros.get(macro_name)), not at parse time.
R41c a started macro may not be edited or removed: _validate_liveedit_method raises MethodEditError
     for a macro with run_started_count > 0 that is missing, retyped, or whose source differs, and it
     is on the must-call path of every merge.
R41d detector completeness (every call line of the body, nested ones included - the loop ranges over all descendants): in the search behind MacroNode.macro_calling_macro, inside the loop over the
     macro's children a path through another macro is returned only under a test of that path (non-empty / contains the
     target); an unconditional `return [child] + <search of child>` lets the *first* Call macro line decide, so a recursive
     call on a later line is not found and the call does not fail. The search also carries a visited set (or otherwise
     never re-enters a macro it is searching), so call cycles that do not involve the target terminate.
R41e detector freshness: macro_calling_macro does not hand out a stored result (no return value that is an attribute of the
     node): which macros a name is bound to changes with every (re)definition, so a path kept from an earlier call goes stale.
R41i executing a `Macro:` line defines the macro every time: every path through visit_MacroNode calls _register_macro (not only
     while the node's is_registered flag is unset - the flag survives the reset of a body that runs again).
R41j where a macro was defined is not where it runs: the ended-block test the interpreter applies to every body line
     (_is_in_ended_block) stops its walk up the AST at the enclosing MacroNode - the blocks around the definition may have ended
     long ago while the body is running for a caller elsewhere; the caller's own blocks are on the execution path.
R41k "has started" is never forgotten: `run_started_count > 0` is what protects a macro from edits (R41c) and the counters are what
     tells a call in progress (R02e), so `run_started_count` / `run_completed_count` only ever grow: outside MacroNode.__init__ and
     apply_state (which restores them from the carried state) every write is `+= 1`, and `active_call_id` is assigned a call
     node's id only. A reset "because a definition starts out without calls" makes a macro that has run look never-called.
R41f a call that had to wait runs the definition that is current when it starts: in visit_CallMacroNode the look-up of the macro
     by name is re-done after every tick the call waited (the look-up is inside the waiting loop, or follows it).
R41g every definition that has started is protected from edits, not only the latest of each name: the started-macro loop of
     _validate_liveedit_method ranges over all MacroNodes of the old program (a call of a superseded definition can be in progress).
R41h a new call waits for the watch/alarm bodies of the previous call that are executing: resetting the body cuts their
     remaining lines off (they then ran fewer times than the macro was called).
"""
from __future__ import annotations

import ast

from ..model import AnchorError, norm, walk_no_nested
from ..util import cfg_of, call_attr, node_calls, assigned_attrs
from ..cfg import facts_at

EXPLANATION = __doc__
PI = "openpectus.lang.exec.pinterpreter:PInterpreter"


def run(ctx) -> None:
    prog = ctx.prog
    for r, d in [("R41a", "macro body invoked only after undefined/recursion tests, once per call"),
                 ("R41b", "latest definition wins; lookup at call time"), ("R41c", "started macro cannot be edited")]:
        ctx.rule(r, d)
    f = prog.func(f"{PI}.visit_CallMacroNode")
    ctx.analysed(f)
    g = cfg_of(f)
    inv = [n for n in g.nodes if any(call_attr(c) == "_visit_children" for c in n.calls())]
    if len(inv) != 1:
        raise AnchorError(f"visit_CallMacroNode: expected one _visit_children invocation, found {len(inv)}")
    inv = inv[0]
    # (i) undefined macro
    from ..util import local_single_defs as _lsd
    vdefs = _lsd(f)
    vpar = f.node.args.args[1].arg
    # the looked-up macro: the local defined as `<...>.macros.get(<name>)` / `<...>.macros[<name>]` (by role)
    mvar = next((k for k, v in vdefs.items() if ".macros.get(" in norm(v) or ".macros[" in norm(v)), None)
    # the macro name: the local defined as `<node>.macro_name` (or the attribute itself)
    nvars = {k for k, v in vdefs.items() if norm(v) == f"{vpar}.macro_name"} | {f"{vpar}.macro_name"}
    if mvar is None:
        raise AnchorError("visit_CallMacroNode: lookup of the macro by name not found")
    und = [n for n in g.nodes if n.kind == "test" and norm(n.ast) in (f"{mvar} is None", f"not {mvar}")]
    ok_und = und and g.search([(und[0].id, "T")], lambda n: n.id == inv.id) is None and g.dominates(und[0], inv)
    if ok_und:
        ctx.ok("R41a", "visit_CallMacroNode: undefined macro raises before invocation")
    else:
        ctx.fail("R41a", f, inv.ast, "visit_CallMacroNode: undefined macro raises before invocation", "an undefined macro reaches the invocation")
    # (ii) recursion test
    casc = [n for n in g.nodes if n.kind == "stmt" and isinstance(n.ast, ast.Assign) and any(
        call_attr(c) == "macro_calling_macro" for c in n.calls())]
    if not casc:
        ctx.fail("R41a", f, inv.ast, "visit_CallMacroNode: recursion test dominates invocation",
                 "macro_calling_macro is no longer consulted: a macro calling itself recurses until the stack overflows")
    else:
        var = norm(casc[0].ast.targets[0])
        tests = [n for n in g.nodes if n.kind == "test" and any(f"{nv} in {var}" in norm(n.ast) for nv in nvars)]
        inst = "visit_CallMacroNode: recursion test dominates invocation and raises"
        if not tests:
            ctx.fail("R41a", f, casc[0].ast, inst, "result of macro_calling_macro is not tested for the called macro's own name")
        else:
            t = tests[0]
            reach = g.search([(t.id, "T")], lambda n: n.id == inv.id)
            raises = g.search([(t.id, "T")], lambda n: n.id == g.raise_exit.id) is not None
            if reach is None and raises and g.dominates(t, inv) and g.dominates(casc[0], t):
                ctx.ok("R41a", inst)
            else:
                ctx.fail("R41a", f, t.ast, inst, "a call that would make the macro call itself can reach the invocation", reach)
    in_loop = inv.id in g.search([d for d, l in g.succ[inv.id]], lambda n: False, collect=True)
    if in_loop:
        ctx.fail("R41a", f, inv.ast, "visit_CallMacroNode: body invoked once per call", "the invocation lies on a cycle")
    else:
        ctx.ok("R41a", "visit_CallMacroNode: body invoked once per call")
    cnt = [n for n in g.nodes if n.kind == "stmt" and isinstance(n.ast, ast.AugAssign) and "run_completed_count" in norm(n.ast.target)]
    if cnt and g.dominates(inv, cnt[0]):
        ctx.ok("R41a", "visit_CallMacroNode: run_completed_count incremented after the body")
    else:
        ctx.fail("R41a", f, inv.ast, "visit_CallMacroNode: run_completed_count incremented after the body", "completion is not counted")
    # lookup at call time
    look = [n for n in g.nodes if n.kind == "stmt" and isinstance(n.ast, ast.Assign) and ".macros.get(" in norm(n.ast.value)]
    if look and g.dominates(look[0], inv):
        ctx.ok("R41b", "visit_CallMacroNode: macro looked up by name at call time")
    else:
        ctx.fail("R41b", f, inv.ast, "visit_CallMacroNode: macro looked up by name at call time", "the called body is not the currently registered definition")
    # ---- R41b writers of macros
    reg = prog.func(f"{PI}._register_macro")
    ctx.analysed(reg)
    gr = cfg_of(reg)
    stores = [n for n in gr.nodes if n.kind == "stmt" and isinstance(n.ast, ast.Assign) and any(
        isinstance(t, ast.Subscript) and norm(t.value).endswith(".macros") for t in n.ast.targets)]
    if stores and gr.path_to_exit_avoiding(None, lambda n: n.id == stores[0].id) is None:
        ctx.ok("R41b", "_register_macro overwrites macros[name] on every path")
    else:
        ctx.fail("R41b", reg, reg.node, "_register_macro overwrites macros[name] on every path",
                 "a re-definition can be skipped: calls keep running the old body")
    for fn in prog.iter_functions():
        for n in walk_no_nested(fn.node):
            w = None
            if isinstance(n, ast.Assign) and any(isinstance(t, ast.Subscript) and norm(t.value).endswith(".macros") for t in n.targets):
                w = n
            if isinstance(n, ast.Call) and isinstance(n.func, ast.Attribute) and n.func.attr in ("pop", "clear", "update", "setdefault") \
                    and norm(n.func.value).endswith(".macros"):
                w = n
            if w is None:
                continue
            # only the macro table of ProgramNode (other visitors keep private tables of the same name)
            recv = None
            for x in ast.walk(w):
                if isinstance(x, ast.Attribute) and x.attr == "macros":
                    recv = x.value
                    break
            pn = prog.cls("openpectus.lang.model.ast:ProgramNode")
            if recv is None or not any(c is pn for c in ctx.res.receiver_classes(recv, fn)):
                continue
            inst = f"{fn.short}: {norm(w)[:70]}"
            allowed = (fn is reg) or (fn.cls is not None and fn.cls.name == "ProgramNode" and fn.name == "reset_runtime_state") \
                or (fn.name == "visit_CallMacroNode" and "temporary_macros" in norm(w))
            if allowed:
                ctx.ok("R41b", inst, trivial=True)
            else:
                ctx.fail("R41b", fn, w, inst, "the macro table is written outside _register_macro")
    vm = prog.func(f"{PI}.visit_MacroNode")
    ctx.analysed(vm)
    gm = cfg_of(vm)
    regcalls = [n for n in gm.nodes if node_calls(n, "_register_macro")]
    # registered unconditionally (R41i), or at least whenever the definition has not been registered yet
    uncond = bool(regcalls) and gm.path_to_exit_avoiding(None, lambda n: node_calls(n, "_register_macro")) is None
    if uncond or (regcalls and all(any(a.endswith("is_registered") and not pol for a, pol in facts_at(gm, n)) for n in regcalls)):
        ctx.ok("R41b", "visit_MacroNode registers every not-yet-registered definition")
    else:
        ctx.fail("R41b", vm, vm.node, "visit_MacroNode registers every not-yet-registered definition", "a definition may never be registered")
    # ---- R41c
    vl = prog.func("openpectus.engine.method_manager:MethodManager._validate_liveedit_method")
    ctx.analysed(vl)
    gv = cfg_of(vl)
    raises = [n for n in gv.nodes if n.kind == "stmt" and isinstance(n.ast, ast.Raise) and "MethodEditError" in norm(n.ast)]
    kinds = {"missing": False, "retyped": False, "modified": False}
    for rn in raises:
        conds = [(norm(c), pol) for c, pol in gv.conditions_at(rn)]
        started = any("run_started_count > 0" in c and pol for c, pol in conds)
        if not started:
            continue
        if any("is None" in c and pol for c, pol in conds):
            kinds["missing"] = True
        elif any("isinstance" in c and "MacroNode" in c and ((c.startswith("not ") and pol) or (not c.startswith("not ") and not pol)) for c, pol in conds):
            kinds["retyped"] = True
        elif any("matches_source" in c for c, pol in conds):
            kinds["modified"] = True
    for k, v in kinds.items():
        inst = f"_validate_liveedit_method: started macro {k} -> MethodEditError"
        if v:
            ctx.ok("R41c", inst)
        else:
            ctx.fail("R41c", vl, vl.node, inst, f"a macro that has already started can be {k} by a live edit")
    cms = prog.func("openpectus.engine.method_manager:MethodManager._create_interpreter_merge_state")
    gc = cfg_of(cms)
    if gc.path_to_exit_avoiding(None, lambda n: node_calls(n, "_validate_liveedit_method")) is None:
        ctx.ok("R41c", "every merge validates the edit")
    else:
        ctx.fail("R41c", cms, cms.node, "every merge validates the edit", "merge without validation")

    # ---- R41g: the started-macro loop ranges over every MacroNode of the old program
    ctx.rule("R41g", "every started definition is protected, not only the latest of each name")
    from ..util import local_single_defs as _lsd, expand_local as _xl
    vdefs = _lsd(vl)
    loops_g = [n for n in gv.nodes if n.kind == "for" and any("run_started_count" in norm(x) for x in ast.walk(n.ast))]
    if not loops_g:
        raise AnchorError("_validate_liveedit_method: loop over the started macros not found")
    for lpg in loops_g:
        it = _xl(lpg.ast.iter, vdefs)
        if isinstance(it, ast.Name):
            ann = [st.value for st in ast.walk(vl.node) if isinstance(st, ast.AnnAssign) and isinstance(st.target, ast.Name)
                   and st.target.id == it.id and st.value is not None]
            if len(ann) == 1:
                it = ann[0]
        txt = norm(it)
        inst = "_validate_liveedit_method: the started-macro loop covers all MacroNodes of the running program"
        if ".macros" in txt and "get_all_nodes" not in txt and "get_child_nodes" not in txt:
            ctx.fail("R41g", vl, lpg.ast, inst, f"the loop ranges over `{txt[:70]}` - the registry holds the latest definition of each name only: while "
                     "a call of an earlier definition is in progress (started from a Watch before the name was re-defined) a live edit may "
                     "change or remove its not yet reached lines")
        elif ("get_all_nodes" in txt or "get_child_nodes" in txt) and "MacroNode" in txt:
            ctx.ok("R41g", inst)
        else:
            raise AnchorError(f"_validate_liveedit_method: iterable of the started-macro loop not recognised: {txt[:80]}")
    # ---- R41f / R41h in visit_CallMacroNode
    ctx.rule("R41f", "the macro is looked up again after every tick the call waited")
    ctx.rule("R41h", "a new call waits for executing watch/alarm bodies of the previous call")
    lookups = [n for n in g.nodes if n.kind == "stmt" and isinstance(n.ast, ast.Assign) and isinstance(n.ast.value, ast.Call)
               and call_attr(n.ast.value) == "get" and norm(n.ast.value.func.value).endswith(".macros")]
    walks_ = [n for n in g.nodes if n.ast is not None and any(call_attr(c) == "_visit_children" for c in n.calls())]
    yields_ = [n for n in g.nodes if n.kind == "stmt" and isinstance(n.ast, ast.Expr) and isinstance(n.ast.value, ast.Yield)
               and walks_ and g.search([n.id], lambda x: x.id == walks_[0].id, follow_exc=False) is not None
               and not any(g.dominates(w_, n) for w_ in walks_)]
    if not lookups or not walks_:
        raise AnchorError("visit_CallMacroNode: macro look-up / body walk not found")
    inst = "visit_CallMacroNode: no path from a waiting yield to the body walk avoids the look-up by name"
    stale_path = None
    for y in yields_:
        pth = g.search([y.id], lambda x: x.id == walks_[0].id, blocked=lambda x: any(x.id == l.id for l in lookups), follow_exc=False)
        if pth is not None:
            stale_path = pth
    if stale_path is None:
        ctx.ok("R41f", inst, {"rule": "R41f", "waiting_yields": len(yields_)})
    else:
        ctx.fail("R41f", f, stale_path[0].ast, inst, "the macro node is looked up before the call waits and used after it: a call that had to "
                 "wait for another caller's call runs the body it saw before the name was re-defined", stale_path)
    resets_ = [n for n in g.nodes if n.ast is not None and any(call_attr(c) == "reset_runtime_state" for c in n.calls())]
    inst = "visit_CallMacroNode: the reset of the body is reached only when no watch/alarm body of the previous call is executing"
    def _handler_test(t) -> bool:
        return any(isinstance(c, ast.Call) and ("handler" in (call_attr(c) or "") or "interrupt" in (call_attr(c) or "")) for c in ast.walk(t))
    okh = bool(resets_) and all(any(_handler_test(t) and not pol for t, pol in g.conditions_at(r)) or
                                any(_handler_test(tn.ast) and g.dominates(tn, r) and g.search([(tn.id, "T")], lambda x, r=r: x.id == r.id,
                                    blocked=lambda x: x.kind == "stmt" and isinstance(x.ast, ast.Expr) and isinstance(x.ast.value, ast.Yield),
                                    follow_exc=False) is None for tn in g.nodes if tn.kind == "test")
                                for r in resets_)
    if okh:
        ctx.ok("R41h", inst)
    else:
        ctx.fail("R41h", f, resets_[0].ast if resets_ else f.node, inst, "a second call resets the body while a Watch of the first call is in the "
                 "middle of its own body: the remaining lines of that body never run - `Macro: A / Mark: a / Watch: .. / Mark: w1 / Wait / "
                 "Mark: w2` called twice runs w2 once")

    # ---- R41i
    ctx.rule("R41i", "a Macro line that is executed again defines the macro again")
    vm = prog.func(f"{PI}.visit_MacroNode")
    ctx.analysed(vm)
    gm = cfg_of(vm)
    inst = "visit_MacroNode: every path registers the macro"
    pth = gm.path_to_exit_avoiding(None, lambda n: node_calls(n, "_register_macro"))
    if pth is None:
        ctx.ok("R41i", inst)
    else:
        ctx.fail("R41i", vm, vm.node, inst, "the registration is skipped on a path (the is_registered flag is kept when a body is reset): a "
                 "`Macro:` line in a macro or alarm body that runs a second time does not supersede a definition of the same name made in "
                 "between, and the following call runs the older body", pth)

    # ---- R41j
    ctx.rule("R41j", "the ended-block test does not look past the enclosing macro definition")
    eb = prog.func(f"{PI}._is_in_ended_block")
    ctx.analysed(eb)
    scans = []
    for x in ast.walk(eb.node):
        if isinstance(x, (ast.For, ast.comprehension)) and ".parents" in norm(x.iter):
            scope = x if isinstance(x, ast.For) else None
            scans.append((x, scope))
    if not scans:
        raise AnchorError("_is_in_ended_block: no scan of <node>.parents")
    from ..model import parent_map as _pm
    pm_ = _pm(eb.node)
    for x, scope in scans:
        inst = f"_is_in_ended_block: the scan of `{norm(x.iter)}` stops at a MacroNode"
        if scope is None:
            # generator expression: find the enclosing expression
            enc = pm_.get(id(x))
            txt = norm(enc) if enc is not None else ""
        else:
            txt = norm(scope)
        if "block_ended" not in txt:
            continue
        stops = "MacroNode" in txt and scope is not None and any(
            isinstance(st, ast.If) and "MacroNode" in norm(st.test) and any(isinstance(y, (ast.Return, ast.Break)) for y in st.body)
            for st in scope.body)
        if stops:
            ctx.ok("R41j", inst)
        else:
            ctx.fail("R41j", eb, x.iter, inst, "an ended Block around the *definition* of a macro counts as an ended block around its body lines: "
                     "once that Block has ended every later call of the macro skips all its lines, is recorded as started and completed, "
                     "and no error is raised")

    # ---- R41k
    ctx.rule("R41k", "the call counters of a macro only grow")
    n_w = 0
    mcls = prog.cls("openpectus.lang.model.ast:MacroNode")
    for fn in prog.iter_functions():
        if fn.module.is_test:
            continue
        for st in ast.walk(fn.node):
            tgt = val = None
            if isinstance(st, ast.Assign) and len(st.targets) == 1:
                tgt, val = st.targets[0], st.value
            elif isinstance(st, ast.AugAssign):
                tgt, val = st.target, st
            elif isinstance(st, ast.AnnAssign) and st.value is not None:
                tgt, val = st.target, st.value
            if not (isinstance(tgt, ast.Attribute) and tgt.attr in ("run_started_count", "run_completed_count", "active_call_id")):
                continue
            n_w += 1
            inst = f"{fn.short}: {norm(st)[:70]}"
            ctor = fn.cls is not None and (fn.cls is mcls or fn.cls.is_subclass_of(mcls)) and fn.name in ("__init__", "apply_state")
            grows = isinstance(st, ast.AugAssign) and isinstance(st.op, ast.Add) and isinstance(st.value, ast.Constant) and st.value.value == 1
            owner = tgt.attr == "active_call_id" and isinstance(val, ast.Attribute) and val.attr == "id" and fn.name == "visit_CallMacroNode"
            if ctor or (tgt.attr != "active_call_id" and grows) or owner:
                ctx.ok("R41k", inst)
            else:
                ctx.fail("R41k", fn, st, inst, f"`{norm(st)[:60]}` takes evidence away that the macro has started (or that a call is in progress): "
                         "_validate_liveedit_method protects a macro while run_started_count > 0, so after this write a live edit may change "
                         "or remove the body of a macro that has already run; callers waiting on the counters no longer see the call in progress")
    ctx.floor("R41k", 8)

    # ---- R41d / R41e
    ctx.rule("R41d", "the recursion search follows every Call macro line")
    ctx.rule("R41e", "the recursion search result is computed at call time")
    from ..util import value_leaves, local_single_defs
    mn = prog.cls("openpectus.lang.model.ast:MacroNode")
    entry = mn.methods.get("macro_calling_macro")
    if entry is None:
        raise AnchorError("MacroNode.macro_calling_macro missing")
    # the search functions: entry and the same-class helpers it (transitively) calls
    fns, todo = [], [entry]
    while todo:
        fn = todo.pop()
        if any(fn is x for x in fns):
            continue
        fns.append(fn)
        for c in walk_no_nested(fn.node):
            if isinstance(c, ast.Call) and isinstance(c.func, ast.Attribute) and c.func.attr in mn.methods:
                todo.append(mn.methods[c.func.attr])
    names = {fn.name for fn in fns}
    n_loops = 0
    for fn in fns:
        ctx.analysed(fn)
        gfn = cfg_of(fn)
        lsd = local_single_defs(fn)
        helpers = {h.name: h for h in ast.walk(fn.node) if isinstance(h, ast.FunctionDef) and h is not fn.node}

        def _helper_descends(it) -> bool:
            """iter is `h(<node>)` with h a nested function that collects call lines and recurses into children that have children"""
            if not (isinstance(it, ast.Call) and isinstance(it.func, ast.Name) and it.func.id in helpers):
                return False
            h = helpers[it.func.id]
            rec = any(isinstance(c, ast.Call) and isinstance(c.func, ast.Name) and c.func.id == h.name for c in ast.walk(h))
            tests = any(isinstance(x, ast.Call) and isinstance(x.func, ast.Name) and x.func.id == "isinstance" and "NodeWithChildren" in norm(x)
                        for x in ast.walk(h))
            over_children = any(isinstance(x, ast.For) and "children" in norm(x.iter) for x in ast.walk(h))
            return rec and tests and over_children
        for lp in [n for n in gfn.nodes if n.kind == "for" and ("children" in norm(n.ast.iter) or "get_child_nodes" in norm(n.ast.iter)
                                                               or "get_all_nodes" in norm(n.ast.iter) or _helper_descends(n.ast.iter))]:
            if not any(isinstance(x, ast.Call) and isinstance(x.func, ast.Name) and x.func.id == "isinstance" and "CallMacroNode" in norm(x)
                       for x in ast.walk(lp.ast)):
                continue
            n_loops += 1
            # nested call lines: the loop ranges over all descendants, or the search descends into children that have children
            it = lp.ast.iter
            deep = (isinstance(it, ast.Call) and call_attr(it) == "get_child_nodes" and any(
                k.arg == "recursive" and isinstance(k.value, ast.Constant) and k.value.value is True for k in it.keywords)
                or (isinstance(it, ast.Call) and call_attr(it) == "get_child_nodes" and it.args and isinstance(it.args[0], ast.Constant) and it.args[0].value is True)
                or (isinstance(it, ast.Call) and call_attr(it) == "get_all_nodes"))
            descends = any(isinstance(x, ast.Call) and isinstance(x.func, ast.Name) and x.func.id == "isinstance" and "NodeWithChildren" in norm(x)
                           for x in ast.walk(lp.ast)) and any(isinstance(c, ast.Call) and call_attr(c) in names for c in ast.walk(lp.ast))
            inst_n = f"{fn.short}: the search covers Call macro lines nested in blocks, watches and alarms of the body"
            if deep or descends or _helper_descends(it):
                ctx.ok("R41d", inst_n)
            else:
                ctx.fail("R41d", fn, lp.ast, inst_n, f"the loop ranges over `{norm(it)}` - the direct children only: `Macro: A` whose body has a Watch, "
                         "Alarm or Block containing `Call macro: A` is not recognised as recursive, the call does not fail and A starts "
                         "again and again (Watch) or waits for its own outer call for ever (Block)")
            body_ids = gfn.search([d for d, l in gfn.succ[lp.id] if l == "loop"], lambda n: False, collect=True,
                                  blocked=lambda n: n.id == lp.id)
            for rn in [gfn.nodes[i] for i in body_ids if gfn.nodes[i].kind == "stmt" and isinstance(gfn.nodes[i].ast, ast.Return)]:
                v = rn.ast.value
                rec_locals = [nm for nm, d in lsd.items() if any(isinstance(c, ast.Call) and call_attr(c) in names for c in ast.walk(d))]
                direct = v is not None and any(isinstance(c, ast.Call) and call_attr(c) in names for c in ast.walk(v))
                via = [nm for nm in rec_locals if v is not None and any(isinstance(x, ast.Name) and x.id == nm for x in ast.walk(v))]
                if not direct and not via:
                    continue
                inst = f"{fn.short}: `{norm(rn.ast)[:70]}` only when the sub-search found the target"
                facts = facts_at(gfn, rn)
                guarded = any(any(nm in a for nm in via) and pol for a, pol in facts) if via else False
                if guarded:
                    ctx.ok("R41d", inst)
                else:
                    ctx.fail("R41d", fn, rn.ast, inst, "the path through the first Call macro line that names a known macro is returned whether or "
                             "not it leads back to the macro being called; later Call macro lines are never examined, so a macro that calls "
                             "itself on a later line is not detected: the call does not fail (the method hangs in the nested call)")
    if n_loops == 0:
        raise AnchorError("macro_calling_macro: loop over the macro's children with a CallMacroNode test not found")
    inst = "macro_calling_macro returns a freshly computed path"
    stale = [(lf, lfn) for r in [n.value for n in walk_no_nested(entry.node) if isinstance(n, ast.Return) and n.value is not None]
             for lf, lfn in value_leaves(ctx.res, r, entry)
             if isinstance(lf, ast.Attribute) and isinstance(lf.value, ast.Name) and lf.value.id == "self" and lf.attr not in ("name", "children")]
    if not stale:
        ctx.ok("R41e", inst)
    else:
        lf, lfn = stale[0]
        ctx.fail("R41e", entry, lf, inst, f"the result can be the stored `{norm(lf)}`: a path determined for an earlier call is reused after a callee "
                 "has been re-defined, so a call that now leads back to the macro passes the test and the body starts")
