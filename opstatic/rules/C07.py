"""C07 - Method clocks advance only while running: guard dominance + signal agreement.

R07a Process Time / Run Time: in Engine.update_calculated_tags, interpreted over the System State
     domain, the `+ increment_time` write of Process Time is reached only when System State is
     Running and that of Run Time only when it is neither Stopped nor Restarting; Engine.tick calls
     update_calculated_tags only under _runstate_started; the only other writers of the two tags
     write the constant 0.0 (ownership), so the clocks never decrease during a run.
R07b Block Time / Scope Time count unless their private gate is closed; the gate is driven by
     run-state signals (table extracted from tags_impl). Sibling rule: every function that makes the
     System State Paused or Holding (or sets _runstate_paused/_holding = True) emits, on the same path,
     a signal that closes the gate; model check on the extracted run-state machine: no reachable
     state has an active run, System State Paused/Holding and the gate open.
R07c run-start agreement: the two sites that begin a run (Start._run and the last segment of
     Restart._run: they set _runstate_started = True and call set_run_id) perform the same resets:
     Run Time := 0.0, Process Time := 0.0, Method Status := OK, emit_on_start.
Decides which states let the clocks advance; the numeric increments are not decided.
R07d unconditional delivery (call model of the emitter verified): the machine treats every emit_on_<event>() call as
     delivered to the clock tags. In EventEmitter every emit_* method whose event the Block/Scope Time gate listens to
     (on_runstate_change, on_start, on_stop, on_tick, scope/block events) reaches its fan-out loop over self._listeners
     on every path from entry (no early return, no "already sent" filter - a remembered last event is not reset at run
     boundaries, so the first Pause of the next run would be swallowed and the clocks keep counting while Paused).
R07e a run starts with its clocks running: every Tag subclass whose on_tick is gated by a pause flag that on_runstate_change sets
     (Block Time, Scope Time) clears that flag in on_start - a run stopped while paused never sees the UNPAUSE signal, and the
     next run's clocks would stay frozen although the system is Running.
"""
from __future__ import annotations

import ast

from ..absint import Interp, mk, sd
from ..model import AnchorError, norm, walk_no_nested
from ..runstate import Explorer, Explorers, RunStateBinding, show, ENGINE, IMPL
from ..util import cfg_of, call_attr, assigned_attrs, node_calls

EXPLANATION = __doc__


def run(ctx) -> None:
    _run_main(ctx)
    _r07e(ctx)


def _run_main(ctx) -> None:
    prog, res = ctx.prog, ctx.res
    for r, d in [("R07a", "Process/Run Time increments guarded by the run state; only 0.0 resets elsewhere"),
                 ("R07b", "Block/Scope Time gate closed whenever the state is Paused or Holding"),
                 ("R07c", "Start and Restart perform the same run-start resets")]:
        ctx.rule(r, d)
    eng = prog.cls(ENGINE)
    impl = prog.module(IMPL)
    # ---- R07a
    uct = eng.methods["update_calculated_tags"]
    ctx.analysed(uct)
    b = RunStateBinding(ctx, faults=False, track=())
    it = Interp(b)
    b.interp = it
    g = cfg_of(uct)
    incs = {}
    for n in g.nodes:
        for c in n.calls():
            if call_attr(c) == "set_value" and c.args and "increment_time" in norm(c.args[0]):
                t = b.tagref(c.func.value, uct)
                incs[t] = n
    # every write of the two run clocks in update_calculated_tags must be `<its own value> + increment_time`: the increment is
    # measured on the monotonic clock, so the clock never decreases and advances by exactly the tick increments; a value
    # derived from tick_time (wall clock) differences steps with the wall clock
    for n in g.nodes:
        for c in n.calls():
            if call_attr(c) == "set_value" and c.args and isinstance(c.func, ast.Attribute):
                t = b.tagref(c.func.value, uct)
                if t in ("PROCESS_TIME", "RUN_TIME") and t not in incs:
                    ctx.fail("R07a", uct, c, f"update_calculated_tags: {t} is advanced by increment_time",
                             f"`{norm(c)[:90]}` does not add the tick's increment_time to the tag's own value: derived from tick_time "
                             "(the wall clock) the clock decreases when the wall clock is stepped back and jumps when it is stepped "
                             "forward, also while Paused")
    if set(incs) != {"PROCESS_TIME", "RUN_TIME"}:
        if any(fd.rule == "R07a" for fd in ctx.findings):
            ctx.floor_failures.append(f"update_calculated_tags: increment sites found for {sorted(incs)} only")
            incs = {k: v for k, v in incs.items()}
        else:
            raise AnchorError(f"update_calculated_tags: increment sites found for {sorted(incs)} (expected PROCESS_TIME and RUN_TIME)")
    base = sd(Explorer(ctx, faults=False, track=()).initial())
    allowed = {"PROCESS_TIME": {"Running"}, "RUN_TIME": set(b.sys_members) - {"Stopped", "Restarting"}}
    reached: dict[str, set] = {"PROCESS_TIME": set(), "RUN_TIME": set()}
    allowed = {k: v for k, v in allowed.items() if k in incs}
    for sysv in b.sys_members:
        d = dict(base)
        d["sys"] = sysv
        it2 = Interp(b)
        b.interp = it2
        it2.run(uct, mk(d))
        for t, n in incs.items():
            if it2.states_at(uct, n):
                reached[t].add(sysv)
    for t, n in incs.items():
        inst = f"update_calculated_tags: {t} advances only in {sorted(allowed[t])}"
        extra = reached[t] - allowed[t]
        if extra:
            ctx.fail("R07a", uct, n.ast, inst, f"`{n.text()}` is reached with System State in {sorted(extra)}: the clock advances while "
                     f"the run is not {'Running' if t == 'PROCESS_TIME' else 'active'}")
        elif not reached[t]:
            ctx.fail("R07a", uct, n.ast, inst, "the increment is never reached: the clock never advances")
        else:
            ctx.ok("R07a", inst, {"rule": "R07a", "tag": t, "reached_in": sorted(reached[t])})
    tick = eng.methods["tick"]
    ctx.analysed(tick)
    gt = cfg_of(tick)
    calls = [n for n in gt.nodes if node_calls(n, "update_calculated_tags")]
    if not calls:
        raise AnchorError("Engine.tick does not call update_calculated_tags")
    for n in calls:
        conds = [(norm(c), pol) for c, pol in gt.conditions_at(n)]
        inst = "Engine.tick: update_calculated_tags only under _runstate_started"
        if any(c == "self._runstate_started" and pol for c, pol in conds):
            ctx.ok("R07a", inst)
        else:
            ctx.fail("R07a", tick, n.ast, inst, "the run clocks would advance without an active run")
    # ownership of the two tags
    for f in prog.iter_functions():
        if f.module.name not in ("openpectus.engine.engine", IMPL):
            continue
        for c in walk_no_nested(f.node):
            if isinstance(c, ast.Call) and call_attr(c) == "set_value" and isinstance(c.func, ast.Attribute) and c.args:
                t = b.tagref(c.func.value, f)
                if t in ("PROCESS_TIME", "RUN_TIME") and f is not uct:
                    inst = f"{f.short}: {t}.set_value({norm(c.args[0])})"
                    if isinstance(c.args[0], ast.Constant) and c.args[0].value == 0.0:
                        ctx.ok("R07a", inst)
                    else:
                        ctx.fail("R07a", f, c, inst, "run clock written with something other than 0.0 or + increment_time")
    # ---- R07c
    sites = []
    for name in ("Start", "Restart"):
        f = impl.classes[f"{name}EngineCommand"].methods["_run"]
        ctx.analysed(f)
        g = cfg_of(f)
        starts = [n for n in g.nodes if n.kind == "stmt" and any(
            t.attr == "_runstate_started" and isinstance(v, ast.Constant) and v.value is True for t, v, st in assigned_attrs(n.ast))]
        if not starts:
            raise AnchorError(f"{f.short}: `_runstate_started = True` not found")
        st = starts[0]
        yields = {n.id for n in g.nodes if n.kind == "stmt" and isinstance(n.ast, ast.Expr) and isinstance(n.ast.value, (ast.Yield, ast.YieldFrom))}
        seg = g.search([st.id], lambda n: False, collect=True, blocked=lambda n: n.id in yields, follow_exc=False)
        eff = set()
        for nid in seg:
            n = g.nodes[nid]
            for c in n.calls():
                if call_attr(c) == "set_value" and isinstance(c.func, ast.Attribute) and c.args:
                    t = b.tagref(c.func.value, f)
                    if t in ("RUN_TIME", "PROCESS_TIME", "METHOD_STATUS"):
                        eff.add(f"{t} := {norm(c.args[0])}")
                if call_attr(c) in ("emit_on_start", "set_run_id"):
                    eff.add(call_attr(c))
        sites.append((f, st, eff))
    want = {"RUN_TIME := 0.0", "PROCESS_TIME := 0.0", "METHOD_STATUS := MethodStatusEnum.OK", "emit_on_start", "set_run_id"}
    for f, st, eff in sites:
        inst = f"{f.short}: run start performs all resets"
        missing = sorted(want - eff)
        if not missing:
            ctx.ok("R07c", inst, {"rule": "R07c", "function": f.short, "effects": sorted(eff)})
        else:
            ctx.fail("R07c", f, st.ast, inst, f"this site begins a run (sets _runstate_started = True, new run id) but does not perform "
                     f"{missing} as the sibling run-start site does: the new run's clocks/status continue from the previous run")
    # ---- R07b structural
    funcs = [m for c in impl.classes.values() for m in c.methods.values()] + list(eng.methods.values())
    close_sig = {k for k, v in b.clock_table.items() if v == "stopped"}
    open_sig = {k for k, v in b.clock_table.items() if v == "run"}
    ctx.extra["clock_gate_table"] = {f"{k[0]}({k[1]})": v for k, v in b.clock_table.items()}

    def emits(x, sigs) -> bool:
        for c in x.calls():
            nm = call_attr(c) or ""
            if nm.startswith("emit_on_"):
                ev = "on_" + nm[len("emit_on_"):]
                arg = norm(c.args[0]).split(".")[-1] if c.args else None
                if (ev, arg) in sigs or (ev, None) in sigs:
                    return True
        return False
    for f in funcs:
        g = cfg_of(f)
        stop_nodes = []
        for n in g.nodes:
            if n.kind != "stmt":
                continue
            stops = False
            for t, v, st in assigned_attrs(n.ast):
                if t.attr in ("_runstate_paused", "_runstate_holding") and isinstance(v, ast.Constant) and v.value is True:
                    stops = True
            for c in n.calls():
                if call_attr(c) == "set_value" and c.args and isinstance(c.func, ast.Attribute) and b.tagref(c.func.value, f) == "SYSTEM_STATE":
                    if any(isinstance(x, ast.Attribute) and x.attr in ("Paused", "Holding", "Restarting") and norm(x.value) == "SystemStateEnum"
                           for x in ast.walk(c.args[0])):
                        stops = True
            if stops:
                stop_nodes.append(n)
        if not stop_nodes:
            continue
        ctx.analysed(f)
        inst = f"{f.short} leaves the Running state and closes the Block/Scope Time gate"
        bad = None
        for n in stop_nodes:
            after = g.path_to_exit_avoiding([n.id], lambda x: emits(x, close_sig)) is None
            before = any(emits(x, close_sig) and g.dominates(x, n) for x in g.nodes)
            if not (after or before) and bad is None:
                bad = n
        if bad is None:
            ctx.ok("R07b", inst)
        else:
            ctx.fail("R07b", f, bad.ast, inst, f"`{bad.text()[:70]}` takes the run out of the Running state but no run-state signal that "
                     "stops Block Time / Scope Time is emitted on this path: these clocks (which drive thresholds) keep advancing "
                     "while Paused/Holding")
    ctx.floor("R07b", 3)
    # ---- R07b model check
    # two explorations: one user request per tick gap with a scheduler that may let in-flight commands stall (coarse), and two
    # (quick) or three (thorough) requests per gap with the exact scheduler of execute_commands (every driven command steps in every tick)
    ex = Explorers(Explorer(ctx, faults=True, track=("clk", "err")),
                   Explorer(ctx, faults=True, track=("clk", "err"), max_pending=3 if ctx.tier == "thorough" else 2, exact=True))
    ex.explore()
    ctx.extra["states"] = len(ex.reach)
    ctx.extra["transitions"] = ex.edges
    seen = {}
    for s in ex.reach:
        d = sd(s)
        if d["started"] and d["sys"] in ("Paused", "Holding", "Restarting") and d["clk"] == "run" and d["pend"] is None:
            key = (d["sys"], d["paused"], d["holding"], d["err"])
            if key not in seen:
                seen[key] = s
    if not seen:
        ctx.ok("R07b", f"model check: gate closed in every Paused/Holding state ({len(ex.reach)} states)")
    structural = [fd for fd in ctx.findings if fd.rule == "R07b"]
    for key, s in seen.items():
        hist = " > ".join(ex.trace(s))
        if structural:
            for fd in structural:
                if "model-checked" not in fd.message:
                    fd.message += f" | model-checked history: {hist}"
            continue
        ctx.fail("R07b", tick, tick.node, f"reachable state sys={key[0]} with Block/Scope Time counting",
                 f"history: {hist} | state: {show(s)}", function="openpectus.engine (run-state machine)")

    # ---- R07d
    ctx.rule("R07d", "emit_* methods the clock gate depends on deliver unconditionally")
    ee = prog.cls("openpectus.lang.exec.events:EventEmitter")
    clock_events = set()
    for cn in ("BlockTimeTag", "ScopeTimeTag"):
        c = prog.cls(f"openpectus.lang.exec.tags_impl:{cn}")
        clock_events |= {m for m in c.methods if m.startswith("on_")}
    n_d = 0
    for name, m in sorted(ee.methods.items()):
        if not name.startswith("emit_on_") or ("on_" + name[len("emit_on_"):]) not in clock_events:
            continue
        n_d += 1
        ctx.analysed(m)
        gm = cfg_of(m)
        loops = [n for n in gm.nodes if n.kind == "for" and "_listeners" in norm(n.ast.iter)]
        inst = f"EventEmitter.{name}: fan-out loop reached on every path"
        if not loops:
            ctx.fail("R07d", m, m.node, inst, "no loop over self._listeners: the event is not delivered")
            continue
        p = gm.path_to_exit_avoiding(None, lambda n, loops=loops: any(n.id == lp.id for lp in loops), follow_exc=False)
        if p is None:
            ctx.ok("R07d", inst)
        else:
            ctx.fail("R07d", m, m.node, inst, "a path returns without delivering the event to the listeners (conditional delivery): the "
                     "Block/Scope Time gate misses a Pause/Hold/Start/Stop signal and keeps counting while the run is not Running", p)
    if n_d < 4:
        raise AnchorError(f"only {n_d} clock-relevant emit_* methods found (floor 4)")


def _r07e(ctx):
    ctx.rule("R07e", "clock tags clear their pause flag when a run starts")
    prog = ctx.prog
    tagc = prog.cls("openpectus.lang.exec.tags:Tag")
    n = 0
    for c in tagc.all_subclasses():
        if c.module.is_test:
            continue
        rs, tk, st = c.methods.get("on_runstate_change"), c.methods.get("on_tick"), c.methods.get("on_start")
        if rs is None or tk is None:
            continue
        flags = {t.attr for t, v, s_ in assigned_attrs(rs.node) if isinstance(v, ast.Constant) and v.value is True
                 and isinstance(t.value, ast.Name) and t.value.id == "self"}
        gate = {x.attr for x in ast.walk(tk.node) if isinstance(x, ast.Attribute) and x.attr in flags}
        for fl in sorted(gate):
            n += 1
            inst = f"{c.name}.on_start clears self.{fl}"
            ctx.analysed(rs)
            if st is not None and any(t.attr == fl and isinstance(v, ast.Constant) and v.value is False for t, v, s_ in assigned_attrs(st.node)):
                ctx.ok("R07e", inst)
            else:
                ctx.fail("R07e", st or tk, (st or tk).node, inst, f"self.{fl} stops the clock in on_tick and is only cleared by the UNPAUSE signal: after "
                         "Pause, Stop, Start the new run is Running with this clock frozen at 0 - thresholds on it never pass")
        # ... and forgets the scopes/blocks of the previous run: every container the constructor creates and an event handler fills
        # (the timers and stacks the clock value is computed from) is cleared or re-bound in on_start
        init = c.methods.get("__init__")
        if init is None or not gate:
            continue
        containers = {t.attr for t, v, s_ in assigned_attrs(init.node) if isinstance(t.value, ast.Name) and t.value.id == "self"
                      and (isinstance(v, (ast.List, ast.Dict, ast.Set)) or (isinstance(v, ast.Call) and norm(v.func) in ("list", "dict", "set")))}
        filled = set()
        for mn, m in c.methods.items():
            if mn in ("__init__", "on_start"):
                continue
            for x in ast.walk(m.node):
                if isinstance(x, ast.Call) and isinstance(x.func, ast.Attribute) and x.func.attr in ("append", "add", "insert", "update", "setdefault") \
                        and isinstance(x.func.value, ast.Attribute) and x.func.value.attr in containers:
                    filled.add(x.func.value.attr)
                if isinstance(x, ast.Subscript) and isinstance(x.ctx, ast.Store) and isinstance(x.value, ast.Attribute) and x.value.attr in containers:
                    filled.add(x.value.attr)
        for cn in sorted(filled):
            n += 1
            inst = f"{c.name}.on_start empties self.{cn}"
            cleared = st is not None and (any(isinstance(x, ast.Call) and isinstance(x.func, ast.Attribute) and x.func.attr == "clear"
                                              and isinstance(x.func.value, ast.Attribute) and x.func.value.attr == cn for x in ast.walk(st.node))
                                          or any(t.attr == cn for t, v, s_ in assigned_attrs(st.node)))
            if cleared:
                ctx.ok("R07e", inst)
            else:
                ctx.fail("R07e", st or tk, (st or tk).node, inst, f"self.{cn} still holds the scopes/blocks of the previous run when the next one starts: "
                         "run 1 for 3 s, Stop, Start - in the second tick of the new run Scope Time jumps 0.0 -> 3.1 s while Run Time is 0.1 s "
                         "(the old timers keep counting); a run stopped inside an active Watch leaves Scope Time stuck in the next run")
    if n == 0:
        raise AnchorError("R07e: no clock tag with a pause gate found")
