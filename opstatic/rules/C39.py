"""C39 - The local run archive reads back exactly: writer agreement rules.

R39a every csv.writer(...) in engine/archiver.py passes the same dialect arguments - delimiter,
     quoting and escapechar bound to the module constants - and an escape character is configured
     whenever quoting is QUOTE_NONE (otherwise a field containing the delimiter raises / is corrupted).
R39b header and data rows come from the same tag sequence (self.tags) with the same omission predicate
     (`archive() is None`), and that predicate is value-independent: every `archive` override in the
     Tag hierarchy returns None on all of its return paths or on none (so a column cannot appear in
     the header and vanish from a row, or vice versa).
R39c MARK_SEPARATOR (joins several marks into one field) contains neither the archiver delimiter nor
     its escape character nor a line break.
R39d the read-back finds the stopped run: in ArchiverTag.on_stop no read of `self.run_id` is reachable from the call of the base
     class's on_stop (EventListener.on_stop clears it) - `last_run_id` must be taken before; read_last_run_archive asserts it.
R39e every open() in archiver.py passes newline='' (the csv module's contract for writers *and* readers: without it a CR
     inside a value is read back as LF).
R39f archive() may be destructive (MarkTag hands its marks out once): the values handed out since the last periodic row are
     written by a final row in on_stop, before the file is released (write_tags_row precedes `file_path = None` /
     `file_ready = False`).
R39g a row whose write fails is not dropped silently once archive() has handed the values out (today an `except Exception`
     around writerow logs and goes on: a Mark text with a lone surrogate loses its whole row - open known finding).
Decides writer agreement; the byte-exact behaviour of Python's csv module is trusted.
"""
from __future__ import annotations

import ast

from ..model import AnchorError, norm, walk_no_nested
from ..util import call_attr

EXPLANATION = __doc__
ARCH = "openpectus.engine.archiver"


def run(ctx) -> None:
    prog = ctx.prog
    for r, d in [("R39a", "all csv writers share one dialect with an escape character"), ("R39b", "header and rows use the same columns"),
                 ("R39c", "mark separator does not collide with the dialect")]:
        ctx.rule(r, d)
    m = prog.module(ARCH)
    consts = {}
    for k in ("delimiter", "quoting", "escapechar"):
        if k not in m.constants:
            raise AnchorError(f"archiver.{k} constant missing")
        consts[k] = m.constants[k]
    writers = []
    for f in [x for c in m.classes.values() for x in c.methods.values()] + list(m.functions.values()):
        for c in walk_no_nested(f.node):
            if isinstance(c, ast.Call) and norm(c.func) == "csv.writer":
                writers.append((f, c))
    # who-writes: the archive is read back with the module's dialect (delimiter / QUOTE_NONE / escapechar); the only writer
    # that is known to honour that dialect for every text (it also escapes the escape character itself and line ends) is
    # csv.writer - row text assembled by hand and written with file.write() bypasses it
    raw = []
    for f in [x for c in m.classes.values() for x in c.methods.values()] + list(m.functions.values()):
        for c in walk_no_nested(f.node):
            if isinstance(c, ast.Call) and isinstance(c.func, ast.Attribute) and c.func.attr in ("write", "writelines") \
                    and isinstance(c.func.value, ast.Name):
                # a file object: bound by `with open(...) as <name>`
                opened = any(isinstance(w, ast.With) and any(isinstance(i.context_expr, ast.Call) and norm(i.context_expr.func) == "open"
                                                             and i.optional_vars is not None and norm(i.optional_vars) == c.func.value.id
                                                             for i in w.items) for w in ast.walk(f.node))
                if opened:
                    raw.append((f, c))
    for f, c in raw:
        ctx.fail("R39a", f, c, f"{f.short}: archive rows are written through csv.writer",
                 f"`{norm(c)[:80]}` writes row text that was assembled by hand: the module's dialect (QUOTE_NONE with escapechar) is "
                 "only guaranteed by csv.writer, which also escapes the escape character itself - a hand-made formatter that "
                 "leaves it out makes a text containing a backslash read back changed (and can swallow the next delimiter)")
    if len(writers) < 3:
        ctx.floor_failures.append(f"only {len(writers)} csv.writer sites found (floor 3)")
        if not raw:
            raise AnchorError(f"only {len(writers)} csv.writer sites found (floor 3)")
    for f, c in writers:
        ctx.analysed(f)
        kws = {k.arg: norm(k.value) for k in c.keywords}
        inst = f"{f.short}: csv.writer dialect"
        want = {"delimiter": "delimiter", "quoting": "quoting", "escapechar": "escapechar"}
        if all(kws.get(k) == v for k, v in want.items()):
            ctx.ok("R39a", inst)
        else:
            ctx.fail("R39a", f, c, inst, f"dialect arguments {kws} differ from the module constants used by the other writers: header and "
                     "rows (or archive and run log) would be written in different dialects")
    q = norm(consts["quoting"])
    esc = consts["escapechar"]
    if q.endswith("QUOTE_NONE"):
        if isinstance(esc, ast.Constant) and isinstance(esc.value, str) and len(esc.value) == 1:
            ctx.ok("R39a", "QUOTE_NONE with a one-character escapechar")
        else:
            ctx.fail("R39a", None, consts["escapechar"], "QUOTE_NONE with a one-character escapechar",
                     "with QUOTE_NONE and no escape character csv raises on a field containing the delimiter", function=ARCH, file=m.relpath)
    else:
        ctx.ok("R39a", f"quoting = {q}")
    # ---- R39b
    at = m.classes.get("ArchiverTag")
    if at is None:
        raise AnchorError("ArchiverTag missing")
    hdr, row = at.methods.get("prepare_tags_file"), at.methods.get("write_tags_row")
    if hdr is None or row is None:
        raise AnchorError("prepare_tags_file / write_tags_row missing")
    ctx.analysed(hdr)
    ctx.analysed(row)

    def shape(f):
        # the tag sequence: the first local assigned from an expression over self.tags / the tag collection; the omission predicate:
        # every `<x> is [not] None` comparison, with local names replaced by a placeholder (role, not name)
        import copy

        class _Ph(ast.NodeTransformer):
            def visit_Name(self, nn):
                return nn if nn.id == "self" else ast.Name(id="_", ctx=nn.ctx)
        src = [n for n in walk_no_nested(f.node) if isinstance(n, ast.Assign) and isinstance(n.targets[0], ast.Name)
               and isinstance(n.value, (ast.ListComp, ast.GeneratorExp, ast.Call)) and ".archive()" in norm(n.value)]
        pred = [norm(_Ph().visit(copy.deepcopy(i))) for c in ast.walk(f.node) if isinstance(c, (ast.ListComp, ast.GeneratorExp))
                for gen in c.generators for i in gen.ifs]
        return (norm(_Ph().visit(copy.deepcopy(src[0].value))) if src else None, sorted(set(pred)))
    sh, sr = shape(hdr), shape(row)
    inst = "header and data rows: same tag sequence and omission predicate"
    if sh[0] is not None and sh == sr and "self.tags" in sh[0] and ".archive()" in sh[0] and sh[1] == ["_ is not None"]:
        ctx.ok("R39b", inst, {"rule": "R39b", "source": sh[0], "predicate": sh[1]})
    else:
        ctx.fail("R39b", row, row.node, inst, f"header uses {sh}, rows use {sr}: a data row can have other columns than the header")
    tag = prog.cls("openpectus.lang.exec.tags:Tag")
    n_arch = 0
    for c in [tag] + tag.all_subclasses():
        a = c.methods.get("archive")
        if a is None or c.module.is_test:
            continue
        n_arch += 1
        ctx.analysed(a)
        rets = [n for n in walk_no_nested(a.node) if isinstance(n, ast.Return)]
        nones = [r for r in rets if r.value is None or (isinstance(r.value, ast.Constant) and r.value.value is None)]
        inst = f"{c.name}.archive: None on all return paths or on none"
        # implicit fall-through return counts as None
        falls = not rets or not isinstance(a.node.body[-1], (ast.Return, ast.Raise, ast.If))
        if (len(nones) == len(rets) and rets) or (not nones and not falls):
            ctx.ok("R39b", inst)
        else:
            ctx.fail("R39b", a, a.node, inst, "whether this tag has a column depends on its value: header and rows can disagree")
    if n_arch < 3:
        raise AnchorError("fewer than 3 archive() implementations found")
    # ---- R39c
    ti = prog.module("openpectus.lang.exec.tags_impl")
    ms = ti.constants.get("MARK_SEPARATOR")
    if not (isinstance(ms, ast.Constant) and isinstance(ms.value, str)):
        raise AnchorError("MARK_SEPARATOR constant missing")
    d = consts["delimiter"].value if isinstance(consts["delimiter"], ast.Constant) else None
    e = esc.value if isinstance(esc, ast.Constant) else None
    if d is None:
        raise AnchorError("archiver.delimiter is not a literal")
    bad = [ch for ch in ms.value if ch in (d, e, "\n", "\r")]
    inst = f"MARK_SEPARATOR {ms.value!r} avoids delimiter {d!r}, escapechar {e!r} and line breaks"
    if not bad:
        ctx.ok("R39c", inst)
    else:
        ctx.fail("R39c", None, ms, inst, f"the separator contains {bad}: joined marks are split into several columns or escaped",
                 function=ti.name, file=ti.relpath)
    _file_rules(ctx, m)


def _file_rules(ctx, m) -> None:
    from ..util import cfg_of
    prog = ctx.prog
    ctx.rule("R39d", "last_run_id is taken before the base class clears run_id")
    ctx.rule("R39e", "every open() of the archiver passes newline=''")
    ctx.rule("R39f", "a final row is written before the file is released")
    ctx.rule("R39g", "a failing row write is not swallowed after archive() handed the values out")
    cls = m.classes.get("ArchiverTag")
    if cls is None or "on_stop" not in cls.methods:
        raise AnchorError("ArchiverTag.on_stop not found")
    f = cls.methods["on_stop"]
    ctx.analysed(f)
    g = cfg_of(f)
    base = prog.func("openpectus.lang.exec.events:EventListener.on_stop")
    clears = any(isinstance(st, ast.Assign) and norm(st.targets[0]) == "self.run_id" and isinstance(st.value, ast.Constant)
                 and st.value.value is None for st in ast.walk(base.node))
    supers = [n for n in g.nodes if any(isinstance(c.func, ast.Attribute) and c.func.attr == "on_stop" and isinstance(c.func.value, ast.Call)
                                        and norm(c.func.value.func) == "super" for c in n.calls())]
    inst = "ArchiverTag.on_stop: self.run_id is not read after super().on_stop()"
    if not clears or not supers:
        ctx.ok("R39d", inst + " (the base class does not clear it / is not called)")
    else:
        after = g.search([s.id for s in supers], lambda n: False, collect=True) - {s.id for s in supers}
        late = [n for n in g.nodes if n.id in after and any(isinstance(x, ast.Attribute) and norm(x) == "self.run_id"
                                                            and isinstance(x.ctx, ast.Load) for x in n.walk())]
        if late:
            ctx.fail("R39d", f, late[0].ast, inst, f"`{late[0].text()[:60]}` runs after EventListener.on_stop has set run_id to None: last_run_id "
                     "is None for every run, read_last_run_archive(run_id) fails its assertion and the archive cannot be read back "
                     "(the run-stopped message is built from it)")
        else:
            ctx.ok("R39d", inst)
    # R39e
    n_open = 0
    for fn in list(cls.methods.values()) + list(m.functions.values()):
        for c in ast.walk(fn.node):
            if isinstance(c, ast.Call) and norm(c.func) == "open":
                n_open += 1
                mode = c.args[1].value if len(c.args) > 1 and isinstance(c.args[1], ast.Constant) else next(
                    (k.value.value for k in c.keywords if k.arg == "mode" and isinstance(k.value, ast.Constant)), "r")
                inst = f"{fn.short}: open(..., {mode!r}) passes newline=''"
                nl = next((k.value for k in c.keywords if k.arg == "newline"), None)
                if "b" in str(mode) or (isinstance(nl, ast.Constant) and nl.value == ""):
                    ctx.ok("R39e", inst)
                else:
                    ctx.fail("R39e", fn, c, inst, "universal-newline translation is on for this file object: a carriage return inside a "
                             "value (escaped by the writer, e.g. a Mark text `a\\rb`) is read back as a line feed, and on writing a "
                             "line end inside a value would be rewritten")
    ctx.floor("R39e", 4)
    # R39f
    destructive = []
    tagc = prog.cls("openpectus.lang.exec.tags:Tag")
    for c in [tagc] + tagc.all_subclasses():
        a = c.methods.get("archive")
        if a is None:
            continue
        assigns = any(isinstance(st, (ast.Assign, ast.AugAssign)) and any(
            isinstance(t, ast.Attribute) and isinstance(t.value, ast.Name) and t.value.id == "self"
            for t in (st.targets if isinstance(st, ast.Assign) else [st.target])) for st in ast.walk(a.node))
        sets = any(isinstance(x, ast.Call) and call_attr(x) in ("set_value", "reset", "clear") for x in ast.walk(a.node))
        if assigns or sets:
            destructive.append(c.name)
    inst = "ArchiverTag.on_stop: write_tags_row() before the file is released"
    rel = [n for n in g.nodes if n.kind == "stmt" and isinstance(n.ast, ast.Assign) and norm(n.ast.targets[0]) in ("self.file_path", "self.file_ready")]
    if not destructive:
        ctx.ok("R39f", inst + " (no destructive archive())")
    elif not rel:
        raise AnchorError("ArchiverTag.on_stop: release of file_path / file_ready not found")
    else:
        pth = g.search(None, lambda n: any(n.id == r.id for r in rel), blocked=lambda n: any(call_attr(c) == "write_tags_row" for c in n.calls()),
                       follow_exc=False)
        if pth is None:
            ctx.ok("R39f", inst, {"rule": "R39f", "destructive_archive": destructive})
        else:
            ctx.fail("R39f", f, rel[0].ast, inst, f"{destructive} hand their value out once (archive() resets it) and rows are written only "
                     "every data_log_interval: what was handed to nobody yet when the run stops is in no file - the next run's header "
                     "writer consumes it", pth)
    # R39g
    w = cls.methods.get("write_tags_row")
    if w is None:
        raise AnchorError("ArchiverTag.write_tags_row not found")
    ctx.analysed(w)
    for t in ast.walk(w.node):
        if isinstance(t, ast.Try) and any(isinstance(c, ast.Call) and call_attr(c) == "writerow" for b in t.body for c in ast.walk(b)):
            for h in t.handlers:
                swallow = not any(isinstance(x, ast.Raise) for x in ast.walk(h))
                inst = "write_tags_row: a failing writerow is not swallowed"
                if swallow:
                    ctx.fail("R39g", w, h, inst, "the values of this row were already handed out by archive() (marks are reset); the handler "
                             "logs and goes on, so the row - and the mark text in it - is in no file")
                else:
                    ctx.ok("R39g", inst)
