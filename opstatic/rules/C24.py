"""C24 - No lost or stale hardware writes after an outage: kill rule on the pending-write buffer.

R24a superseded-entry kill: in ErrorRecoveryDecorator.write / write_batch, on every path from a
     successful `decorated.write*` of registers W to the normal exit, the pending entries of W are
     removed - directly, or through `_write_pending_values(except_names=<names of W>)` whose checked
     summary is "removes the pending entry of every register named in except_names" (and whose state
     guard is shown true at the call site by abstract interpretation of self.state).
R24b pending values are flushed only by _write_pending_values, only under state == OK, and it is
     called only after a successful direct write; a flushed entry is deleted only after its write succeeded.
R24c every insertion into pending_writes is dominated by error_read_write(), which clears
     last_success_writes on all paths (so a buffered register is re-written after the outage).
R24d in state Reconnect and on the failure path the newest value overwrites the pending entry
     (all paths store, except the return under state == Error).
R24e ownership: last_success_writes[...] is written only in success_write, which is called only
     right after a decorated write of the same values/registers.
R24f filter completeness: in filter_write_values every path through the loop body that does not
     append (value, register) has taken an edge that established value == old value.
Decides the buffering mechanism for every fault sequence; concrete register contents are not decided.
"""
from __future__ import annotations

import ast

from ..model import AnchorError, norm, walk_no_nested
from ..util import cfg_of, call_attr, kill_of_container_key, node_calls
from ..absint import Interp, mk, sd
from .C23 import RecoveryBinding, CLS, STATES

EXPLANATION = __doc__


def _is_pending(e: ast.AST) -> bool:
    return isinstance(e, ast.Attribute) and e.attr == "pending_writes"


def _eq_label(test: ast.AST):
    """Label ('T'/'F') of the edge on which `test` establishes equality of the compared values."""
    pol = True
    e = test
    while isinstance(e, ast.UnaryOp) and isinstance(e.op, ast.Not):
        e = e.operand
        pol = not pol
    if isinstance(e, ast.Call) and call_attr(e) == "isclose":
        return "T" if pol else "F"
    if isinstance(e, ast.Compare) and len(e.ops) == 1:
        if isinstance(e.ops[0], ast.Eq):
            return "T" if pol else "F"
        if isinstance(e.ops[0], ast.NotEq):
            return "F" if pol else "T"
    return None


def _summary_kills_excepted(ctx, wp) -> tuple[bool, str, list[str]]:
    """Does _write_pending_values remove the pending entry of every register named in its
    except_names parameter? Returns (ok, description, extra guard conditions)."""
    params = [a.arg for a in wp.node.args.args[1:]]
    if not params:
        return False, "no except_names parameter", []
    ex = params[0]
    g = cfg_of(wp)
    # idiom 1: inside the loop over pending items, on the edge where `<reg>.name in except_names` holds
    for n in g.nodes:
        if n.kind != "test":
            continue
        e = n.ast
        pol = "T"
        while isinstance(e, ast.UnaryOp) and isinstance(e.op, ast.Not):
            e = e.operand
            pol = "F" if pol == "T" else "T"
        if isinstance(e, ast.Compare) and len(e.ops) == 1 and isinstance(e.ops[0], (ast.In, ast.NotIn)) \
                and isinstance(e.comparators[0], ast.Name) and e.comparators[0].id == ex:
            lab = pol if isinstance(e.ops[0], ast.In) else ("F" if pol == "T" else "T")
            loops = [l for l in g.nodes if l.kind == "for"]
            # every path from that edge back to a loop head / exit passes a kill of pending_writes
            p = g.search([(n.id, lab)], lambda x: x.kind == "for" or x.id == g.exit.id,
                         blocked=lambda x: kill_of_container_key(x, _is_pending, None) is not None)
            if p is None:
                conds = [norm(c) + ("" if pl else " [false]") for c, pl in g.conditions_at(n)]
                return True, f"loop branch `{norm(n.ast)}` removes the entry", conds
            return False, f"on the branch where `{norm(n.ast)}` holds the superseded entry is kept " \
                          f"({' -> '.join(x.text() for x in p if x.ast is not None)})", []
    # idiom 2: rebinding / comprehension filtered by except_names before anything else
    for n in g.nodes:
        if n.kind == "stmt" and isinstance(n.ast, ast.Assign) and any(_is_pending(t) for t in n.ast.targets) \
                and ex in norm(n.ast.value) and "not in" in norm(n.ast.value):
            if g.dominates(n, g.exit):
                return True, "pending_writes rebuilt without the excepted names", []
    # idiom 3: explicit loop over except_names popping
    for n in g.nodes:
        if n.kind == "for" and norm(n.ast.iter) == ex:
            return False, "loop over except_names found but pending_writes is keyed by Register, shape not recognised", []
    return False, "no statement removes the entries named in except_names", []


def run(ctx) -> None:
    prog = ctx.prog
    cls = prog.cls(CLS)
    for r, d in [("R24a", "pending entry of a register is removed when a newer value was written successfully"),
                 ("R24b", "flush discipline"), ("R24c", "buffering clears last_success_writes"),
                 ("R24d", "newest value overwrites the pending entry"), ("R24e", "ownership of last_success_writes"),
                 ("R24f", "filter drops a value only when it equals the last written one")]:
        ctx.rule(r, d)
    wp = cls.find_method("_write_pending_values")
    if wp is None:
        raise AnchorError("_write_pending_values missing")
    ctx.analysed(wp)
    sum_ok, sum_desc, sum_conds = _summary_kills_excepted(ctx, wp)
    b = RecoveryBinding(ctx, cls)

    for name in ("write", "write_batch"):
        m = cls.find_method(name)
        if m is None:
            raise AnchorError(f"{name} missing")
        ctx.analysed(m)
        g = cfg_of(m)
        dec = [n for n in g.nodes if any(norm(c.func) == f"self.decorated.{name}" for c in n.calls())]
        if not dec:
            raise AnchorError(f"{name}: decorated call not found")
        it = Interp(b)
        for s in STATES:
            it.run(m, mk({"state": s, "conn": "Connected", "loc": None}))
        for d in dec:
            dcall = [c for c in d.calls() if norm(c.func) == f"self.decorated.{name}"][0]
            regarg = norm(dcall.args[1]) if len(dcall.args) > 1 else ""
            inst = f"{name}: pending entries of written registers removed after {d.text()}"

            def kills(x, regarg=regarg) -> bool:
                if kill_of_container_key(x, _is_pending, None):
                    return True
                for c in x.calls():
                    if call_attr(c) == "_write_pending_values":
                        a = None
                        for k in c.keywords:
                            if k.arg == "except_names":
                                a = k.value
                        if a is None and c.args:
                            a = c.args[0]
                        if a is None:
                            return False
                        names = {n2.id for n2 in ast.walk(a) if isinstance(n2, ast.Name)}
                        regnames = {n2.id for n2 in ast.walk(ast.parse(regarg, mode="eval")) if isinstance(n2, ast.Name)} if regarg else set()
                        if not (names & regnames):
                            return False
                        if not sum_ok:
                            return False
                        # state guard of the summary must hold at this call site
                        for cond in sum_conds:
                            if "self.state" in cond:
                                st_at = {sd(s2)["state"] for s2 in it.states_at(m, x)}
                                if not st_at or not all(f"ErrorRecoveryState.{s2}" in cond for s2 in st_at) or "[false]" in cond:
                                    return False
                        return True
                return False
            p = g.search([(d.id, "")], lambda x: x.id == g.exit.id, blocked=kills, follow_exc=False)
            if p is None:
                ctx.ok("R24a", inst, {"rule": "R24a", "site": d.text(), "summary": sum_desc})
            else:
                why = sum_desc if not sum_ok else "no kill on this path"
                ctx.fail("R24a", m, d.ast, inst,
                         f"after the newer value has been written successfully the older buffered value of the same register "
                         f"stays in pending_writes ({why}); a later cycle in which the register is unchanged flushes the stale "
                         f"value over the newer one", p)
        # ---- R24d / R24c
        stores = [n for n in g.nodes if n.kind == "stmt" and isinstance(n.ast, ast.Assign) and any(
            isinstance(t, ast.Subscript) and _is_pending(t.value) for t in n.ast.targets)]
        for st in stores:
            inst = f"{name}: {st.text()} dominated by error_read_write()"
            if any(g.dominates(x, st) for x in g.nodes if node_calls(x, "error_read_write")):
                ctx.ok("R24c", inst)
            else:
                ctx.fail("R24c", m, st.ast, inst, "value buffered without clearing last_success_writes: after the outage the "
                         "register would be filtered out as unchanged and never rewritten")
        handlers = [n for n in g.nodes if n.kind == "except" and "HardwareLayerException" in n.text()]
        recon = [n for n in g.nodes if n.kind == "test" and "Reconnect" in norm(n.ast) and "self.state" in norm(n.ast)]
        if not handlers or not recon:
            raise AnchorError(f"{name}: failure handler / Reconnect branch not found")
        for start, what in [((recon[0].id, "T"), "Reconnect branch")] + [((h.id, ""), "failure handler") for h in handlers]:
            def blocked(x) -> bool:
                if x in stores or any(x.id == s2.id for s2 in stores):
                    return True
                if x.kind == "for" and any(isinstance(t, ast.Subscript) and _is_pending(t.value) for sub in walk_no_nested(x.ast)
                                           if isinstance(sub, ast.Assign) for t in sub.targets):
                    return True
                return False

            def error_return(nid, dd, lab) -> bool:
                nn = g.nodes[nid]
                return nn.kind == "test" and "ErrorRecoveryState.Error" in norm(nn.ast) and lab == "T"
            p = g.search([start], lambda x: x.id == g.exit.id, blocked=blocked, follow_exc=False, blocked_edge=error_return)
            inst = f"{name}: {what} stores the newest value in pending_writes"
            if p is None:
                ctx.ok("R24d", inst)
            else:
                ctx.fail("R24d", m, g.nodes[start[0]].ast, inst, "a path drops the commanded value instead of buffering it", p)
        # ---- R24b (callers) / R24e (success_write placement)
        for x in g.nodes:
            for c in x.calls():
                if call_attr(c) in ("_write_pending_values", "success_write"):
                    inst = f"{name}: {call_attr(c)} only after a successful decorated write"
                    if any(g.dominates(d, x) and d.id != x.id for d in dec) and not any(h.kind == "except" and g.dominates(h, x) for h in g.nodes):
                        if call_attr(c) == "success_write":
                            dcall = [cc for d in dec for cc in d.calls() if norm(cc.func) == f"self.decorated.{name}"][0]
                            same = [norm(a).strip("[]") for a in c.args] == [norm(a).strip("[]") for a in dcall.args]
                            if not same:
                                ctx.fail("R24e", m, c, inst, f"success_write records {[norm(a) for a in c.args]} but the hardware was "
                                         f"given {[norm(a) for a in dcall.args]}")
                                continue
                        ctx.ok("R24b" if call_attr(c) == "_write_pending_values" else "R24e", inst)
                    else:
                        ctx.fail("R24b" if call_attr(c) == "_write_pending_values" else "R24e", m, c, inst,
                                 "reachable without a successful direct write")
    # ---- R24b in _write_pending_values
    g = cfg_of(wp)
    flush = [n for n in g.nodes if any(norm(c.func) in ("self.decorated.write", "self.decorated.write_batch") for c in n.calls())]
    if not flush:
        raise AnchorError("_write_pending_values: decorated.write / write_batch not found")
    for fl in flush:
        conds = [(norm(c), pol) for c, pol in g.conditions_at(fl)]
        inst = "_write_pending_values: flush only in state OK"
        if any("self.state == ErrorRecoveryState.OK" in c and pol for c, pol in conds):
            ctx.ok("R24b", inst)
        else:
            ctx.fail("R24b", wp, fl.ast, inst, "buffered values can be flushed while the connection is not OK")
        dels = [n for n in g.nodes if kill_of_container_key(n, _is_pending, None) and fl.id != n.id
                and n.id in g.search([(fl.id, "")], lambda x: False, collect=True, follow_exc=False)]
        inst = "_write_pending_values: entry deleted only after its write succeeded"
        # a delete reachable from the flush's exception edge before the next iteration = lost write
        lost = None
        for h in [g.nodes[d] for d, l in g.succ[fl.id] if l == "exc"]:
            p = g.search([h.id], lambda x: kill_of_container_key(x, _is_pending, None) is not None,
                         blocked=lambda x: x.kind == "for")
            if p is not None:
                lost = p
        if lost is None and dels:
            ctx.ok("R24b", inst)
        elif lost is not None:
            ctx.fail("R24b", wp, fl.ast, inst, "a buffered value is discarded although writing it failed", lost)
        else:
            ctx.fail("R24b", wp, fl.ast, inst, "flushed entries are never removed (rewritten forever)")
    callers = []
    for fn in prog.iter_functions():
        for c in walk_no_nested(fn.node):
            if isinstance(c, ast.Call) and call_attr(c) == "_write_pending_values":
                callers.append(fn)
    for fn in callers:
        inst = f"caller of _write_pending_values: {fn.short}"
        if fn.cls is cls and fn.name in ("write", "write_batch"):
            ctx.ok("R24b", inst, trivial=True)
        else:
            ctx.fail("R24b", fn, fn.node, inst, "pending values flushed from outside the checked write paths")
    # ---- R24c: error_read_write clears last_success_writes on all paths
    er = cls.find_method("error_read_write")
    ctx.analysed(er)
    g = cfg_of(er)
    p = g.path_to_exit_avoiding(None, lambda n: any(
        call_attr(c) == "clear" and "last_success_writes" in norm(c.func) for c in n.calls()))
    if p is None:
        ctx.ok("R24c", "error_read_write clears last_success_writes on every path")
    else:
        ctx.fail("R24c", er, er.node, "error_read_write clears last_success_writes on every path",
                 "after an error some registers may still count as 'already written'", p)
    # ---- R24e ownership
    for fn in prog.iter_functions():
        for n in walk_no_nested(fn.node):
            if isinstance(n, ast.Assign) and any(isinstance(t, ast.Subscript) and "last_success_writes" in norm(t.value) for t in n.targets):
                inst = f"{fn.short}: {norm(n)}"
                if fn.cls is cls and fn.name == "success_write":
                    ctx.ok("R24e", inst)
                else:
                    ctx.fail("R24e", fn, n, inst, "last_success_writes recorded outside success_write")
    # ---- R24f
    fw = cls.find_method("filter_write_values")
    ctx.analysed(fw)
    g = cfg_of(fw)
    loops = [n for n in g.nodes if n.kind == "for"]
    if len(loops) != 1:
        raise AnchorError("filter_write_values: expected exactly one loop")
    lp = loops[0]

    def is_append(x) -> bool:
        return any(call_attr(c) == "append" and "out_" in norm(c.func) for c in x.calls())

    def eq_edge(nid, dd, lab) -> bool:
        nn = g.nodes[nid]
        return nn.kind == "test" and _eq_label(nn.ast) == lab
    p = g.search([(lp.id, "loop")], lambda x: x.id == lp.id, blocked=is_append, blocked_edge=eq_edge, follow_exc=False)
    inst = "filter_write_values: a value is dropped only if it equals the last successfully written value"
    if p is None:
        ctx.ok("R24f", inst)
    else:
        ctx.fail("R24f", fw, lp.ast, inst, "a path through the loop body neither keeps (value, register) nor has compared the value "
                 "equal to the last written one: the commanded value is silently filtered out and never reaches the hardware", p)
